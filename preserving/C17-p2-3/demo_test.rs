// Model-based demonstration for property C17: SparseMatrix editing behaves
// like a mathematical set of (row, column) positions.
//
// Uses only the public API of ldpc_toolbox and std. Deterministic (own PRNG).
// Every test body runs in a helper thread and is bounded by a wall-clock
// timeout, so the file cannot hang forever.

use ldpc_toolbox::sparse::SparseMatrix;
use std::collections::BTreeSet;
use std::sync::mpsc;
use std::time::Duration;

type Model = BTreeSet<(usize, usize)>;

struct Rng(u64);

impl Rng {
    fn next(&mut self) -> u64 {
        // splitmix64
        self.0 = self.0.wrapping_add(0x9E37_79B9_7F4A_7C15);
        let mut z = self.0;
        z = (z ^ (z >> 30)).wrapping_mul(0xBF58_476D_1CE4_E5B9);
        z = (z ^ (z >> 27)).wrapping_mul(0x94D0_49BB_1331_11EB);
        z ^ (z >> 31)
    }
    fn below(&mut self, n: usize) -> usize {
        assert!(n > 0);
        (self.next() % (n as u64)) as usize
    }
    // A list of indices below n, possibly with repetitions, in random order.
    fn list(&mut self, n: usize, maxlen: usize) -> Vec<usize> {
        if n == 0 {
            return Vec::new();
        }
        let len = self.below(maxlen + 1);
        (0..len).map(|_| self.below(n)).collect()
    }
}

fn with_timeout<F: FnOnce() + Send + 'static>(secs: u64, f: F) {
    let (tx, rx) = mpsc::channel();
    let handle = std::thread::spawn(move || {
        f();
        let _ = tx.send(());
    });
    match rx.recv_timeout(Duration::from_secs(secs)) {
        Ok(()) => handle.join().unwrap(),
        Err(mpsc::RecvTimeoutError::Disconnected) => {
            // the body panicked: propagate the panic
            if let Err(e) = handle.join() {
                std::panic::resume_unwind(e);
            }
            panic!("worker vanished");
        }
        Err(mpsc::RecvTimeoutError::Timeout) => panic!("timed out"),
    }
}

// Checks every observable of the matrix against the model set.
// `dense` additionally checks contains() on every cell of the matrix.
fn check(h: &SparseMatrix, model: &Model, nrows: usize, ncols: usize, dense: bool) {
    assert_eq!(h.num_rows(), nrows, "number of rows changed");
    assert_eq!(h.num_cols(), ncols, "number of columns changed");

    // all-entries iterator: no duplicates, equals the model
    let all: Vec<(usize, usize)> = h.iter_all().collect();
    let all_set: Model = all.iter().copied().collect();
    assert_eq!(all.len(), all_set.len(), "iter_all has duplicates");
    assert_eq!(&all_set, model, "iter_all disagrees with the model");

    // row views
    let mut from_rows = Model::new();
    let mut total = 0;
    for r in 0..nrows {
        let v: Vec<usize> = h.iter_row(r).copied().collect();
        let s: BTreeSet<usize> = v.iter().copied().collect();
        assert_eq!(v.len(), s.len(), "iter_row({}) has duplicates", r);
        assert_eq!(h.row_weight(r), v.len(), "row_weight({})", r);
        let expected: BTreeSet<usize> = model
            .range((r, 0)..=(r, usize::MAX))
            .map(|&(_, c)| c)
            .collect();
        assert_eq!(s, expected, "iter_row({}) disagrees with the model", r);
        total += v.len();
        for c in v {
            assert!(c < ncols);
            assert!(h.contains(r, c));
            from_rows.insert((r, c));
        }
    }
    assert_eq!(total, model.len());

    // column views
    let mut from_cols = Model::new();
    let mut total = 0;
    for c in 0..ncols {
        let v: Vec<usize> = h.iter_col(c).copied().collect();
        let s: BTreeSet<usize> = v.iter().copied().collect();
        assert_eq!(v.len(), s.len(), "iter_col({}) has duplicates", c);
        assert_eq!(h.col_weight(c), v.len(), "col_weight({})", c);
        total += v.len();
        for r in v {
            assert!(r < nrows);
            assert!(h.contains(r, c));
            from_cols.insert((r, c));
        }
    }
    assert_eq!(total, model.len());
    assert_eq!(from_rows, from_cols, "row and column views are inconsistent");
    assert_eq!(&from_rows, model);

    if dense {
        for r in 0..nrows {
            for c in 0..ncols {
                assert_eq!(
                    h.contains(r, c),
                    model.contains(&(r, c)),
                    "contains({}, {})",
                    r,
                    c
                );
            }
        }
    }
}

#[derive(Clone, Debug)]
enum Op {
    Insert(usize, usize),
    Remove(usize, usize),
    Toggle(usize, usize),
    ClearRow(usize),
    ClearCol(usize),
    SetRow(usize, Vec<usize>, u8),
    SetCol(usize, Vec<usize>, u8),
    InsertRow(usize, Vec<usize>, u8),
    InsertCol(usize, Vec<usize>, u8),
}

fn random_op(rng: &mut Rng, nrows: usize, ncols: usize, bias: usize) -> Option<Op> {
    if nrows == 0 && ncols == 0 {
        return None;
    }
    let kind = (rng.below(14) + bias) % 14;
    let maxlen_r = 2 * ncols + 2;
    let maxlen_c = 2 * nrows + 2;
    let k = rng.below(4) as u8;
    Some(match kind {
        0 | 1 | 2 if nrows > 0 && ncols > 0 => Op::Insert(rng.below(nrows), rng.below(ncols)),
        3 | 4 if nrows > 0 && ncols > 0 => Op::Remove(rng.below(nrows), rng.below(ncols)),
        5 | 6 if nrows > 0 && ncols > 0 => Op::Toggle(rng.below(nrows), rng.below(ncols)),
        7 if nrows > 0 => Op::ClearRow(rng.below(nrows)),
        8 if ncols > 0 => Op::ClearCol(rng.below(ncols)),
        9 if nrows > 0 => Op::SetRow(rng.below(nrows), rng.list(ncols, maxlen_r), k),
        10 if ncols > 0 => Op::SetCol(rng.below(ncols), rng.list(nrows, maxlen_c), k),
        11 | 12 if nrows > 0 => Op::InsertRow(rng.below(nrows), rng.list(ncols, maxlen_r), k),
        _ if ncols > 0 => Op::InsertCol(rng.below(ncols), rng.list(nrows, maxlen_c), k),
        _ => Op::ClearRow(rng.below(nrows)),
    })
}

// Bulk operations are generic over the iterator and over Borrow<usize>; use
// several kinds of iterators.
macro_rules! bulk {
    ($h:expr, $method:ident, $line:expr, $list:expr, $kind:expr) => {
        match $kind {
            0 => $h.$method($line, $list.iter()),
            1 => $h.$method($line, $list.clone().into_iter()),
            2 => $h.$method($line, $list.iter().map(|&x| Box::new(x))),
            _ => $h.$method($line, $list.iter().rev().rev().copied().filter(|_| true)),
        }
    };
}

fn apply(h: &mut SparseMatrix, op: &Op) {
    match op {
        Op::Insert(r, c) => h.insert(*r, *c),
        Op::Remove(r, c) => h.remove(*r, *c),
        Op::Toggle(r, c) => h.toggle(*r, *c),
        Op::ClearRow(r) => h.clear_row(*r),
        Op::ClearCol(c) => h.clear_col(*c),
        Op::SetRow(r, l, k) => bulk!(h, set_row, *r, l, *k),
        Op::SetCol(c, l, k) => bulk!(h, set_col, *c, l, *k),
        Op::InsertRow(r, l, k) => bulk!(h, insert_row, *r, l, *k),
        Op::InsertCol(c, l, k) => bulk!(h, insert_col, *c, l, *k),
    }
}

fn apply_model(m: &mut Model, op: &Op, nrows: usize, ncols: usize) {
    match op {
        Op::Insert(r, c) => {
            m.insert((*r, *c));
        }
        Op::Remove(r, c) => {
            m.remove(&(*r, *c));
        }
        Op::Toggle(r, c) => {
            if !m.remove(&(*r, *c)) {
                m.insert((*r, *c));
            }
        }
        Op::ClearRow(r) => {
            for c in 0..ncols {
                m.remove(&(*r, c));
            }
        }
        Op::ClearCol(c) => {
            for r in 0..nrows {
                m.remove(&(r, *c));
            }
        }
        Op::SetRow(r, l, _) => {
            for c in 0..ncols {
                m.remove(&(*r, c));
            }
            for c in l {
                m.insert((*r, *c));
            }
        }
        Op::SetCol(c, l, _) => {
            for r in 0..nrows {
                m.remove(&(r, *c));
            }
            for r in l {
                m.insert((*r, *c));
            }
        }
        Op::InsertRow(r, l, _) => {
            for c in l {
                m.insert((*r, *c));
            }
        }
        Op::InsertCol(c, l, _) => {
            for r in l {
                m.insert((*r, *c));
            }
        }
    }
}

// Inserting a present entry / removing an absent entry leaves the matrix
// equal (==) to what it was; so do the bulk inserts of present entries.
fn noop_checks(h: &mut SparseMatrix, model: &Model, rng: &mut Rng, nrows: usize, ncols: usize) {
    if nrows == 0 || ncols == 0 {
        return;
    }
    let before = h.clone();
    assert_eq!(*h, before);
    for _ in 0..4 {
        let (r, c) = (rng.below(nrows), rng.below(ncols));
        if model.contains(&(r, c)) {
            h.insert(r, c);
        } else {
            h.remove(r, c);
        }
        assert!(*h == before, "no-op insert/remove changed the matrix");
        assert!(before == *h);
    }
    // every present entry re-inserted, every absent entry removed
    if rng.below(8) == 0 {
        for r in 0..nrows {
            for c in 0..ncols {
                if model.contains(&(r, c)) {
                    h.insert(r, c);
                } else {
                    h.remove(r, c);
                }
            }
        }
        assert!(*h == before, "no-op sweep changed the matrix");
    }
    // bulk insert of entries already present
    let r = rng.below(nrows);
    let present: Vec<usize> = model
        .range((r, 0)..=(r, usize::MAX))
        .map(|&(_, c)| c)
        .collect();
    h.insert_row(r, present.iter().rev());
    h.insert_row(r, present.iter().chain(present.iter()));
    assert!(*h == before, "bulk insert of present entries changed the matrix");
    let c = rng.below(ncols);
    let present: Vec<usize> = model.iter().filter(|e| e.1 == c).map(|e| e.0).collect();
    h.insert_col(c, present.iter());
    h.insert_col(c, std::iter::empty::<usize>());
    assert!(*h == before, "bulk insert of present entries changed the matrix");
}

fn run_history(seed: u64, nrows: usize, ncols: usize, steps: usize, dense_every: usize) {
    let mut rng = Rng(seed);
    let mut h = SparseMatrix::new(nrows, ncols);
    let mut replay = SparseMatrix::new(nrows, ncols);
    let mut model = Model::new();
    let mut history = Vec::new();
    check(&h, &model, nrows, ncols, true);
    // phases with different mixes of operations: mostly growing, mixed,
    // mostly shrinking
    for step in 0..steps {
        let bias = match (step * 6) / steps.max(1) {
            0 | 3 => 0,
            1 | 4 => 3,
            _ => 7,
        };
        let op = match random_op(&mut rng, nrows, ncols, bias) {
            Some(op) => op,
            None => break,
        };
        let snapshot = h.clone();
        let previous = model.clone();
        apply(&mut h, &op);
        apply_model(&mut model, &op, nrows, ncols);
        history.push(op.clone());
        let dense = dense_every > 0 && step % dense_every == 0;
        check(&h, &model, nrows, ncols, dense);
        // the clone taken before the operation is unaffected by it
        if step % 7 == 0 {
            check(&snapshot, &previous, nrows, ncols, false);
        }
        // matrices holding different sets are different
        if previous != model {
            assert!(snapshot != h, "{:?} changed the set but == still holds", op);
        } else if matches!(op, Op::Insert(..) | Op::Remove(..)) {
            assert!(snapshot == h, "{:?} did not change the set but == fails", op);
        }
        if step % 5 == 0 {
            noop_checks(&mut h, &model, &mut rng, nrows, ncols);
            check(&h, &model, nrows, ncols, false);
        }
    }
    // same history on a fresh matrix gives an equal matrix
    for op in &history {
        apply(&mut replay, op);
    }
    assert!(replay == h);
    check(&replay, &model, nrows, ncols, true);
    // the alist round trip preserves the set
    if nrows > 0 && ncols > 0 {
        let back = SparseMatrix::from_alist(&h.alist()).unwrap();
        check(&back, &model, nrows, ncols, true);
        let back = SparseMatrix::from_alist(&h.alist_no_padding()).unwrap();
        check(&back, &model, nrows, ncols, true);
    }
    // emptying the matrix line by line
    for r in 0..nrows {
        h.clear_row(r);
        for c in 0..ncols {
            model.remove(&(r, c));
        }
        check(&h, &model, nrows, ncols, false);
    }
    assert!(model.is_empty());
    assert!(h == SparseMatrix::new(nrows, ncols));
    for c in 0..ncols {
        h.clear_col(c);
    }
    check(&h, &model, nrows, ncols, true);
}

#[test]
fn random_histories_small_shapes() {
    with_timeout(600, || {
        let shapes = [
            (0, 0),
            (0, 5),
            (5, 0),
            (1, 1),
            (1, 7),
            (7, 1),
            (2, 2),
            (3, 5),
            (6, 4),
            (9, 9),
            (5, 17),
            (16, 3),
        ];
        for (i, &(nr, nc)) in shapes.iter().enumerate() {
            for rep in 0..2 {
                run_history(0xC17_0000 + 100 * (i as u64) + rep, nr, nc, 450, 3);
            }
        }
    });
}

#[test]
fn random_histories_larger_shapes() {
    with_timeout(600, || {
        run_history(0xABCD_0001, 40, 70, 500, 25);
        run_history(0xABCD_0002, 120, 33, 500, 25);
        run_history(0xABCD_0003, 64, 64, 500, 25);
    });
}

#[test]
fn full_and_empty_extremes() {
    with_timeout(600, || {
        let (nr, nc) = (13, 11);
        let mut h = SparseMatrix::new(nr, nc);
        let mut model = Model::new();
        // fill completely, in a scattered order, by toggling
        for k in 0..nr * nc {
            let p = (k * 7) % (nr * nc);
            h.toggle(p / nc, p % nc);
            model.insert((p / nc, p % nc));
            check(&h, &model, nr, nc, false);
        }
        check(&h, &model, nr, nc, true);
        let full = h.clone();
        // set every row to itself given backwards with repetitions
        for r in 0..nr {
            let l: Vec<usize> = (0..nc).rev().chain(0..nc).collect();
            h.set_row(r, l.iter());
            check(&h, &model, nr, nc, true);
        }
        for r in 0..nr {
            for c in 0..nc {
                h.insert(r, c);
            }
        }
        check(&h, &model, nr, nc, true);
        let _ = full;
        // toggle everything off again in another order
        for k in 0..nr * nc {
            let p = (k * 5 + 3) % (nr * nc);
            h.toggle(p / nc, p % nc);
            model.remove(&(p / nc, p % nc));
            check(&h, &model, nr, nc, false);
        }
        assert!(model.is_empty());
        assert!(h == SparseMatrix::new(nr, nc));
        // set_col with an empty list on an empty matrix, set then clear
        h.set_col(4, std::iter::empty::<usize>());
        check(&h, &model, nr, nc, true);
        h.set_col(4, 0..nr);
        h.set_row(2, (0..nc).filter(|c| c % 2 == 0));
        for r in 0..nr {
            model.insert((r, 4));
        }
        model.remove(&(2, 4));
        for c in (0..nc).filter(|c| c % 2 == 0) {
            model.insert((2, c));
        }
        check(&h, &model, nr, nc, true);
        h.clear_col(4);
        for r in 0..nr {
            model.remove(&(r, 4));
        }
        check(&h, &model, nr, nc, true);
        // removing absent entries from an emptied column
        let before = h.clone();
        for r in 0..nr {
            h.remove(r, 4);
        }
        assert!(h == before);
        // GF(2) addition of a row to itself by toggling cancels it
        let cols: Vec<usize> = h.iter_row(2).copied().collect();
        for c in cols {
            h.toggle(2, c);
            model.remove(&(2, c));
        }
        check(&h, &model, nr, nc, true);
        assert!(model.is_empty());
    });
}

// Two matrices edited in lockstep, one through the single-entry calls and one
// through the bulk calls, hold the same set at every step; clones diverge
// independently; set_row/set_col that keep, drop and add entries at once.
#[test]
fn bulk_and_single_entry_calls_agree() {
    with_timeout(600, || {
        let shapes = [(1, 1), (4, 9), (9, 4), (12, 12), (2, 30)];
        for (i, &(nr, nc)) in shapes.iter().enumerate() {
            let mut rng = Rng(0x5EED_0003 + i as u64);
            let mut single = SparseMatrix::new(nr, nc);
            let mut bulk = SparseMatrix::new(nr, nc);
            let mut model = Model::new();
            for step in 0..400 {
                let by_row = rng.below(2) == 0;
                let (line, other) = if by_row {
                    (rng.below(nr), nc)
                } else {
                    (rng.below(nc), nr)
                };
                let pos = |x: usize| if by_row { (line, x) } else { (x, line) };
                // a list that overlaps what the line already has
                let mut list: Vec<usize> = (0..other)
                    .filter(|&x| model.contains(&pos(x)) && rng.below(2) == 0)
                    .collect();
                list.extend(rng.list(other, other / 2 + 1));
                if rng.below(2) == 0 {
                    list.reverse();
                }
                match rng.below(4) {
                    0 => {
                        // union
                        if by_row {
                            bulk.insert_row(line, list.iter());
                        } else {
                            bulk.insert_col(line, list.iter());
                        }
                        for &x in &list {
                            let (r, c) = pos(x);
                            single.insert(r, c);
                            model.insert((r, c));
                        }
                    }
                    1 | 2 => {
                        // replacement
                        if by_row {
                            bulk.set_row(line, list.iter());
                        } else {
                            bulk.set_col(line, list.iter());
                        }
                        for x in 0..other {
                            let (r, c) = pos(x);
                            single.remove(r, c);
                            model.remove(&(r, c));
                        }
                        for &x in &list {
                            let (r, c) = pos(x);
                            single.insert(r, c);
                            model.insert((r, c));
                        }
                    }
                    _ => {
                        // GF(2) addition of the list to the line: toggling on
                        // one side, computing the symmetric difference and
                        // setting it on the other
                        let mut acc: BTreeSet<usize> = (0..other)
                            .filter(|&x| model.contains(&pos(x)))
                            .collect();
                        for &x in &list {
                            let (r, c) = pos(x);
                            single.toggle(r, c);
                            if !acc.remove(&x) {
                                acc.insert(x);
                            }
                        }
                        if by_row {
                            bulk.set_row(line, acc.iter());
                        } else {
                            bulk.set_col(line, acc.iter());
                        }
                        for x in 0..other {
                            model.remove(&pos(x));
                        }
                        for &x in &acc {
                            model.insert(pos(x));
                        }
                    }
                }
                check(&single, &model, nr, nc, step % 4 == 0);
                check(&bulk, &model, nr, nc, step % 4 == 0);
                if step % 25 == 0 {
                    // a clone diverges without affecting the original
                    let mut fork = bulk.clone();
                    let mut fork_model = model.clone();
                    assert!(fork == bulk);
                    let r = rng.below(nr);
                    fork.clear_row(r);
                    for c in 0..nc {
                        fork_model.remove(&(r, c));
                    }
                    let c = rng.below(nc);
                    fork.toggle(r, c);
                    fork_model.insert((r, c));
                    check(&fork, &fork_model, nr, nc, true);
                    check(&bulk, &model, nr, nc, true);
                    if fork_model != model {
                        assert!(fork != bulk);
                    }
                    // undo on the fork of the fork: back to a cleared row
                    let mut again = fork.clone();
                    again.toggle(r, c);
                    fork_model.remove(&(r, c));
                    check(&again, &fork_model, nr, nc, true);
                    assert!(again != fork);
                }
            }
        }
    });
}
