// Demo for change 1: the C decoder wrapper loads the received LLRs (f32 or
// f64, punctured or not) into a reusable f64 workspace in one pass.
//
// The test compares the C interface against the Rust decoder run on the
// depunctured (and, for f32, widened) LLRs, for several codes, decoder
// implementations, puncturing patterns, LLR buffers, output lengths and
// iteration limits, and for interleaved call sequences on a single handle.

use ldpc_toolbox::{
    decoder::factory::{DecoderFactory, DecoderImplementation},
    encoder::Encoder,
    gf2::GF2,
    simulation::puncturing::Puncturer,
    sparse::SparseMatrix,
};
use ndarray::Array1;
use num_traits::{One, Zero};
use std::ffi::{CString, c_char, c_void};

unsafe extern "C" {
    fn ldpc_toolbox_decoder_ctor_alist_string(
        alist: *const c_char,
        implementation: *const c_char,
        puncturing: *const c_char,
    ) -> *mut c_void;
    fn ldpc_toolbox_decoder_dtor(decoder: *mut c_void);
    fn ldpc_toolbox_decoder_decode_f64(
        decoder: *mut c_void,
        output: *mut u8,
        output_len: usize,
        llrs: *const f64,
        llrs_len: usize,
        max_iterations: u32,
    ) -> i32;
    fn ldpc_toolbox_decoder_decode_f32(
        decoder: *mut c_void,
        output: *mut u8,
        output_len: usize,
        llrs: *const f32,
        llrs_len: usize,
        max_iterations: u32,
    ) -> i32;
}

const ALIST_12_4: &str = "12 4
3 9
3 3 3 3 3 3 3 3 3 3 3 3
9 9 9 9
1 2 3
1 3 4
2 3 4
2 3 4
1 2 4
1 2 3
1 3 4
1 2 4
1 2 3
2 3 4
1 2 4
1 3 4
1 2 5 6 7 8 9 11 12
1 3 4 5 6 8 9 10 11
1 2 3 4 6 7 9 10 12
2 3 4 5 7 8 10 11 12
";

struct Rng(u64);

impl Rng {
    fn next(&mut self) -> u64 {
        // xorshift64*
        self.0 ^= self.0 >> 12;
        self.0 ^= self.0 << 25;
        self.0 ^= self.0 >> 27;
        self.0.wrapping_mul(0x2545F4914F6CDD1D)
    }

    fn below(&mut self, n: usize) -> usize {
        (self.next() >> 33) as usize % n
    }

    // roughly uniform in [-1, 1)
    fn unit(&mut self) -> f64 {
        ((self.next() >> 11) as f64 / (1u64 << 53) as f64) * 2.0 - 1.0
    }
}

// Repeat-accumulate (staircase) code with 24 columns and 12 rows
fn staircase_alist() -> String {
    let (n, k) = (24, 12);
    let m = n - k;
    let mut h = SparseMatrix::new(m, n);
    let mut rng = Rng(0x1234_5678_9abc_def1);
    for col in 0..k {
        let mut inserted = 0;
        while inserted < 3 {
            let row = rng.below(m);
            if !h.contains(row, col) {
                h.insert(row, col);
                inserted += 1;
            }
        }
    }
    for j in 0..m {
        h.insert(j, k + j);
        if j > 0 {
            h.insert(j, k + j - 1);
        }
    }
    h.alist()
}

fn parse_pattern(s: &str) -> Option<Vec<bool>> {
    if s.is_empty() {
        None
    } else {
        Some(s.split(',').map(|a| a == "1").collect())
    }
}

struct CDecoder(*mut c_void);

impl CDecoder {
    fn new(alist: &str, implementation: &str, puncturing: &str) -> CDecoder {
        let alist = CString::new(alist).unwrap();
        let implementation = CString::new(implementation).unwrap();
        let puncturing = CString::new(puncturing).unwrap();
        let p = unsafe {
            ldpc_toolbox_decoder_ctor_alist_string(
                alist.as_ptr(),
                implementation.as_ptr(),
                puncturing.as_ptr(),
            )
        };
        assert!(!p.is_null());
        CDecoder(p)
    }

    fn decode_f64(&self, output_len: usize, llrs: &[f64], max_iterations: u32) -> (i32, Vec<u8>) {
        // canary values to check that the whole output is written
        let mut output = vec![0xa5u8; output_len];
        let ret = unsafe {
            ldpc_toolbox_decoder_decode_f64(
                self.0,
                output.as_mut_ptr(),
                output.len(),
                llrs.as_ptr(),
                llrs.len(),
                max_iterations,
            )
        };
        (ret, output)
    }

    fn decode_f32(&self, output_len: usize, llrs: &[f32], max_iterations: u32) -> (i32, Vec<u8>) {
        let mut output = vec![0xa5u8; output_len];
        let ret = unsafe {
            ldpc_toolbox_decoder_decode_f32(
                self.0,
                output.as_mut_ptr(),
                output.len(),
                llrs.as_ptr(),
                llrs.len(),
                max_iterations,
            )
        };
        (ret, output)
    }
}

impl Drop for CDecoder {
    fn drop(&mut self) {
        unsafe { ldpc_toolbox_decoder_dtor(self.0) };
    }
}

// Reference: fresh Rust decoder on the depunctured LLRs
fn reference(
    alist: &str,
    implementation: &str,
    pattern: &Option<Vec<bool>>,
    llrs: &[f64],
    output_len: usize,
    max_iterations: u32,
) -> (i32, Vec<u8>) {
    let h = SparseMatrix::from_alist(alist).unwrap();
    let implementation: DecoderImplementation = implementation.parse().unwrap();
    let mut decoder = implementation.build_decoder(h);
    let llrs = match pattern {
        Some(p) => Puncturer::new(p).depuncture(llrs).unwrap(),
        None => llrs.to_vec(),
    };
    match decoder.decode(&llrs, max_iterations as usize) {
        Ok(out) => (
            i32::try_from(out.iterations).unwrap(),
            out.codeword[..output_len].to_vec(),
        ),
        Err(out) => (-1, out.codeword[..output_len].to_vec()),
    }
}

// LLR buffers (for the transmitted, i.e. punctured, codeword) of several kinds
fn llr_buffers(alist: &str, pattern: &Option<Vec<bool>>, rng: &mut Rng) -> Vec<Vec<f64>> {
    let h = SparseMatrix::from_alist(alist).unwrap();
    let n = h.num_cols();
    let k = n - h.num_rows();
    let encoder = Encoder::from_h(&h).unwrap();
    let tx_len = match pattern {
        Some(p) => n / p.len() * p.iter().filter(|&&b| b).count(),
        None => n,
    };
    let mut buffers = Vec::new();
    for &(amplitude, noise) in &[
        (4.0, 0.0),
        (2.0, 1.5),
        (1.0, 2.0),
        (1.0, 2.0),
        (0.5, 3.0),
        (0.0, 1.0),
        (1e-3, 1e-3),
        (60.0, 90.0),
    ] {
        let message = Array1::from_iter((0..k).map(|_| {
            if rng.below(2) == 1 {
                GF2::one()
            } else {
                GF2::zero()
            }
        }));
        let codeword = encoder.encode(&message);
        let codeword = match pattern {
            Some(p) => Puncturer::new(p).puncture(&codeword).unwrap(),
            None => codeword,
        };
        assert_eq!(codeword.len(), tx_len);
        buffers.push(
            codeword
                .iter()
                .map(|b| {
                    let s = if b.is_one() { -1.0 } else { 1.0 };
                    amplitude * s + noise * rng.unit()
                })
                .collect::<Vec<f64>>(),
        );
    }
    // special values
    buffers.push(vec![0.0; tx_len]);
    buffers.push(vec![-0.0; tx_len]);
    buffers.push(
        (0..tx_len)
            .map(|j| if j % 3 == 0 { -0.0 } else { 1e-300 })
            .collect(),
    );
    buffers.push(
        (0..tx_len)
            .map(|j| if j % 2 == 0 { 1e30 } else { -1e30 })
            .collect(),
    );
    buffers.push((0..tx_len).map(|j| j as f64 - 3.5).collect());
    buffers
}

const IMPLEMENTATIONS: &[&str] = &[
    "Phif64",
    "Tanhf32",
    "Minstarapproxf64",
    "Minstarapproxi8",
    "Aminstarf32",
    "Aminstari8JonesPartialHardLimitDeg1Clip",
    "HLPhif64",
    "HLMinstarapproxi8",
    "HLAminstarf32",
];

fn run_code(alist: &str, patterns: &[&str], seed: u64) {
    let h = SparseMatrix::from_alist(alist).unwrap();
    let n = h.num_cols();
    let k = n - h.num_rows();
    let mut rng = Rng(seed);
    let mut num_success = 0;
    let mut num_failure = 0;
    for &puncturing in patterns {
        let pattern = parse_pattern(puncturing);
        let buffers = llr_buffers(alist, &pattern, &mut rng);
        for &implementation in IMPLEMENTATIONS {
            // single handle for the whole sequence of calls
            let c_decoder = CDecoder::new(alist, implementation, puncturing);
            for round in 0..2 {
                for (j, llrs) in buffers.iter().enumerate() {
                    let output_len = [k, n, 0, 1, n - 1][(j + round) % 5];
                    let max_iterations = [25, 0, 1, 3, 100][(j + 2 * round) % 5];
                    // f64 call
                    let expected = reference(
                        alist,
                        implementation,
                        &pattern,
                        llrs,
                        output_len,
                        max_iterations,
                    );
                    let got = c_decoder.decode_f64(output_len, llrs, max_iterations);
                    assert_eq!(
                        got, expected,
                        "f64 {implementation} puncturing={puncturing:?} buffer={j}"
                    );
                    if expected.0 >= 0 {
                        num_success += 1;
                    } else {
                        num_failure += 1;
                    }
                    // f32 call on the same handle, with its own parameters
                    let output_len = [n, k, 2, 0][(j + round) % 4];
                    let max_iterations = [2, 40, 0, 7][(j + round) % 4];
                    let llrs_f32 = llrs.iter().map(|&x| x as f32).collect::<Vec<f32>>();
                    let widened = llrs_f32.iter().map(|&x| f64::from(x)).collect::<Vec<f64>>();
                    let expected = reference(
                        alist,
                        implementation,
                        &pattern,
                        &widened,
                        output_len,
                        max_iterations,
                    );
                    let got = c_decoder.decode_f32(output_len, &llrs_f32, max_iterations);
                    assert_eq!(
                        got, expected,
                        "f32 {implementation} puncturing={puncturing:?} buffer={j}"
                    );
                    // the f32 entry point agrees with the f64 entry point on the
                    // widened values
                    let got = c_decoder.decode_f64(output_len, &widened, max_iterations);
                    assert_eq!(got, expected);
                }
            }
            // same call repeated: results do not depend on the history
            let first = c_decoder.decode_f64(n, &buffers[2], 10);
            let _ = c_decoder.decode_f64(n, &buffers[0], 10);
            let _ = c_decoder.decode_f32(k, &vec![0.0f32; buffers[0].len()], 3);
            let again = c_decoder.decode_f64(n, &buffers[2], 10);
            assert_eq!(first, again);
        }
    }
    // make sure that both verdicts have been exercised
    assert!(num_success > 0);
    assert!(num_failure > 0);
}

#[test]
fn c_decoder_matches_rust_decoder_dense_code() {
    run_code(
        ALIST_12_4,
        &[
            "",
            "1",
            "1,1",
            "1,1,0",
            "1,0,1",
            "0,1,1,1",
            "1,1,1,1,1,0",
            "0,1,0,1,1,1,1,1,0,1,1,1",
            "1,1,1,1,1,1,1,1,1,1,1,1",
        ],
        0xdead_beef_0000_0001,
    );
}

#[test]
fn c_decoder_matches_rust_decoder_staircase_code() {
    run_code(
        &staircase_alist(),
        &["", "1", "1,1,1,0", "0,1,1", "1,1,1,1,1,1,1,0", "1,0,1,1,1,1,1,1,1,1,1,1"],
        0xdead_beef_0000_0002,
    );
}

#[test]
fn punctured_positions_are_erasures() {
    // With strong LLRs for a valid codeword in the transmitted part, the
    // punctured part is recovered, and a decode with puncturing agrees with a
    // decode without puncturing in which the punctured LLRs are given as zeros.
    let alist = staircase_alist();
    let h = SparseMatrix::from_alist(&alist).unwrap();
    let n = h.num_cols();
    let plain = CDecoder::new(&alist, "Phif64", "");
    let mut rng = Rng(77);
    for puncturing in ["1,1,1,0", "0,1,1,1", "1,1,0", "1,0,1,1,1,1"] {
        let pattern = parse_pattern(puncturing).unwrap();
        let punctured = CDecoder::new(&alist, "Phif64", puncturing);
        let block = n / pattern.len();
        let tx_len = block * pattern.iter().filter(|&&b| b).count();
        for _ in 0..20 {
            let llrs = (0..tx_len).map(|_| 3.0 * rng.unit()).collect::<Vec<f64>>();
            let mut full = vec![0.0; n];
            let mut src = 0;
            for (j, &keep) in pattern.iter().enumerate() {
                if keep {
                    full[j * block..(j + 1) * block].copy_from_slice(&llrs[src..src + block]);
                    src += block;
                }
            }
            assert_eq!(
                punctured.decode_f64(n, &llrs, 20),
                plain.decode_f64(n, &full, 20)
            );
        }
    }
}
