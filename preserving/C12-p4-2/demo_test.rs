// Demonstration for property C12 (the BER chain hands the decoder correctly
// ordered, correctly scaled LLRs), focused on the stages between the encoder
// and the decoder: puncturing, interleaving, modulation, demodulation and the
// dispatch on the modulation done by the BER test factory.
//
// Part 1 compares each stage exhaustively against small reference models
// written here from the documentation (corner cases and panics included).
//
// Part 2 runs the complete BER chain with a recording decoder at a very high
// Eb/N0 and compares every LLR handed to the decoder with the LLR predicted
// by the reference models for the codeword whose signs it carries.

use ldpc_toolbox::{
    decoder::{DecoderOutput, LdpcDecoder, factory::DecoderFactory},
    encoder::Encoder,
    gf2::GF2,
    simulation::{
        factory::{BerTestBuilder, Modulation},
        interleaving::Interleaver,
        modulation::{
            BpskDemodulator, BpskModulator, Demodulator, Modulator, Psk8Demodulator, Psk8Modulator,
        },
        puncturing::{Error as PuncturingError, Puncturer},
    },
    sparse::SparseMatrix,
};
use ndarray::{Array1, s};
use num_complex::Complex;
use num_traits::{One, Zero};
use std::{
    fmt::Display,
    panic::{AssertUnwindSafe, catch_unwind},
    sync::{Arc, Mutex, mpsc},
    time::Duration,
};

// ---------------------------------------------------------------- utilities

struct Lcg(u64);

impl Lcg {
    fn next(&mut self) -> u64 {
        self.0 = self
            .0
            .wrapping_mul(6364136223846793005)
            .wrapping_add(1442695040888963407);
        self.0 >> 33
    }

    fn below(&mut self, n: usize) -> usize {
        (self.next() % n as u64) as usize
    }

    fn bit(&mut self) -> bool {
        self.next() & 1 == 1
    }

    fn unit(&mut self) -> f64 {
        self.next() as f64 / (1u64 << 31) as f64
    }
}

fn with_timeout<F: FnOnce() + Send + 'static>(seconds: u64, f: F) {
    let (tx, rx) = mpsc::channel();
    std::thread::spawn(move || {
        f();
        let _ = tx.send(());
    });
    match rx.recv_timeout(Duration::from_secs(seconds)) {
        Ok(()) => (),
        Err(mpsc::RecvTimeoutError::Timeout) => panic!("timed out"),
        Err(mpsc::RecvTimeoutError::Disconnected) => panic!("the test body panicked"),
    }
}

fn gf2(bit: bool) -> GF2 {
    if bit { GF2::one() } else { GF2::zero() }
}

fn panics<R>(f: impl FnOnce() -> R) -> bool {
    catch_unwind(AssertUnwindSafe(f)).is_err()
}

// --------------------------------------------------------- reference models

// The pattern is defined by blocks: element j of the codeword is transmitted
// if pattern[j / block] is true, where block = len / pattern.len().
fn ref_puncture<T: Clone>(pattern: &[bool], codeword: &[T]) -> Vec<T> {
    let block = codeword.len() / pattern.len();
    codeword
        .iter()
        .enumerate()
        .filter(|(j, _)| pattern[j / block])
        .map(|(_, x)| x.clone())
        .collect()
}

fn ref_depuncture<T: Clone + Default>(pattern: &[bool], llrs: &[T]) -> Vec<T> {
    let trues = pattern.iter().filter(|&&b| b).count();
    let block = llrs.len() / trues;
    let mut input = llrs.iter();
    (0..block * pattern.len())
        .map(|j| {
            if pattern[j / block] {
                input.next().unwrap().clone()
            } else {
                T::default()
            }
        })
        .collect()
}

// DVB-S2 interleaver: the codeword is written by columns in a matrix with
// `columns` columns and read by rows (each row backwards if `backwards`).
fn ref_interleave<T: Clone>(columns: usize, backwards: bool, x: &[T]) -> Vec<T> {
    let rows = x.len() / columns;
    let mut out = Vec::new();
    for r in 0..rows {
        for c in 0..columns {
            let c = if backwards { columns - 1 - c } else { c };
            out.push(x[c * rows + r].clone());
        }
    }
    out
}

fn ref_deinterleave<T: Clone>(columns: usize, backwards: bool, y: &[T]) -> Vec<T> {
    let rows = y.len() / columns;
    let mut out = y.to_vec();
    let mut j = 0;
    for r in 0..rows {
        for c in 0..columns {
            let c = if backwards { columns - 1 - c } else { c };
            out[c * rows + r] = y[j].clone();
            j += 1;
        }
    }
    out
}

// DVB-S2 8PSK constellation: (b0, b1, b2) -> point
fn ref_psk8_point(b0: bool, b1: bool, b2: bool) -> Complex<f64> {
    let a = 0.5f64.sqrt();
    match (b0, b1, b2) {
        (false, false, false) => Complex::new(a, a),
        (false, false, true) => Complex::new(1.0, 0.0),
        (true, false, true) => Complex::new(a, -a),
        (true, true, true) => Complex::new(0.0, -1.0),
        (false, true, true) => Complex::new(-a, -a),
        (false, true, false) => Complex::new(-1.0, 0.0),
        (true, true, false) => Complex::new(-a, a),
        (true, false, false) => Complex::new(0.0, 1.0),
    }
}

// Exact LLRs log(P(b = 0 | y) / P(b = 1 | y)) of the three bits of a symbol.
fn ref_psk8_llrs(y: Complex<f64>, sigma: f64) -> [f64; 3] {
    let mut out = [0.0; 3];
    for (bit, llr) in out.iter_mut().enumerate() {
        let mut exponents = [Vec::new(), Vec::new()];
        for label in 0..8 {
            let b = [label & 4 != 0, label & 2 != 0, label & 1 != 0];
            let p = ref_psk8_point(b[0], b[1], b[2]);
            let d2 = (y.re - p.re).powi(2) + (y.im - p.im).powi(2);
            exponents[usize::from(b[bit])].push(-d2 / (2.0 * sigma * sigma));
        }
        let log_sum_exp = |v: &[f64]| {
            let m = v.iter().cloned().fold(f64::NEG_INFINITY, f64::max);
            m + v.iter().map(|&e| (e - m).exp()).sum::<f64>().ln()
        };
        *llr = log_sum_exp(&exponents[0]) - log_sum_exp(&exponents[1]);
    }
    out
}

// ------------------------------------------------------------ stage checks

#[test]
fn puncturer_against_reference() {
    let mut rng = Lcg(1);
    for len in 1..=7usize {
        for mask in 0..(1u32 << len) {
            let pattern = (0..len).map(|j| mask >> j & 1 == 1).collect::<Vec<_>>();
            let trues = pattern.iter().filter(|&&b| b).count();
            let puncturer = Puncturer::new(&pattern);
            let clone = puncturer.clone();
            assert!(!format!("{puncturer:?}").is_empty());
            if trues > 0 {
                assert_eq!(puncturer.rate(), len as f64 / trues as f64);
                assert!(puncturer.rate() >= 1.0);
            } else {
                assert!(puncturer.rate().is_infinite());
            }
            for block in 0..5usize {
                let codeword = (0..len * block)
                    .map(|_| rng.below(1000) as i32)
                    .collect::<Vec<_>>();
                let expected = ref_puncture(&pattern, &codeword);
                let punctured = puncturer.puncture(&Array1::from_vec(codeword.clone())).unwrap();
                assert_eq!(punctured.to_vec(), expected);
                assert_eq!(punctured.len(), block * trues);
                assert!(punctured.as_slice().is_some());
                assert_eq!(clone.puncture(&Array1::from_vec(codeword.clone())).unwrap(), punctured);
                // non-contiguous (strided and reversed) views
                let spread = Array1::from_iter(codeword.iter().flat_map(|&x| [x, -1]));
                let view = spread.slice(s![..;2]);
                assert_eq!(puncturer.puncture(&view).unwrap().to_vec(), expected);
                let reversed = Array1::from_iter(codeword.iter().rev().cloned());
                let view = reversed.slice(s![..;-1]);
                assert_eq!(puncturer.puncture(&view).unwrap().to_vec(), expected);
                // GF2 elements
                let bits = Array1::from_iter(codeword.iter().map(|&x| gf2(x % 2 == 1)));
                assert_eq!(
                    puncturer.puncture(&bits).unwrap().to_vec(),
                    ref_puncture(&pattern, &bits.to_vec())
                );

                if trues > 0 {
                    let llrs = (0..trues * block)
                        .map(|_| rng.unit() - 0.5)
                        .collect::<Vec<_>>();
                    let depunctured = puncturer.depuncture(&llrs).unwrap();
                    let expected = ref_depuncture(&pattern, &llrs);
                    assert_eq!(depunctured.len(), len * block);
                    assert_eq!(depunctured, expected);
                    for (j, x) in depunctured.iter().enumerate() {
                        if !pattern[j / block] {
                            // exactly (positive) zero
                            assert_eq!(x.to_bits(), 0.0f64.to_bits());
                        }
                    }
                    // puncturing the depunctured LLRs gives them back
                    assert_eq!(
                        puncturer.puncture(&Array1::from_vec(depunctured)).unwrap().to_vec(),
                        llrs
                    );
                    let ints = (0..trues * block).map(|j| j as u8 + 1).collect::<Vec<_>>();
                    assert_eq!(
                        puncturer.depuncture(&ints).unwrap(),
                        ref_depuncture(&pattern, &ints)
                    );
                }
            }
            // lengths that are not divisible
            for cw_len in 1..4 * len {
                if cw_len % len != 0 {
                    let r = puncturer.puncture(&Array1::<u8>::zeros(cw_len));
                    assert_eq!(r.unwrap_err(), PuncturingError::CodewordSizeNotDivisible);
                }
            }
            if trues > 0 {
                for llr_len in 1..4 * trues {
                    if llr_len % trues != 0 {
                        let r = puncturer.depuncture(&vec![0.0f64; llr_len]);
                        assert_eq!(r.unwrap_err(), PuncturingError::CodewordSizeNotDivisible);
                    }
                }
            } else {
                // nothing is transmitted: the block size cannot be computed
                assert!(panics(|| puncturer.depuncture(&[0.0f64; 0])));
                assert!(panics(|| puncturer.depuncture(&[0.0f64; 3])));
            }
        }
    }
    assert!(!PuncturingError::CodewordSizeNotDivisible.to_string().is_empty());
    assert!(panics(|| Puncturer::new(&[])));
    // a longer pattern
    let pattern = (0..97).map(|_| rng.below(3) > 0).collect::<Vec<_>>();
    let puncturer = Puncturer::new(&pattern);
    let codeword = (0..97 * 11).collect::<Vec<i64>>();
    let punctured = puncturer.puncture(&Array1::from_vec(codeword.clone())).unwrap();
    assert_eq!(punctured.to_vec(), ref_puncture(&pattern, &codeword));
    let back = puncturer.depuncture(punctured.as_slice().unwrap()).unwrap();
    assert_eq!(back, ref_depuncture(&pattern, &punctured.to_vec()));
}

#[test]
fn interleaver_against_reference() {
    let mut rng = Lcg(2);
    for columns in 1..=9usize {
        for backwards in [false, true] {
            let interleaver = Interleaver::new(columns, backwards);
            let clone = interleaver.clone();
            assert!(!format!("{interleaver:?}").is_empty());
            for rows in 0..=8usize {
                let len = rows * columns;
                let x = (0..len).map(|j| j as i32 + 1).collect::<Vec<_>>();
                let expected = ref_interleave(columns, backwards, &x);
                let y = interleaver.interleave(&Array1::from_vec(x.clone()));
                assert_eq!(y.to_vec(), expected);
                assert!(y.as_slice().is_some());
                assert_eq!(clone.interleave(&Array1::from_vec(x.clone())), y);
                // a (contiguous) view of a part of a longer array
                let longer = Array1::from_iter([7, 7].into_iter().chain(x.iter().cloned()).chain([9]));
                assert_eq!(
                    interleaver.interleave(&longer.slice(s![2..2 + len])).to_vec(),
                    expected
                );
                // GF2
                let bits = (0..len).map(|_| gf2(rng.bit())).collect::<Vec<_>>();
                assert_eq!(
                    interleaver.interleave(&Array1::from_vec(bits.clone())).to_vec(),
                    ref_interleave(columns, backwards, &bits)
                );
                // deinterleaver
                let z = (0..len).map(|_| rng.unit() - 0.5).collect::<Vec<_>>();
                let d = interleaver.deinterleave(&z);
                assert_eq!(d, ref_deinterleave(columns, backwards, &z));
                assert_eq!(interleaver.deinterleave(y.as_slice().unwrap()), x);
                assert_eq!(interleaver.interleave(&Array1::from_vec(d)).to_vec(), z);
                let bytes = (0..len).map(|j| (j % 251) as u8).collect::<Vec<_>>();
                assert_eq!(
                    interleaver.deinterleave(&bytes),
                    ref_deinterleave(columns, backwards, &bytes)
                );
            }
            // sizes that are not divisible
            if columns > 1 {
                for len in [1, columns - 1, columns + 1, 3 * columns + 1] {
                    if len % columns != 0 {
                        assert!(panics(|| interleaver.interleave(&Array1::<i32>::zeros(len))));
                        assert!(panics(|| interleaver.deinterleave(&vec![0.0f64; len])));
                    }
                }
            }
        }
    }
    // larger sizes (DVB-S2 short FECFRAME with 8PSK, for instance)
    for (columns, rows) in [(3usize, 5400usize), (64, 65), (5, 1000), (127, 3)] {
        for backwards in [false, true] {
            let interleaver = Interleaver::new(columns, backwards);
            let x = (0..columns * rows).map(|j| j as f64).collect::<Vec<_>>();
            let y = interleaver.interleave(&Array1::from_vec(x.clone()));
            assert_eq!(y.to_vec(), ref_interleave(columns, backwards, &x));
            assert_eq!(interleaver.deinterleave(y.as_slice().unwrap()), x);
            assert_eq!(
                interleaver.deinterleave(&x),
                ref_deinterleave(columns, backwards, &x)
            );
        }
    }
    // zero columns cannot work
    for backwards in [false, true] {
        let interleaver = Interleaver::new(0, backwards);
        assert!(panics(|| interleaver.interleave(&Array1::<i32>::zeros(0))));
        assert!(panics(|| interleaver.interleave(&Array1::<i32>::zeros(4))));
        assert!(panics(|| interleaver.deinterleave(&[0.0f64; 0])));
        assert!(panics(|| interleaver.deinterleave(&[0.0f64; 4])));
    }
}

#[test]
fn modulators_and_demodulators_against_reference() {
    let mut rng = Lcg(3);
    // BPSK
    let bpsk = BpskModulator::new();
    assert!(bpsk.modulate(&Array1::<GF2>::zeros(0)).is_empty());
    for len in [1usize, 2, 3, 64, 1000] {
        let bits = (0..len).map(|_| rng.bit()).collect::<Vec<_>>();
        let symbols = bpsk.modulate(&Array1::from_iter(bits.iter().map(|&b| gf2(b))));
        assert_eq!(symbols.len(), len);
        for (&b, &x) in bits.iter().zip(&symbols) {
            assert_eq!(x.to_bits(), (if b { 1.0f64 } else { -1.0 }).to_bits());
        }
        let spread = Array1::from_iter(bits.iter().flat_map(|&b| [gf2(b), gf2(!b)]));
        assert_eq!(bpsk.modulate(&spread.slice(s![..;2])), symbols);
        assert_eq!(BpskModulator::default().clone().modulate(&spread.slice(s![..;2])), symbols);
        for sigma in [0.05, 0.7, 1.0, 3.0] {
            let demodulator = BpskDemodulator::from_noise_sigma(sigma);
            let y = symbols
                .iter()
                .map(|&x| x + sigma * (rng.unit() - 0.5))
                .collect::<Vec<_>>();
            let llrs = demodulator.demodulate(&y);
            assert_eq!(llrs.len(), len);
            for (&l, &v) in llrs.iter().zip(&y) {
                // log(P(0|y)/P(1|y)) = -2y/sigma^2
                assert_eq!(l.to_bits(), ((-2.0 / (sigma * sigma)) * v).to_bits());
            }
            assert_eq!(BpskDemodulator::new(sigma).demodulate(&y), llrs);
            assert!(demodulator.demodulate(&[]).is_empty());
        }
    }
    // 8PSK
    let psk8 = Psk8Modulator::new();
    assert!(psk8.modulate(&Array1::<GF2>::zeros(0)).is_empty());
    for len in [1usize, 2, 4, 5, 100] {
        assert!(panics(|| psk8.modulate(&Array1::<GF2>::zeros(len))));
    }
    for label in 0..8u8 {
        let b = [label & 4 != 0, label & 2 != 0, label & 1 != 0];
        let x = psk8.modulate(&Array1::from_iter(b.iter().map(|&v| gf2(v))));
        let p = ref_psk8_point(b[0], b[1], b[2]);
        assert_eq!(x.len(), 1);
        assert_eq!((x[0].re.to_bits(), x[0].im.to_bits()), (p.re.to_bits(), p.im.to_bits()));
    }
    for num_symbols in [1usize, 2, 7, 64, 333] {
        let bits = (0..3 * num_symbols).map(|_| rng.bit()).collect::<Vec<_>>();
        let symbols = psk8.modulate(&Array1::from_iter(bits.iter().map(|&b| gf2(b))));
        assert_eq!(symbols.len(), num_symbols);
        for (j, x) in symbols.iter().enumerate() {
            assert_eq!(*x, ref_psk8_point(bits[3 * j], bits[3 * j + 1], bits[3 * j + 2]));
        }
        let spread = Array1::from_iter(bits.iter().flat_map(|&b| [gf2(b), gf2(!b)]));
        assert_eq!(psk8.modulate(&spread.slice(s![..;2])), symbols);
        for sigma in [0.1, 0.5, 1.0, 2.5] {
            let demodulator = Psk8Demodulator::from_noise_sigma(sigma);
            let y = symbols
                .iter()
                .map(|&x| {
                    x + Complex::new(sigma * (rng.unit() - 0.5), sigma * (rng.unit() - 0.5)) * 3.0
                })
                .collect::<Vec<_>>();
            let llrs = demodulator.demodulate(&y);
            assert_eq!(llrs.len(), 3 * num_symbols);
            for (j, &v) in y.iter().enumerate() {
                let expected = ref_psk8_llrs(v, sigma);
                for t in 0..3 {
                    let l = llrs[3 * j + t];
                    assert!(
                        (l - expected[t]).abs() <= 1e-9 * (1.0 + expected[t].abs()),
                        "8PSK LLR {l} differs from {}",
                        expected[t]
                    );
                }
            }
            assert_eq!(Psk8Demodulator::new(sigma).demodulate(&y), llrs);
            assert!(demodulator.demodulate(&[]).is_empty());
        }
    }
}

#[test]
fn modulation_names() {
    assert_eq!("BPSK".parse::<Modulation>(), Ok(Modulation::Bpsk));
    assert_eq!("8PSK".parse::<Modulation>(), Ok(Modulation::Psk8));
    for bad in ["", "bpsk", "8psk", "PSK8", "BPSK ", "QPSK", "8PSK8PSK"] {
        let e = bad.parse::<Modulation>().unwrap_err();
        assert!(e.contains("invalid modulation"));
    }
    assert_eq!(Modulation::Bpsk.to_string(), "BPSK");
    assert_eq!(Modulation::Psk8.to_string(), "8PSK");
    // width and alignment are not applied to the names
    assert_eq!(
        format!("{:>6}|{:<6}|", Modulation::Bpsk, Modulation::Psk8),
        "BPSK|8PSK|"
    );
    for m in [Modulation::Bpsk, Modulation::Psk8] {
        assert_eq!(m.to_string().parse::<Modulation>(), Ok(m));
    }
}

// ------------------------------------------------------- complete BER chain

#[derive(Debug, Clone)]
struct Recorder {
    frames: Arc<Mutex<Vec<Vec<f64>>>>,
    limit: usize,
}

impl Display for Recorder {
    fn fmt(&self, f: &mut std::fmt::Formatter<'_>) -> std::fmt::Result {
        write!(f, "Recorder")
    }
}

#[derive(Debug)]
struct RecordingDecoder {
    frames: Arc<Mutex<Vec<Vec<f64>>>>,
    limit: usize,
}

impl DecoderFactory for Recorder {
    fn build_decoder(&self, _h: SparseMatrix) -> Box<dyn LdpcDecoder> {
        Box::new(RecordingDecoder {
            frames: Arc::clone(&self.frames),
            limit: self.limit,
        })
    }
}

impl LdpcDecoder for RecordingDecoder {
    fn decode(&mut self, llrs: &[f64], _max: usize) -> Result<DecoderOutput, DecoderOutput> {
        {
            let mut frames = self.frames.lock().unwrap();
            if frames.len() < self.limit {
                frames.push(llrs.to_vec());
            }
        }
        // Always answer with the complement of the hard decision, so that
        // every frame is a frame error and the test ends after a known number
        // of frames.
        Err(DecoderOutput {
            codeword: llrs.iter().map(|&x| u8::from(x >= 0.0)).collect(),
            iterations: 1,
        })
    }
}

#[derive(Clone)]
struct Config {
    h: SparseMatrix,
    modulation: Modulation,
    pattern: Option<Vec<bool>>,
    interleaving: Option<isize>,
}

struct ChainOutput {
    frames: Vec<Vec<f64>>,
    n: usize,
    n_cw: usize,
    k: usize,
    rate: f64,
}

fn run_chain(config: &Config, ebn0_db: f32, num_frames: u64) -> ChainOutput {
    let recorder = Recorder {
        frames: Arc::new(Mutex::new(Vec::new())),
        limit: num_frames as usize,
    };
    let test = BerTestBuilder {
        h: config.h.clone(),
        decoder_implementation: recorder.clone(),
        modulation: config.modulation,
        puncturing_pattern: config.pattern.as_deref(),
        interleaving_columns: config.interleaving,
        max_frame_errors: num_frames,
        max_iterations: 1,
        ebn0s_db: &[ebn0_db],
        reporter: None,
        bch_max_errors: 0,
    }
    .build()
    .unwrap();
    let (n, n_cw, k, rate) = (test.n(), test.n_cw(), test.k(), test.rate());
    let stats = test.run().unwrap();
    assert_eq!(stats.len(), 1);
    assert_eq!(stats[0].ebn0_db, ebn0_db);
    assert!(stats[0].num_frames >= num_frames);
    assert_eq!(stats[0].ldpc.frame_errors, stats[0].num_frames);
    let frames = std::mem::take(&mut *recorder.frames.lock().unwrap());
    assert_eq!(frames.len(), num_frames as usize);
    ChainOutput {
        frames,
        n,
        n_cw,
        k,
        rate,
    }
}

fn syndrome_is_zero(h: &SparseMatrix, codeword: &[bool]) -> bool {
    (0..h.num_rows()).all(|r| h.iter_row(r).filter(|&&c| codeword[c]).count() % 2 == 0)
}

// Predicts with the reference models the noiseless LLRs that the decoder
// should get for a codeword.
fn predicted_llrs(config: &Config, codeword: &[bool], sigma: f64) -> Vec<f64> {
    let mut bits = codeword.to_vec();
    if let Some(p) = &config.pattern {
        bits = ref_puncture(p, &bits);
    }
    if let Some(c) = config.interleaving {
        bits = ref_interleave(c.unsigned_abs(), c < 0, &bits);
    }
    let mut llrs = match config.modulation {
        Modulation::Bpsk => bits
            .iter()
            .map(|&b| -2.0 * (if b { 1.0 } else { -1.0 }) / (sigma * sigma))
            .collect::<Vec<_>>(),
        Modulation::Psk8 => bits
            .chunks(3)
            .flat_map(|b| ref_psk8_llrs(ref_psk8_point(b[0], b[1], b[2]), sigma))
            .collect::<Vec<_>>(),
    };
    if let Some(c) = config.interleaving {
        llrs = ref_deinterleave(c.unsigned_abs(), c < 0, &llrs);
    }
    if let Some(p) = &config.pattern {
        llrs = ref_depuncture(p, &llrs);
    }
    llrs
}

fn check_chain(config: &Config) {
    let ebn0_db = 60.0f32;
    let out = run_chain(config, ebn0_db, 16);
    let h = &config.h;
    let n_cw = h.num_cols();
    let k = n_cw - h.num_rows();
    let kept = |j: usize| match &config.pattern {
        Some(p) => p[j / (n_cw / p.len())],
        None => true,
    };
    let n = (0..n_cw).filter(|&j| kept(j)).count();
    assert_eq!(out.n_cw, n_cw);
    assert_eq!(out.k, k);
    assert_eq!(out.n, n);
    assert!((out.rate - k as f64 / n as f64).abs() < 1e-12);
    let bits_per_symbol = match config.modulation {
        Modulation::Bpsk => 1.0,
        Modulation::Psk8 => 3.0,
    };
    let esn0 = (k as f64 / n as f64) * bits_per_symbol * 10.0f64.powf(0.1 * f64::from(ebn0_db));
    let sigma = (0.5 / esn0).sqrt();
    let encoder = Encoder::from_h(h).unwrap();
    let unknown_info = (0..k).filter(|&j| !kept(j)).collect::<Vec<_>>();
    assert!(unknown_info.len() <= 10);
    for llrs in &out.frames {
        assert_eq!(llrs.len(), n_cw);
        for (j, &llr) in llrs.iter().enumerate() {
            if kept(j) {
                assert!(llr.is_finite() && llr != 0.0);
            } else {
                assert!(llr == 0.0, "punctured position with non-zero LLR");
            }
        }
        // The signs must be those of a systematic codeword in codeword bit
        // order. A negative LLR is a bit equal to one.
        let hard = llrs.iter().map(|&x| x < 0.0).collect::<Vec<_>>();
        let mut found = None;
        for guess in 0..(1u32 << unknown_info.len()) {
            let mut message = hard[..k].to_vec();
            for (t, &j) in unknown_info.iter().enumerate() {
                message[j] = guess >> t & 1 == 1;
            }
            let codeword = encoder
                .encode(&Array1::from_iter(message.iter().map(|&b| gf2(b))))
                .iter()
                .map(|x| x.is_one())
                .collect::<Vec<_>>();
            assert!(syndrome_is_zero(h, &codeword));
            if (0..n_cw).all(|j| !kept(j) || codeword[j] == hard[j]) {
                found = Some(codeword);
                break;
            }
        }
        let codeword = found.expect("the signs of the LLRs are not those of a codeword");
        // Noise aside, the values must be the ones predicted by the reference
        // chain. The noise moves each LLR by a few times 1/sigma, while the
        // LLRs are of the order of 1/sigma^2.
        let predicted = predicted_llrs(config, &codeword, sigma);
        assert_eq!(predicted.len(), n_cw);
        for j in 0..n_cw {
            let tolerance = 25.0 / sigma;
            assert!(
                (llrs[j] - predicted[j]).abs() <= tolerance,
                "LLR {} too far from the prediction {} (position {j})",
                llrs[j],
                predicted[j]
            );
            if kept(j) {
                assert!(predicted[j].abs() > 10.0 * tolerance);
            }
        }
    }
}

fn staircase_h(rng: &mut Lcg, checks: usize, k: usize, row_weight: usize) -> SparseMatrix {
    let mut h = SparseMatrix::new(checks, k + checks);
    for j in 0..checks {
        h.insert(j, k + j);
        if j > 0 {
            h.insert(j, k + j - 1);
        }
        for _ in 0..row_weight {
            h.insert(j, rng.below(k));
        }
    }
    h
}

fn dense_h(rng: &mut Lcg, checks: usize, k: usize, density_percent: u64) -> SparseMatrix {
    // unit lower triangular parity part with permuted rows and columns
    let mut row_perm = (0..checks).collect::<Vec<_>>();
    let mut col_perm = (0..checks).collect::<Vec<_>>();
    for i in (1..checks).rev() {
        row_perm.swap(i, rng.below(i + 1));
        col_perm.swap(i, rng.below(i + 1));
    }
    let mut h = SparseMatrix::new(checks, k + checks);
    for r in 0..checks {
        for c in 0..=r {
            if c == r || rng.next() % 100 < density_percent {
                h.insert(row_perm[r], k + col_perm[c]);
            }
        }
        for c in 0..k {
            if rng.next() % 100 < density_percent {
                h.insert(row_perm[r], c);
            }
        }
    }
    h
}

#[test]
fn ber_chain_frames() {
    with_timeout(1200, || {
        let mut rng = Lcg(2025);
        let codes = [
            staircase_h(&mut rng, 12, 12, 3),
            dense_h(&mut rng, 20, 28, 20),
            staircase_h(&mut rng, 70, 74, 4),
        ];
        for h in &codes {
            let n_cw = h.num_cols();
            let mut patterns: Vec<Option<Vec<bool>>> = vec![
                None,
                Some(vec![true]),
                Some(vec![true, true, true, false]),
                Some(vec![false, true, true]),
            ];
            // one block of information bits and some blocks of parity bits
            let mut p = vec![true; 24];
            for j in [1, 14, 15, 20, 23] {
                p[j] = false;
            }
            patterns.push(Some(p));
            for pattern in &patterns {
                let n = match pattern {
                    Some(p) => n_cw / p.len() * p.iter().filter(|&&b| b).count(),
                    None => n_cw,
                };
                let unknown_info = match pattern {
                    Some(p) => (0..n_cw - h.num_rows())
                        .filter(|j| !p[j / (n_cw / p.len())])
                        .count(),
                    None => 0,
                };
                if unknown_info > 10 {
                    continue;
                }
                for modulation in [Modulation::Bpsk, Modulation::Psk8] {
                    if modulation == Modulation::Psk8 && n % 3 != 0 {
                        continue;
                    }
                    for interleaving in
                        [None, Some(3isize), Some(-3), Some(1), Some(-1), Some(2), Some(-4)]
                    {
                        if let Some(c) = interleaving {
                            if n % c.unsigned_abs() != 0 {
                                continue;
                            }
                        }
                        check_chain(&Config {
                            h: h.clone(),
                            modulation,
                            pattern: pattern.clone(),
                            interleaving,
                        });
                    }
                }
            }
        }
    });
}

// Configurations that cannot work make the BER test fail (they do not hang and
// do not deliver wrong frames).
#[test]
fn ber_chain_invalid_configurations() {
    with_timeout(600, || {
        let mut rng = Lcg(9);
        let h = staircase_h(&mut rng, 12, 12, 3);
        let run = |modulation, pattern: Option<Vec<bool>>, interleaving| {
            let recorder = Recorder {
                frames: Arc::new(Mutex::new(Vec::new())),
                limit: 1000,
            };
            let test = BerTestBuilder {
                h: h.clone(),
                decoder_implementation: recorder.clone(),
                modulation,
                puncturing_pattern: pattern.as_deref(),
                interleaving_columns: interleaving,
                max_frame_errors: 5,
                max_iterations: 1,
                ebn0s_db: &[10.0],
                reporter: None,
                bch_max_errors: 0,
            }
            .build()
            .unwrap();
            let result = test.run().map_err(|e| e.to_string());
            let frames = recorder.frames.lock().unwrap().len();
            (result, frames)
        };
        // pattern length that does not divide the codeword size
        let (result, frames) = run(Modulation::Bpsk, Some(vec![true; 5]), None);
        assert!(result.is_err());
        assert_eq!(frames, 0);
        // interleaver columns that do not divide the frame size
        let (result, frames) = run(Modulation::Bpsk, None, Some(5));
        assert!(result.is_err());
        assert_eq!(frames, 0);
        // zero interleaver columns
        let (result, frames) = run(Modulation::Bpsk, None, Some(0));
        assert!(result.is_err());
        assert_eq!(frames, 0);
        // frame size that is not a multiple of 3 with 8PSK
        let (result, frames) = run(Modulation::Psk8, Some(vec![true, true, true, false, true, true]), None);
        assert!(result.is_err());
        assert_eq!(frames, 0);
        // nothing transmitted
        let (result, frames) = run(Modulation::Bpsk, Some(vec![false, false]), None);
        assert!(result.is_err());
        assert_eq!(frames, 0);
    });
}
