#!/bin/sh
# Demonstration for property C20 (the CLI emits exactly what the library
# computes), centred on the `ber` subcommand: Eb/N0 sweep generation, selection
# and contents of the two result files, terminal progress stream, error paths.
#
# usage: demo.sh <checkout>   (binary at <checkout>/target/debug/ldpc-toolbox)
# exit 0 = property holds.

BIN="$1/target/debug/ldpc-toolbox"
if [ ! -x "$BIN" ]; then
    echo "binary not found: $BIN" >&2
    exit 2
fi
BIN=$(cd "$(dirname "$BIN")" && pwd)/ldpc-toolbox

WORK=$(mktemp -d "${TMPDIR:-/tmp}/c20demo.XXXXXX") || exit 2
trap 'rm -rf "$WORK"' EXIT INT TERM
cd "$WORK" || exit 2

RUST_BACKTRACE=0
export RUST_BACKTRACE

FAILS=0
fail() {
    echo "FAIL: $*" >&2
    FAILS=$((FAILS + 1))
}

# run with a time limit if the `timeout` utility exists
if command -v timeout >/dev/null 2>&1; then
    LIMIT="timeout 300"
else
    LIMIT=""
fi

# run <name> args... : stdout -> name.out, stderr -> name.err, status -> RC
run() {
    _name=$1
    shift
    $LIMIT "$BIN" "$@" >"$_name.out" 2>"$_name.err"
    RC=$?
}

# ---------------------------------------------------------------------------
# test codes
# ---------------------------------------------------------------------------
# (24, 12) code with a staircase parity part
cat >small.alist <<'EOF'
24 12
3 8
3 3 3 3 3 3 3 3 3 3 3 3 2 2 2 2 2 2 2 2 2 2 2 1
8 8 4 6 2 4 6 2 6 6 4 3
3 6 7
1 2 11
2 6 9
1 9 10
1 2 4
2 7 12
2 4 9
1 7 10
2 4 10
1 10 11
1 4 7
1 3 9
1 2
2 3
3 4
4 5
5 6
6 7
7 8
8 9
9 10
10 11
11 12
12
2 4 5 8 10 11 12 13
2 3 5 6 7 9 13 14
1 12 14 15
5 7 9 11 15 16
16 17
1 3 17 18
1 6 8 11 18 19
19 20
3 4 7 12 20 21
4 8 9 10 21 22
2 10 22 23
6 23 24
EOF
# parity part not invertible
cat >singular.alist <<'EOF'
6 3
2 4
1 1 1 2 2 2
4 4 4
1
2
3
1 2
1 2
3 3
1 4 5 0
2 4 5 0
3 6 0 0
EOF
echo "this is not an alist" >bad.alist

HEADER1='  Eb/N0 |   Frames | Bit errs | Frame er | False de |     BER |     FER | Avg iter | Avg corr | Throughp | Elapsed'
HEADER2='--------|----------|----------|----------|----------|---------|---------|----------|----------|----------|----------'

# ---------------------------------------------------------------------------
# helpers to analyse the outputs
# ---------------------------------------------------------------------------

# expected_preamble <min> <max> <step> <frame errors> <bch> [extra lines for the
# LDPC code section, already formatted] -> file preamble.exp
# (values are given already formatted with two decimals)
expected_preamble() {
    {
        echo "BER TEST PARAMETERS"
        echo "-------------------"
        echo "Simulation:"
        echo " - Minimum Eb/N0: $1 dB"
        echo " - Maximum Eb/N0: $2 dB"
        echo " - Eb/N0 step: $3 dB"
        echo " - Number of frame errors: $4"
        echo "Channel:"
        echo " - Modulation: ${MODULATION:-BPSK}"
        echo "LDPC code:"
        echo " - alist: small.alist"
        if [ -n "$PUNCT" ]; then echo " - Puncturing pattern: $PUNCT"; fi
        if [ -n "$INTERL" ]; then echo " - Interleaving columns: $INTERL"; fi
        echo " - Information bits (k): 12"
        echo " - Codeword size (N_cw): 24"
        echo " - Frame size (N): ${FRAME:-24}"
        echo " - Code rate: ${RATE:-0.500}"
        echo "LDPC decoder:"
        echo " - Implementation: ${DECODER:-Phif64}"
        echo " - Maximum iterations: ${MAXITER:-100}"
        if [ "$5" -gt 0 ]; then
            echo "BCH decoder:"
            echo " - Maximum bit errors correctable: $5"
        fi
        echo ""
    } >preamble.exp
}

# check_result_file <file> <title or ""> <space separated expected Eb/N0 column>
# The file must be: preamble.exp, optional title block, table header, and then
# exactly one row per expected Eb/N0, in order, and nothing more.
check_result_file() {
    _f=$1
    _title=$2
    _expected=$3
    if [ ! -f "$_f" ]; then
        fail "$CASE: result file $_f was not created"
        return
    fi
    {
        cat preamble.exp
        if [ -n "$_title" ]; then
            echo ""
            echo "$_title"
            echo ""
        fi
        echo "$HEADER1"
        echo "$HEADER2"
    } >head.exp
    _n=$(wc -l <head.exp)
    head -n "$_n" "$_f" >head.got
    if ! cmp -s head.exp head.got; then
        fail "$CASE: preamble/header of $_f differ from the expected text"
        diff head.exp head.got >&2
    fi
    tail -n +"$((_n + 1))" "$_f" >"$_f.rows"
    # file must end with a newline (complete lines only)
    if [ -s "$_f" ] && [ "$(tail -c 1 "$_f" | od -An -tu1 | tr -d ' ')" != "10" ]; then
        fail "$CASE: $_f does not end with a newline"
    fi
    _col=$(awk -F' [|] ' '{ gsub(/ /, "", $1); printf "%s%s", (NR > 1 ? " " : ""), $1 }' "$_f.rows")
    if [ "$_col" != "$_expected" ]; then
        fail "$CASE: Eb/N0 column of $_f is '$_col', expected '$_expected'"
    fi
    check_rows "$_f.rows" "$_f"
}

# check_rows <rows file> <label>: format and statistics identities of each row
check_rows() {
    awk -F' [|] ' -v K=12 -v label="$CASE: $2" '
    function bad(msg) { print "FAIL: " label ": row " NR ": " msg ": " $0 > "/dev/stderr"; nbad++ }
    function isnum(s) { return s ~ /^ *-?[0-9]+(\.[0-9]+)?(e-?[0-9]+)? *$/ }
    function close_to(shown, exact, rel) {
        if (exact == 0) return shown == 0
        d = shown - exact; if (d < 0) d = -d
        return d <= rel * exact
    }
    {
        if (NF != 11) { bad("expected 11 cells"); next }
        split("7 8 8 8 8 7 7 8 8 8", w, " ")
        for (i = 1; i <= 10; i++) if (length($i) < w[i]) bad("cell " i " is too narrow")
        if ($1 !~ /^ *(-?[0-9]+\.[0-9][0-9]|NaN|-?inf)$/) bad("bad Eb/N0 cell")
        for (i = 2; i <= 5; i++) if ($i !~ /^ *[0-9]+$/) bad("cell " i " is not an integer")
        frames = $2 + 0; biterr = $3 + 0; ferr = $4 + 0; falsedec = $5 + 0
        if (frames < 1) { bad("no frames"); next }
        if (ferr > frames) bad("more frame errors than frames")
        if (biterr < ferr) bad("fewer bit errors than frame errors")
        if (biterr > K * ferr) bad("more bit errors than K * frame errors")
        if (falsedec > frames) bad("more false decodes than frames")
        if (!isnum($6) || !isnum($7)) { bad("BER/FER are not numbers"); next }
        if (!close_to($6 + 0, biterr / (K * frames), 0.006)) bad("BER != bit errors / (k * frames)")
        if (!close_to($7 + 0, ferr / frames, 0.006)) bad("FER != frame errors / frames")
        if (!isnum($8)) bad("average iterations is not a number")
        else if ($8 + 0 > MAXITER + 0.05) bad("average iterations exceeds the maximum")
        if (ferr == frames) { if ($9 !~ /^ *NaN$/) bad("avg corr should be NaN when no frame is correct") }
        else if (!isnum($9)) bad("average correct iterations is not a number")
        if ($10 !~ /^ *([0-9]+\.[0-9][0-9][0-9]|inf|NaN)$/) bad("bad throughput cell")
        if ($11 !~ /^[0-9]+[a-z]+( [0-9]+[a-z]+)*$/) bad("bad elapsed cell")
    }
    END { exit nbad > 0 }' MAXITER="${MAXITER:-100}" "$1" || FAILS=$((FAILS + 1))
}

# check_min_errors <rows file> <requested frame errors>
check_min_errors() {
    awk -F' [|] ' -v want="$2" '$4 + 0 < want { bad = 1 } END { exit bad }' "$1" ||
        fail "$CASE: a point of $1 stopped before $2 frame errors"
}

# terminal_rows <stdout file> -> term.rows: what remains visible in the table on
# a terminal (rows rewritten in place are replaced), term.pre: text before it
check_terminal() {
    _out=$1
    _n=$(wc -l <preamble.exp)
    head -n "$_n" "$_out" >term.pre
    cmp -s preamble.exp term.pre || {
        fail "$CASE: parameter summary on stdout differs from the expected text"
        diff preamble.exp term.pre >&2
    }
    tail -n +"$((_n + 1))" "$_out" >term.rest
    ESC=$(printf '\033')
    CR=$(printf '\r')
    # line 1: hide cursor + header line 1; line 2: header line 2
    [ "$(sed -n 1p term.rest)" = "${ESC}[?25l$HEADER1" ] || fail "$CASE: bad first header line on stdout"
    [ "$(sed -n 2p term.rest)" = "$HEADER2" ] || fail "$CASE: bad second header line on stdout"
    tail -n +3 term.rest | awk -v up="${ESC}[1A${CR}${ESC}[2K" -v show="${ESC}[?25h" '
        {
            if (index($0, up) == 1) {
                if (n == 0) { print "rewrite without a previous row" > "/dev/stderr"; bad = 1 }
                else n--
                $0 = substr($0, length(up) + 1)
            }
            line[++n] = $0
        }
        END {
            # the stream ends with an empty line and the show-cursor sequence
            # (which is not followed by a newline)
            if (n < 2 || line[n] != show || line[n - 1] != "") { print "bad epilogue" > "/dev/stderr"; bad = 1 }
            for (i = 1; i <= n - 2; i++) print line[i]
            exit bad
        }' >term.rows || fail "$CASE: malformed progress stream on stdout"
    if grep -q "$ESC" term.rows; then fail "$CASE: unexpected escape sequence inside the table on stdout"; fi
}

# ---------------------------------------------------------------------------
# 1. Eb/N0 sweeps (both result files, BCH enabled)
# ---------------------------------------------------------------------------
# sweep_case <min> <max> <step> <min fmt> <max fmt> <step fmt> <expected column>
sweep_case() {
    CASE="sweep min=$1 max=$2 step=$3"
    rm -f o.txt l.txt
    run sweep ber --min-ebn0="$1" --max-ebn0="$2" --step-ebn0="$3" --frame-errors 2 \
        --bch-max-errors 1 --output-file o.txt --output-file-ldpc l.txt small.alist
    if [ "$RC" -ne 0 ]; then
        fail "$CASE: exit status $RC"
        cat sweep.err >&2
        return
    fi
    [ -s sweep.err ] && fail "$CASE: unexpected output on stderr"
    expected_preamble "$4" "$5" "$6" 2 1
    check_result_file o.txt "LDPC+BCH results" "$7"
    check_result_file l.txt "LDPC-only results" "$7"
    check_min_errors o.txt.rows 2
    check_terminal sweep.out
    # The visible table on the terminal is exactly the main result file table
    cmp -s term.rows o.txt.rows || {
        fail "$CASE: final terminal rows differ from the rows of the result file"
        diff term.rows o.txt.rows >&2
    }
    # Both files describe the same frames: columns Eb/N0, frames, false decodes,
    # average iterations, throughput and elapsed agree; the LDPC-only errors are
    # not smaller than the LDPC+BCH errors.
    paste -d'|' o.txt.rows l.txt.rows | awk -F'[|]' '
        { if ($1 != $12 || $2 != $13 || $5 != $16 || $8 != $19 || $10 != $21 || $11 != $22) bad = 1
          if ($14 + 0 < $3 + 0 || $15 + 0 < $4 + 0) bad = 1 }
        END { exit bad }' || fail "$CASE: main and LDPC-only result files are inconsistent"
}

# increasing
sweep_case 0 2 1 0.00 2.00 1.00 "0.00 1.00 2.00"
sweep_case -3 -1 1 -3.00 -1.00 1.00 "-3.00 -2.00 -1.00"
# fractional steps; the maximum is not reached exactly
sweep_case 0 1 0.3 0.00 1.00 0.30 "0.00 0.30 0.60 0.90"
sweep_case -1.5 -0.25 0.25 -1.50 -0.25 0.25 "-1.50 -1.25 -1.00 -0.75 -0.50 -0.25"
# (0.7 - 0.1) / 0.2 is slightly below 3 in floating point
sweep_case 0.1 0.7 0.2 0.10 0.70 0.20 "0.10 0.30 0.50"
sweep_case 0 2.05 0.1 0.00 2.05 0.10 \
    "0.00 0.10 0.20 0.30 0.40 0.50 0.60 0.70 0.80 0.90 1.00 1.10 1.20 1.30 1.40 1.50 1.60 1.70 1.80 1.90 2.00"
sweep_case 0 0.05 0.01 0.00 0.05 0.01 "0.00 0.01 0.02 0.03 0.04 0.05"
# decreasing with a negative step
sweep_case 2 0 -1 2.00 0.00 -1.00 "2.00 1.00 0.00"
sweep_case 3 -3 -1.5 3.00 -3.00 -1.50 "3.00 1.50 0.00 -1.50 -3.00"
# degenerate: the sweep always contains the minimum
sweep_case 2 0 1 2.00 0.00 1.00 "2.00"
sweep_case 0 2 -1 0.00 2.00 -1.00 "0.00"
sweep_case 1 1 1 1.00 1.00 1.00 "1.00"
sweep_case 1 1 0 1.00 1.00 0.00 "1.00"
sweep_case 1 0 0 1.00 0.00 0.00 "1.00"
sweep_case 1.5 1.75 1000 1.50 1.75 1000.00 "1.50"
# quotients that are negative, fractional or just below an integer
sweep_case 1 0.5 1 1.00 0.50 1.00 "1.00"
sweep_case 0 -1.5 1 0.00 -1.50 1.00 "0.00"
sweep_case 0 0.999 1 0.00 1.00 1.00 "0.00"
sweep_case 0 -0.999 -1 0.00 -1.00 -1.00 "0.00"
sweep_case 0 -1 -1 0.00 -1.00 -1.00 "0.00 -1.00"
sweep_case -1 1 0.5 -1.00 1.00 0.50 "-1.00 -0.50 0.00 0.50 1.00"
sweep_case 0.5 -0.5 -0.25 0.50 -0.50 -0.25 "0.50 0.25 0.00 -0.25 -0.50"
sweep_case 0.25 0.75 0.125 0.25 0.75 0.12 "0.25 0.38 0.50 0.62 0.75"
sweep_case 1 -inf 1 1.00 -inf 1.00 "1.00"
# consecutive values that are equal in single precision share one row
sweep_case 1 1.000000002 0.000000001 1.00 1.00 0.00 "1.00"

# ---------------------------------------------------------------------------
# 2. Selection of the result files
# ---------------------------------------------------------------------------
SWEEP="--min-ebn0 0 --max-ebn0 1 --step-ebn0 1 --frame-errors 3"

CASE="no result files"
rm -f o.txt l.txt
run sel ber $SWEEP small.alist
[ "$RC" -eq 0 ] || fail "$CASE: exit status $RC"
expected_preamble 0.00 1.00 1.00 3 0
check_terminal sel.out
check_rows term.rows stdout
[ "$(wc -l <term.rows)" -eq 2 ] || fail "$CASE: expected 2 rows on stdout"
[ "$(ls | grep -c 'txt$')" -eq 0 ] || fail "$CASE: a result file appeared"

CASE="main result file only, no BCH"
rm -f o.txt l.txt
run sel ber $SWEEP --output-file o.txt small.alist
[ "$RC" -eq 0 ] || fail "$CASE: exit status $RC"
check_result_file o.txt "" "0.00 1.00"
check_min_errors o.txt.rows 3
check_terminal sel.out
cmp -s term.rows o.txt.rows || fail "$CASE: terminal rows differ from result file rows"
[ ! -e l.txt ] || fail "$CASE: LDPC-only file created"

CASE="LDPC-only file requested without BCH"
rm -f o.txt l.txt
run sel ber $SWEEP --output-file-ldpc l.txt small.alist
[ "$RC" -eq 0 ] || fail "$CASE: exit status $RC"
[ ! -e l.txt ] || fail "$CASE: LDPC-only file must not be created without a BCH decoder"
[ ! -e o.txt ] || fail "$CASE: main result file created"

CASE="both files requested without BCH"
rm -f o.txt l.txt
run sel ber $SWEEP --output-file o.txt --output-file-ldpc l.txt small.alist
[ "$RC" -eq 0 ] || fail "$CASE: exit status $RC"
check_result_file o.txt "" "0.00 1.00"
[ ! -e l.txt ] || fail "$CASE: LDPC-only file must not be created without a BCH decoder"

CASE="LDPC-only file alone with BCH"
rm -f o.txt l.txt
run sel ber $SWEEP --bch-max-errors 2 --output-file-ldpc l.txt small.alist
[ "$RC" -eq 0 ] || fail "$CASE: exit status $RC"
expected_preamble 0.00 1.00 1.00 3 2
check_result_file l.txt "LDPC-only results" "0.00 1.00"
[ ! -e o.txt ] || fail "$CASE: main result file created"
check_terminal sel.out
# terminal shows LDPC+BCH: frames agree with the file, errors are not larger
paste -d'|' term.rows l.txt.rows | awk -F'[|]' '
    { if ($1 != $12 || $2 != $13) bad = 1; if ($14 + 0 < $3 + 0 || $15 + 0 < $4 + 0) bad = 1 }
    END { exit bad }' || fail "$CASE: terminal and LDPC-only file are inconsistent"
check_min_errors term.rows 3

CASE="main result file alone with BCH"
rm -f o.txt l.txt
run sel ber $SWEEP --bch-max-errors 2 --output-file o.txt small.alist
[ "$RC" -eq 0 ] || fail "$CASE: exit status $RC"
check_result_file o.txt "LDPC+BCH results" "0.00 1.00"
check_min_errors o.txt.rows 3
[ ! -e l.txt ] || fail "$CASE: LDPC-only file created"

CASE="stale result files are replaced"
yes "stale stale stale stale stale stale stale stale stale stale" | head -n 200 >o.txt
cp o.txt l.txt
run sel ber $SWEEP --bch-max-errors 2 --output-file o.txt --output-file-ldpc l.txt small.alist
[ "$RC" -eq 0 ] || fail "$CASE: exit status $RC"
check_result_file o.txt "LDPC+BCH results" "0.00 1.00"
check_result_file l.txt "LDPC-only results" "0.00 1.00"
if grep -q stale o.txt l.txt; then fail "$CASE: stale contents survived"; fi

CASE="puncturing, interleaving, 8PSK, other decoder"
rm -f o.txt l.txt
PUNCT=1,1,1,0 INTERL=-3 MODULATION=8PSK DECODER=Minstarapproxi8 MAXITER=7 FRAME=18 RATE=0.667
run sel ber $SWEEP --puncturing 1,1,1,0 --interleaving=-3 --modulation PSK8 \
    --decoder Minstarapproxi8 --max-iter 7 --bch-max-errors 1 \
    --output-file o.txt --output-file-ldpc l.txt small.alist
[ "$RC" -eq 0 ] || { fail "$CASE: exit status $RC"; cat sel.err >&2; }
expected_preamble 0.00 1.00 1.00 3 1
check_result_file o.txt "LDPC+BCH results" "0.00 1.00"
check_result_file l.txt "LDPC-only results" "0.00 1.00"
check_terminal sel.out
cmp -s term.rows o.txt.rows || fail "$CASE: terminal rows differ from result file rows"
PUNCT="" INTERL="" MODULATION="" DECODER="" MAXITER="" FRAME="" RATE=""

# ---------------------------------------------------------------------------
# 3. A point that lasts long enough to be redrawn several times
# ---------------------------------------------------------------------------
CASE="long points"
rm -f o.txt l.txt
run long ber --min-ebn0 3 --max-ebn0 3.5 --step-ebn0 0.5 --frame-errors 1500 \
    --bch-max-errors 1 --output-file o.txt --output-file-ldpc l.txt small.alist
[ "$RC" -eq 0 ] || fail "$CASE: exit status $RC"
expected_preamble 3.00 3.50 0.50 1500 1
check_result_file o.txt "LDPC+BCH results" "3.00 3.50"
check_result_file l.txt "LDPC-only results" "3.00 3.50"
check_min_errors o.txt.rows 1500
check_terminal long.out
cmp -s term.rows o.txt.rows || fail "$CASE: terminal rows differ from result file rows"

# ---------------------------------------------------------------------------
# 4. Error paths: non-zero status, a message, no panic
# ---------------------------------------------------------------------------
# error_case <description> <expected status> args...
error_case() {
    CASE="error: $1"
    _want=$2
    shift 2
    rm -f o.txt l.txt
    run err "$@"
    [ "$RC" -eq "$_want" ] || fail "$CASE: exit status $RC, expected $_want"
    [ -s err.err ] || fail "$CASE: no message on stderr"
    if grep -q -i "panicked" err.err; then
        fail "$CASE: panic"
        cat err.err >&2
    fi
}
FILES="--bch-max-errors 1 --output-file o.txt --output-file-ldpc l.txt"

error_case "invalid puncturing pattern" 1 ber $SWEEP $FILES --puncturing 1,2,0 small.alist
grep -q "invalid puncturing pattern" err.err || fail "$CASE: unexpected message"
[ ! -s err.out ] || fail "$CASE: output on stdout"
[ ! -e o.txt ] && [ ! -e l.txt ] || fail "$CASE: result files created"
error_case "empty puncturing pattern" 1 ber $SWEEP $FILES --puncturing "" small.alist
[ ! -e o.txt ] && [ ! -e l.txt ] || fail "$CASE: result files created"
error_case "missing alist" 1 ber $SWEEP $FILES missing.alist
[ ! -s err.out ] || fail "$CASE: output on stdout"
[ ! -e o.txt ] && [ ! -e l.txt ] || fail "$CASE: result files created"
error_case "malformed alist" 1 ber $SWEEP $FILES bad.alist
[ ! -e o.txt ] && [ ! -e l.txt ] || fail "$CASE: result files created"
error_case "alist without a systematic encoder" 1 ber $SWEEP $FILES singular.alist
[ ! -s err.out ] || fail "$CASE: output on stdout"
error_case "result file in a missing directory" 1 ber $SWEEP --bch-max-errors 1 --output-file nodir/o.txt \
    --output-file-ldpc l.txt small.alist
[ ! -s err.out ] || fail "$CASE: output on stdout"
[ ! -e l.txt ] || fail "$CASE: LDPC-only file created although the main file failed first"
error_case "LDPC-only file in a missing directory" 1 ber $SWEEP --bch-max-errors 1 --output-file o.txt \
    --output-file-ldpc nodir/l.txt small.alist
[ ! -s err.out ] || fail "$CASE: output on stdout"
error_case "pattern length does not divide the codeword" 1 ber $SWEEP --puncturing 1,1,1,1,0 small.alist
error_case "step is not a number" 2 ber --min-ebn0 0 --max-ebn0 1 --step-ebn0 x small.alist
error_case "missing sweep arguments" 2 ber small.alist
error_case "unknown decoder" 2 ber $SWEEP --decoder Nonexistent small.alist
error_case "unknown modulation" 2 ber $SWEEP --modulation QPSK small.alist

CASE="LDPC-only file in a missing directory is ignored without BCH"
rm -f o.txt
run sel ber $SWEEP --output-file o.txt --output-file-ldpc nodir/l.txt small.alist
[ "$RC" -eq 0 ] || fail "$CASE: exit status $RC"
expected_preamble 0.00 1.00 1.00 3 0
check_result_file o.txt "" "0.00 1.00"

# ---------------------------------------------------------------------------
# 5. The other subcommands still go through the same dispatch
# ---------------------------------------------------------------------------
CASE="dispatch"
run d dvbs2 --rate 1/2 --girth
[ "$RC" -eq 0 ] && [ "$(cat d.out)" = "Code girth = 6" ] || fail "$CASE: dvbs2 girth: $(cat d.out)"
run d ccsds --rate 1/2 --block-size 1024 --girth
[ "$RC" -eq 0 ] && [ "$(cat d.out)" = "Code girth = 6" ] || fail "$CASE: ccsds girth: $(cat d.out)"
run d dvbs2 --rate 1/2
[ "$RC" -eq 0 ] && [ "$(head -n 1 d.out)" = "64800 32400" ] || fail "$CASE: dvbs2 alist"
run d dvbs2 --rate 1/2 --short
[ "$RC" -eq 0 ] && [ "$(head -n 1 d.out)" = "16200 9000" ] || fail "$CASE: dvbs2 short alist"
run d ccsds-c2
[ "$RC" -eq 0 ] && [ "$(head -n 1 d.out)" = "8176 1022" ] || fail "$CASE: ccsds-c2 alist"
run d systematic small.alist
[ "$RC" -eq 0 ] && [ "$(head -n 1 d.out)" = "24 12" ] || fail "$CASE: systematic"
run d peg 8 16 3 1
[ "$RC" -eq 0 ] && [ "$(head -n 1 d.out)" = "16 8" ] || fail "$CASE: peg"
run d mackay-neal 8 16 4 2 1
[ "$RC" -eq 0 ] && [ "$(head -n 1 d.out)" = "16 8" ] || fail "$CASE: mackay-neal"
error_case "dvbs2 invalid rate" 1 dvbs2 --rate 7/2
error_case "ccsds invalid block size" 1 ccsds --rate 1/2 --block-size 1000
error_case "systematic missing file" 1 systematic missing.alist
error_case "encode missing input" 1 encode small.alist missing.bin out.bin
error_case "no subcommand" 2
error_case "unknown subcommand" 2 frobnicate
run d --version
[ "$RC" -eq 0 ] && grep -q "^ldpc-toolbox " d.out || fail "version"
run d --help
[ "$RC" -eq 0 ] && grep -q "ccsds-c2" d.out || fail "help"

# encode: two complete words and an incomplete one; with and without puncturing
printf '\001\000\001\001\000\000\001\000\001\000\000\001\000\000\000\000\000\000\000\000\000\000\000\000\001\001\001' >in.bin
run d encode small.alist in.bin out.bin
[ "$RC" -eq 0 ] || fail "encode: exit status $RC"
[ "$(wc -c <out.bin)" -eq 48 ] || fail "encode: expected 48 bytes, got $(wc -c <out.bin)"
od -An -v -tu1 out.bin | tr -s ' \n' ' ' | awk '
    NR == FNR { if (FNR > 28 && FNR <= 40) rows[FNR - 28] = $0; next }
    {
        for (wd = 0; wd < 2; wd++) {
            for (r = 1; r <= 12; r++) {
                m = split(rows[r], cols, " "); s = 0
                for (i = 1; i <= m; i++) s += $(wd * 24 + cols[i])
                if (s % 2) bad = 1
            }
        }
        want = "1 0 1 1 0 0 1 0 1 0 0 1"
        split(want, wv, " ")
        for (i = 1; i <= 12; i++) { if ($i != wv[i]) bad = 1; if ($(24 + i) != 0) bad = 1 }
        for (i = 1; i <= 48; i++) if ($i != 0 && $i != 1) bad = 1
    }
    END { exit bad }' small.alist - || fail "encode: output is not the systematic codeword"
run d encode small.alist in.bin outp.bin --puncturing 1,0,1,1
[ "$RC" -eq 0 ] || fail "encode punctured: exit status $RC"
[ "$(wc -c <outp.bin)" -eq 36 ] || fail "encode punctured: expected 36 bytes"
{
    dd if=out.bin bs=1 count=6 2>/dev/null
    dd if=out.bin bs=1 skip=12 count=12 2>/dev/null
    dd if=out.bin bs=1 skip=24 count=6 2>/dev/null
    dd if=out.bin bs=1 skip=36 count=12 2>/dev/null
} >outp.exp
cmp -s outp.exp outp.bin || fail "encode punctured: not the punctured codeword"

# ---------------------------------------------------------------------------
# 6. Process entry point: streams and exit statuses
# ---------------------------------------------------------------------------
# stream_case <description> <status> <stream that must carry the text: out|err> args...
stream_case() {
    CASE="entry: $1"
    _want=$2
    _stream=$3
    shift 3
    run e "$@"
    [ "$RC" -eq "$_want" ] || fail "$CASE: exit status $RC, expected $_want"
    if [ "$_stream" = out ]; then
        [ -s e.out ] || fail "$CASE: nothing on stdout"
        [ ! -s e.err ] || fail "$CASE: unexpected text on stderr"
    else
        [ -s e.err ] || fail "$CASE: nothing on stderr"
        [ ! -s e.out ] || fail "$CASE: unexpected text on stdout"
    fi
    if grep -q -i "panicked" e.err; then fail "$CASE: panic"; fi
}
stream_case "--help" 0 out --help
grep -q "^Usage: ldpc-toolbox <COMMAND>" e.out || fail "$CASE: usage line"
for sub in ber ccsds ccsds-c2 encode dvbs2 mackay-neal peg systematic help; do
    grep -q "^  $sub " e.out || fail "$CASE: subcommand $sub is not listed"
done
stream_case "-h" 0 out -h
stream_case "help" 0 out help
stream_case "help ber" 0 out help ber
grep -q "^Usage: ldpc-toolbox ber \[OPTIONS\] --min-ebn0 <MIN_EBN0>" e.out || fail "$CASE: usage line"
stream_case "ber --help" 0 out ber --help
grep -q -- "--output-file-ldpc <OUTPUT_FILE_LDPC>" e.out || fail "$CASE: option missing"
stream_case "dvbs2 -h" 0 out dvbs2 -h
stream_case "--version" 0 out --version
[ "$(cat e.out)" = "ldpc-toolbox 0.10.0" ] || fail "$CASE: version text: $(cat e.out)"
stream_case "-V" 0 out -V
stream_case "no arguments" 2 err
grep -q "^Usage: ldpc-toolbox <COMMAND>" e.err || fail "$CASE: usage line"
stream_case "unknown subcommand" 2 err frobnicate
grep -q "unrecognized subcommand 'frobnicate'" e.err || fail "$CASE: message"
stream_case "unknown option" 2 err dvbs2 --rate 1/2 --frobnicate
stream_case "missing required option" 2 err dvbs2
stream_case "trailing argument" 2 err ccsds-c2 extra
stream_case "bad number" 2 err peg 8 x 3 1
stream_case "missing file (systematic)" 1 err systematic missing.alist
[ "$(cat e.err)" = "No such file or directory (os error 2)" ] || fail "$CASE: message: $(cat e.err)"
stream_case "missing file (ber)" 1 err ber $SWEEP missing.alist
[ "$(cat e.err)" = "No such file or directory (os error 2)" ] || fail "$CASE: message: $(cat e.err)"
stream_case "missing file (encode)" 1 err encode missing.alist in.bin out2.bin
[ ! -e out2.bin ] || fail "$CASE: output file created"
stream_case "bad puncturing (ber)" 1 err ber $SWEEP --puncturing 1,,0 small.alist
[ "$(cat e.err)" = "invalid puncturing pattern" ] || fail "$CASE: message: $(cat e.err)"
stream_case "bad puncturing (encode)" 1 err encode small.alist in.bin out2.bin --puncturing 2
[ "$(cat e.err)" = "invalid puncturing pattern" ] || fail "$CASE: message: $(cat e.err)"
stream_case "bad alist" 1 err systematic bad.alist
stream_case "dvbs2 bad rate" 1 err dvbs2 --rate 1/7
stream_case "ccsds bad rate" 1 err ccsds --rate 3/5 --block-size 1024
stream_case "ccsds bad size" 1 err ccsds --rate 1/2 --block-size 12
stream_case "dvbs2 alist" 0 out dvbs2 --rate 9/10
stream_case "ccsds alist" 0 out ccsds --rate 4/5 --block-size 1024
stream_case "ccsds-c2 alist" 0 out ccsds-c2

# a result on stdout that cannot be written is an error, not a success
if [ -w /dev/full ]; then
    CASE="entry: stdout is full (ber)"
    $LIMIT "$BIN" ber $SWEEP small.alist >/dev/full 2>e.err
    RC=$?
    [ "$RC" -eq 1 ] || fail "$CASE: exit status $RC"
    [ "$(cat e.err)" = "No space left on device (os error 28)" ] || fail "$CASE: message: $(cat e.err)"
    CASE="entry: result file is full (ber)"
    $LIMIT "$BIN" ber $SWEEP --output-file /dev/full small.alist >e.out 2>e.err
    RC=$?
    [ "$RC" -eq 1 ] || fail "$CASE: exit status $RC"
    [ "$(cat e.err)" = "No space left on device (os error 28)" ] || fail "$CASE: message: $(cat e.err)"
fi

if [ "$FAILS" -ne 0 ]; then
    echo "$FAILS check(s) failed" >&2
    exit 1
fi
echo "all checks passed"
exit 0
