#!/bin/sh
# Demonstration for property C20 (encode subcommand).
#
# usage: demo.sh <checkout>   (binary at <checkout>/target/debug/ldpc-toolbox)
#
# The encode subcommand must write, for each complete input word, exactly the
# (punctured) codeword of the systematic encoder and nothing more; failures
# must give a non-zero exit status with a message and never a panic.
#
# The oracle is independent of the implementation of the subcommand: for a
# parity check matrix H = [H0 H1] with H1 invertible, the codeword with a given
# systematic part is the unique vector c with H c = 0, so an awk script checks
# the systematic part and the syndrome of every codeword read back from the
# output file, and that the output holds exactly floor(len / k) codewords. The
# punctured output is compared with the kept blocks of the verified codewords.

set -u

ROOT=${1:?usage: demo.sh <checkout>}
BIN=$ROOT/target/debug/ldpc-toolbox
[ -x "$BIN" ] || { echo "FAIL: no binary at $BIN" >&2; exit 1; }

W=$(mktemp -d "${TMPDIR:-/tmp}/c20demo.XXXXXX") || exit 1
BGPIDS=""
cleanup() {
    for p in $BGPIDS; do kill "$p" 2>/dev/null; done
    rm -rf "$W"
}
trap cleanup EXIT
trap 'exit 1' INT TERM HUP

fail() {
    echo "FAIL: $*" >&2
    exit 1
}

# limited SECONDS command...: runs the command, killing it if it takes too long
if command -v timeout >/dev/null 2>&1; then
    limited() {
        _t=$1
        shift
        timeout -s KILL "$_t" "$@"
    }
else
    limited() {
        _t=$1
        shift
        "$@" &
        _pid=$!
        (sleep "$_t"; kill -9 "$_pid" 2>/dev/null) >/dev/null 2>&1 &
        _wd=$!
        wait "$_pid"
        _rc=$?
        kill "$_wd" 2>/dev/null
        return $_rc
    }
fi

# ---------------------------------------------------------------------------
# Helper programs

cat > "$W/gen.awk" <<'EOF'
# Prints `count` characters: mostly 0 and 1, sometimes 2 or 3 (which stand for
# bytes that are neither zero nor one and must be read as a zero bit).
BEGIN {
    srand(seed);
    line = "";
    for (i = 0; i < count; i++) {
        r = rand();
        if (r < 0.47) c = "0";
        else if (r < 0.94) c = "1";
        else if (r < 0.97) c = "2";
        else c = "3";
        line = line c;
        if (length(line) >= 4000) { printf "%s", line; line = ""; }
    }
    printf "%s", line;
}
EOF

# genbits SEED COUNT FILE
genbits() {
    awk -v seed="$1" -v count="$2" -f "$W/gen.awk" | tr '0123' '\000\001\002\377' > "$3"
    [ "$(wc -c < "$3")" -eq "$2" ] || fail "could not generate $2 input bytes"
}

# dump FILE: the bytes of the file as decimal numbers
dump() {
    od -An -v -tu1 "$1"
}

cat > "$W/verify.awk" <<'EOF'
# usage: awk -f verify.awk ALIST INPUT.dec OUTPUT.dec
# Checks that OUTPUT holds exactly the codewords of the complete words of INPUT.
FNR == 1 { fileno++; line = 0 }
fileno == 1 {
    line++;
    if (line == 1) { N = $1; M = $2; next }
    if (line >= 5 && line < 5 + N) {
        col = line - 5;
        deg[col] = 0;
        for (i = 1; i <= NF; i++) if ($i > 0) { rows[col, deg[col]] = $i - 1; deg[col]++; }
    }
    next
}
fileno == 2 { for (i = 1; i <= NF; i++) inp[nin++] = $i; next }
fileno == 3 { for (i = 1; i <= NF; i++) out[nout++] = $i; next }
END {
    nin += 0; nout += 0;
    K = N - M;
    if (K <= 0) { print "bad code dimensions"; exit 1 }
    words = int(nin / K);
    if (nout != words * N) {
        printf "output has %d bytes, expected %d words of %d = %d\n", nout, words, N, words * N;
        exit 1
    }
    for (w = 0; w < words; w++) {
        for (r = 0; r < M; r++) syn[r] = 0;
        for (j = 0; j < N; j++) {
            c = out[w * N + j];
            if (c != 0 && c != 1) { printf "word %d: output byte %d is %d\n", w, j, c; exit 1 }
            if (j < K) {
                want = (inp[w * K + j] == 1) ? 1 : 0;
                if (c != want) { printf "word %d: systematic bit %d is wrong\n", w, j; exit 1 }
            }
            if (c == 1) for (t = 0; t < deg[j]; t++) syn[rows[j, t]] = 1 - syn[rows[j, t]];
        }
        for (r = 0; r < M; r++) if (syn[r] != 0) { printf "word %d: parity check %d fails\n", w, r; exit 1 }
    }
    printf "%d codewords verified\n", words;
}
EOF

cat > "$W/punct.awk" <<'EOF'
# usage: awk -v n=N -v pattern=1,1,0 -f punct.awk FULL.dec PUNCTURED.dec
# Checks that PUNCTURED is FULL with every codeword of n bits punctured.
FNR == 1 { fileno++ }
fileno == 1 { for (i = 1; i <= NF; i++) full[nfull++] = $i; next }
fileno == 2 { for (i = 1; i <= NF; i++) got[ngot++] = $i; next }
END {
    nfull += 0; ngot += 0;
    np = split(pattern, pat, ",");
    if (n % np != 0) { print "pattern does not divide n"; exit 1 }
    bs = n / np;
    words = nfull / n;
    pos = 0;
    for (w = 0; w < words; w++)
        for (b = 1; b <= np; b++)
            if (pat[b] == "1")
                for (j = 0; j < bs; j++) {
                    want = full[w * n + (b - 1) * bs + j];
                    if (pos >= ngot || got[pos] != want) { printf "mismatch at punctured byte %d\n", pos; exit 1 }
                    pos++;
                }
    if (pos != ngot) { printf "punctured output has %d bytes, expected %d\n", ngot, pos; exit 1 }
    printf "%d punctured bytes verified\n", pos;
}
EOF

# encode_ok ALIST INPUT OUTPUT [extra args]: runs encode, which must succeed
encode_ok() {
    _a=$1 _i=$2 _o=$3
    shift 3
    limited 120 "$BIN" encode "$_a" "$_i" "$_o" "$@" > "$W/stdout" 2> "$W/stderr"
    _rc=$?
    [ $_rc -eq 0 ] || { cat "$W/stderr" >&2; fail "encode $_a $_i $* exited with $_rc"; }
    [ -s "$W/stdout" ] && fail "encode wrote to stdout"
    return 0
}

# check_full ALIST INPUT: encodes without puncturing and verifies; the
# codewords are left in $W/full and their dump in $W/full.dec
check_full() {
    encode_ok "$1" "$2" "$W/full"
    dump "$2" > "$W/in.dec"
    dump "$W/full" > "$W/full.dec"
    awk -f "$W/verify.awk" "$1" "$W/in.dec" "$W/full.dec" > "$W/verdict" \
        || { cat "$W/verdict" >&2; fail "wrong codewords for $1 $2"; }
}

# check_punct ALIST INPUT N PATTERN: after check_full on the same arguments
check_punct() {
    encode_ok "$1" "$2" "$W/punct" --puncturing "$4"
    dump "$W/punct" > "$W/punct.dec"
    awk -v n="$3" -v pattern="$4" -f "$W/punct.awk" "$W/full.dec" "$W/punct.dec" > "$W/verdict" \
        || { cat "$W/verdict" >&2; fail "wrong punctured output for $1 $2 $4"; }
}

# must_error DESCRIPTION command...: non-zero exit, a message, no panic
must_error() {
    _d=$1
    shift
    limited 120 "$@" > "$W/stdout" 2> "$W/stderr"
    _rc=$?
    [ $_rc -ne 0 ] || fail "$_d: exit status 0"
    [ $_rc -lt 100 ] || fail "$_d: exit status $_rc (panic, signal or timeout)"
    [ -s "$W/stderr" ] || fail "$_d: no message"
    grep -q panicked "$W/stderr" && fail "$_d: panic"
    return 0
}

# ---------------------------------------------------------------------------
# Codes

"$BIN" peg 4 8 3 0 > "$W/peg.alist" || fail "peg"
"$BIN" systematic "$W/peg.alist" > "$W/small.alist" || fail "systematic"     # n = 8, k = 4
"$BIN" ccsds --rate 1/2 --block-size 1024 > "$W/ar4ja.alist" || fail "ccsds" # n = 2560, k = 1024
"$BIN" dvbs2 --rate 8/9 --short > "$W/dvbs2.alist" || fail "dvbs2"           # n = 16200, k = 14400
"$BIN" dvbs2 --rate 1/4 --short > "$W/dvbs2q.alist" || fail "dvbs2"          # n = 16200, k = 3240
"$BIN" peg 150 600 3 5 > "$W/peg600.alist" || fail "peg"
"$BIN" systematic "$W/peg600.alist" > "$W/mid.alist" || fail "systematic"    # n = 600, k = 450

# ---------------------------------------------------------------------------
# Small code: every message, every input length around the word boundaries

: > "$W/all16.txt"
for a in 0 1; do for b in 0 1; do for c in 0 1; do for d in 0 1; do
    printf '%s' "$a$b$c$d" >> "$W/all16.txt"
done; done; done; done
tr '01' '\000\001' < "$W/all16.txt" > "$W/all16"
check_full "$W/small.alist" "$W/all16"
grep -q '^16 codewords' "$W/verdict" || fail "expected 16 codewords"
check_punct "$W/small.alist" "$W/all16" 8 1,0
check_punct "$W/small.alist" "$W/all16" 8 0,1
check_punct "$W/small.alist" "$W/all16" 8 1,1,1,0
check_punct "$W/small.alist" "$W/all16" 8 0,1,0,1,1,0,0,1
check_punct "$W/small.alist" "$W/all16" 8 1
check_punct "$W/small.alist" "$W/all16" 8 0,0
[ -s "$W/punct" ] && fail "all-punctured output is not empty"

genbits 11 64 "$W/mix64"
len=0
while [ $len -le 13 ]; do
    dd if="$W/mix64" of="$W/cut" bs=1 count=$len 2>/dev/null
    check_full "$W/small.alist" "$W/cut"
    [ "$(wc -c < "$W/full")" -eq $((len / 4 * 8)) ] || fail "length $len: wrong output size"
    check_punct "$W/small.alist" "$W/cut" 8 1,1,0,1
    len=$((len + 1))
done

# an existing longer output file is replaced, not appended to or overwritten in place
genbits 12 400 "$W/old"
cp "$W/old" "$W/full"
dd if="$W/mix64" of="$W/cut" bs=1 count=9 2>/dev/null
check_full "$W/small.alist" "$W/cut"
[ "$(wc -c < "$W/full")" -eq 16 ] || fail "output file not truncated"

# ---------------------------------------------------------------------------
# Real codes, inputs that are much larger than any internal buffer

# (the AR4JA code is used sparingly: building its encoder takes long in a
# debug build)
genbits 21 $((70 * 1024 + 517)) "$W/in_ar4ja"
check_full "$W/ar4ja.alist" "$W/in_ar4ja"
grep -q '^70 codewords' "$W/verdict" || fail "expected 70 codewords"
check_punct "$W/ar4ja.alist" "$W/in_ar4ja" 2560 1,1,1,1,0
[ "$(wc -c < "$W/punct")" -eq $((70 * 2048)) ] || fail "wrong punctured size"

genbits 24 $((600 * 450 + 449)) "$W/in_mid"
check_full "$W/mid.alist" "$W/in_mid"
grep -q '^600 codewords' "$W/verdict" || fail "expected 600 codewords"
cp "$W/full" "$W/ref_mid"
check_punct "$W/mid.alist" "$W/in_mid" 600 1,1,1,0
check_punct "$W/mid.alist" "$W/in_mid" 600 0,1,1,0,1

genbits 22 $((20 * 14400 + 14399)) "$W/in_dvbs2"
check_full "$W/dvbs2.alist" "$W/in_dvbs2"
grep -q '^20 codewords' "$W/verdict" || fail "expected 20 codewords"
check_punct "$W/dvbs2.alist" "$W/in_dvbs2" 16200 1,0,1

genbits 23 $((33 * 3240)) "$W/in_dvbs2q"
check_full "$W/dvbs2q.alist" "$W/in_dvbs2q"
grep -q '^33 codewords' "$W/verdict" || fail "expected 33 codewords"
check_punct "$W/dvbs2q.alist" "$W/in_dvbs2q" 16200 1,1,1,1,0,1,1,1

# ---------------------------------------------------------------------------
# Input and output through FIFOs (short reads, data arriving in pieces that do
# not respect word boundaries)

if mkfifo "$W/in.fifo" "$W/out.fifo" 2>/dev/null; then
    (
        dd if="$W/in_mid" bs=1 count=1000 2>/dev/null
        sleep 1
        dd if="$W/in_mid" bs=1000 skip=1 count=70 2>/dev/null
        sleep 1
        dd if="$W/in_mid" bs=71000 skip=1 2>/dev/null
    ) > "$W/in.fifo" &
    BGPIDS="$BGPIDS $!"
    encode_ok "$W/mid.alist" "$W/in.fifo" "$W/fifo_out"
    cmp -s "$W/fifo_out" "$W/ref_mid" || fail "output differs when the input is a FIFO"

    cat "$W/out.fifo" > "$W/fifo_got" &
    catpid=$!
    BGPIDS="$BGPIDS $catpid"
    encode_ok "$W/mid.alist" "$W/in_mid" "$W/out.fifo"
    wait $catpid
    cmp -s "$W/fifo_got" "$W/ref_mid" || fail "output differs when the output is a FIFO"

    # both at once, the input trickling in word by word
    (
        i=0
        while [ $i -lt 12 ]; do
            dd if="$W/in_mid" bs=450 skip=$i count=1 2>/dev/null
            i=$((i + 1))
        done
        dd if="$W/in_mid" bs=5400 skip=1 2>/dev/null
    ) > "$W/in.fifo" &
    BGPIDS="$BGPIDS $!"
    cat "$W/out.fifo" > "$W/fifo_got2" &
    catpid=$!
    BGPIDS="$BGPIDS $catpid"
    encode_ok "$W/mid.alist" "$W/in.fifo" "$W/out.fifo"
    wait $catpid
    cmp -s "$W/fifo_got2" "$W/ref_mid" || fail "output differs when input and output are FIFOs"
fi

# ---------------------------------------------------------------------------
# Failures: non-zero exit status with a message, never a panic

dd if="$W/mix64" of="$W/two" bs=1 count=8 2>/dev/null
"$BIN" peg 4 4 2 0 > "$W/singular.alist" || fail "peg"
printf 'this is not an alist\n' > "$W/garbage.alist"

must_error "missing alist" "$BIN" encode "$W/nonexistent.alist" "$W/two" "$W/o1"
must_error "missing input" "$BIN" encode "$W/small.alist" "$W/nonexistent" "$W/o2"
must_error "output in a missing directory" "$BIN" encode "$W/small.alist" "$W/two" "$W/nodir/o3"
must_error "garbage alist" "$BIN" encode "$W/garbage.alist" "$W/two" "$W/o4"
must_error "empty alist" "$BIN" encode /dev/null "$W/two" "$W/o5"
must_error "singular matrix" "$BIN" encode "$W/singular.alist" "$W/two" "$W/o6"
must_error "input is a directory" "$BIN" encode "$W/small.alist" "$W" "$W/o7"
must_error "output is a directory" "$BIN" encode "$W/small.alist" "$W/two" "$W"
for p in "" "2" "1,2" "1,,0" "1,0," ",1" "a" "1;0" "1, 0" "true"; do
    must_error "puncturing pattern '$p'" "$BIN" encode "$W/small.alist" "$W/two" "$W/o8" "--puncturing=$p"
done
must_error "pattern length does not divide n" "$BIN" encode "$W/small.alist" "$W/two" "$W/o9" --puncturing 1,0,1
[ -s "$W/o9" ] && fail "output written although puncturing is impossible"
must_error "missing arguments" "$BIN" encode "$W/small.alist" "$W/two"
if [ -c /dev/full ] && [ -w /dev/full ]; then
    must_error "output device full" "$BIN" encode "$W/small.alist" "$W/two" /dev/full
    must_error "output device full (large)" "$BIN" encode "$W/mid.alist" "$W/in_mid" /dev/full
    must_error "output device full (punctured)" "$BIN" encode "$W/small.alist" "$W/two" /dev/full --puncturing 1,0
fi

# After all those failures the tool still works
check_full "$W/small.alist" "$W/two"
grep -q '^2 codewords' "$W/verdict" || fail "expected 2 codewords"

echo "C20 encode demonstration: all checks passed"
exit 0
