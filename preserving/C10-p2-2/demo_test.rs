// Demonstration for property C10: a decoder object carries no state from one
// frame to the next.
//
// This instance of the demonstration accompanies a rewrite of the horizontal
// layered decoder (check node messages reset lazily, the first time that a
// layer is processed in a frame, instead of at the beginning of every frame;
// hard decisions kept in a reused buffer). Besides the common battery, the
// horizontal layered decoders get histories in which zero-iteration calls
// (during which no layer is processed), one-iteration calls, long failures and
// calls that panic in the middle of a sweep (a check node of degree one in the
// last layers) are interleaved.
//
// For every one of the 36 decoder implementations, a family of parity check
// matrices (including matrices reached through editing histories, wide check
// nodes, degree-1 variable nodes, empty rows/columns and check nodes of
// degree 1, which make some arithmetics panic) and seeded call histories
// (successes, failures, valid codewords, 1e30 magnitudes, zeros, tiny values,
// repeated vectors, iteration limits including 0), every call on a reused
// decoder object is compared with the same call on a freshly built decoder.
// Panics are part of the comparison (a call that panics on a fresh decoder
// must panic on the reused one and vice versa, and the reused object must keep
// behaving like a fresh one afterwards).
//
// Only exactly rounded floating point operations are used to generate the
// inputs, so the outputs of the integer (i8) implementations are platform
// independent; their fingerprints are compared with constants recorded from
// the unmodified code, which shows that the rewrite is output-identical and
// not merely self-consistent.

use ldpc_toolbox::codes::ccsds::{AR4JACode, AR4JAInfoSize, AR4JARate};
use ldpc_toolbox::decoder::factory::{DecoderFactory, DecoderImplementation};
use ldpc_toolbox::decoder::{DecoderOutput, LdpcDecoder};
use ldpc_toolbox::sparse::SparseMatrix;
use std::panic::{AssertUnwindSafe, catch_unwind};
use std::sync::mpsc;
use std::time::Duration;

const IMPLEMENTATIONS: [&str; 36] = [
    "Phif64",
    "Phif32",
    "Tanhf64",
    "Tanhf32",
    "Minstarapproxf64",
    "Minstarapproxf32",
    "Minstarapproxi8",
    "Minstarapproxi8Jones",
    "Minstarapproxi8PartialHardLimit",
    "Minstarapproxi8JonesPartialHardLimit",
    "Minstarapproxi8Deg1Clip",
    "Minstarapproxi8JonesDeg1Clip",
    "Minstarapproxi8PartialHardLimitDeg1Clip",
    "Minstarapproxi8JonesPartialHardLimitDeg1Clip",
    "Aminstarf64",
    "Aminstarf32",
    "Aminstari8",
    "Aminstari8Jones",
    "Aminstari8PartialHardLimit",
    "Aminstari8JonesPartialHardLimit",
    "Aminstari8Deg1Clip",
    "Aminstari8JonesDeg1Clip",
    "Aminstari8PartialHardLimitDeg1Clip",
    "Aminstari8JonesPartialHardLimitDeg1Clip",
    "HLPhif64",
    "HLPhif32",
    "HLTanhf64",
    "HLTanhf32",
    "HLMinstarapproxf64",
    "HLMinstarapproxf32",
    "HLMinstarapproxi8",
    "HLMinstarapproxi8PartialHardLimit",
    "HLAminstarf64",
    "HLAminstarf32",
    "HLAminstari8",
    "HLAminstari8PartialHardLimit",
];

// ---------------------------------------------------------------------------
// Deterministic input generation (exactly rounded operations only)
// ---------------------------------------------------------------------------

struct Rng(u64);

impl Rng {
    fn next(&mut self) -> u64 {
        // splitmix64
        self.0 = self.0.wrapping_add(0x9E37_79B9_7F4A_7C15);
        let mut z = self.0;
        z = (z ^ (z >> 30)).wrapping_mul(0xBF58_476D_1CE4_E5B9);
        z = (z ^ (z >> 27)).wrapping_mul(0x94D0_49BB_1331_11EB);
        z ^ (z >> 31)
    }

    fn below(&mut self, n: usize) -> usize {
        (self.next() % (n as u64)) as usize
    }

    fn uniform(&mut self) -> f64 {
        (self.next() >> 11) as f64 / (1u64 << 53) as f64
    }

    // Approximately Gaussian (Irwin-Hall), additions only.
    fn gauss(&mut self) -> f64 {
        let mut s = 0.0;
        for _ in 0..12 {
            s += self.uniform();
        }
        s - 6.0
    }

    fn sign(&mut self) -> f64 {
        if self.next() & 1 == 0 { 1.0 } else { -1.0 }
    }
}

const SCALES: [f64; 13] = [
    1e-30, 1e-25, 1e-20, 1e-15, 1e-10, 1e-5, 1.0, 1e5, 1e10, 1e15, 1e20, 1e25, 1e30,
];

const NUM_KINDS: usize = 11;

fn llr_vector(rng: &mut Rng, n: usize, kind: usize, previous: &[f64]) -> Vec<f64> {
    match kind {
        // all-zero codeword, moderate noise: usually decodes in a few iterations
        0 | 1 => (0..n).map(|_| 2.0 * (1.0 + 0.8 * rng.gauss())).collect(),
        // heavy noise: usually fails
        2 => (0..n).map(|_| 1.5 * (0.3 + 1.5 * rng.gauss())).collect(),
        // valid codeword (all positive): zero iterations
        3 => (0..n).map(|_| 0.5 + 4.0 * rng.uniform()).collect(),
        // huge magnitudes, random signs
        4 => (0..n).map(|_| 1e30 * rng.sign()).collect(),
        // zeros and negative zeros
        5 => (0..n)
            .map(|_| if rng.next() & 1 == 0 { 0.0 } else { -0.0 })
            .collect(),
        // tiny magnitudes (underflow to zero in f32 and i8)
        6 => (0..n).map(|_| 1e-300 * rng.sign()).collect(),
        // every scale from 1e-30 to 1e30
        7 => (0..n)
            .map(|_| SCALES[rng.below(SCALES.len())] * rng.sign() * (0.5 + rng.uniform()))
            .collect(),
        // a few large wrong bits among good ones
        8 => (0..n)
            .map(|_| {
                if rng.below(6) == 0 {
                    -1e30
                } else {
                    3.0 + rng.gauss()
                }
            })
            .collect(),
        // values that sit on the i8 quantizer boundaries
        9 => (0..n)
            .map(|_| (rng.below(33) as f64 - 16.0) / 16.0 + if rng.below(2) == 0 { 0.0 } else { 0.0625 })
            .collect(),
        // repeat the previous vector (or moderate noise if none)
        _ => {
            if previous.len() == n {
                previous.to_vec()
            } else {
                (0..n).map(|_| 2.0 * (1.0 + 0.9 * rng.gauss())).collect()
            }
        }
    }
}

const LIMITS: [usize; 12] = [0, 1, 2, 3, 5, 10, 25, 50, 0, 1, 4, 7];

// ---------------------------------------------------------------------------
// Parity check matrices
// ---------------------------------------------------------------------------

fn johnson() -> SparseMatrix {
    let mut h = SparseMatrix::new(4, 6);
    h.insert_row(0, [0, 1, 3].iter());
    h.insert_row(1, [1, 2, 4].iter());
    h.insert_row(2, [0, 4, 5].iter());
    h.insert_row(3, [2, 3, 5].iter());
    h
}

fn hamming() -> SparseMatrix {
    let mut h = SparseMatrix::new(3, 7);
    // inserted by columns so that rows and columns have unrelated orders
    for c in (0..7usize).rev() {
        for r in 0..3 {
            if ((c + 1) >> r) & 1 == 1 {
                h.insert(r, c);
            }
        }
    }
    h
}

fn ensure_min_row_weight(rng: &mut Rng, h: &mut SparseMatrix, w: usize) {
    for r in 0..h.num_rows() {
        while h.row_weight(r) < w {
            h.insert(r, rng.below(h.num_cols()));
        }
    }
}

fn random_matrix(rng: &mut Rng, m: usize, n: usize, col_weight: usize) -> SparseMatrix {
    let mut h = SparseMatrix::new(m, n);
    for c in 0..n {
        while h.col_weight(c) < col_weight {
            h.insert(rng.below(m), c);
        }
    }
    ensure_min_row_weight(rng, &mut h, 2);
    h
}

// Matrix reached through an editing history: rows and columns end up in
// orders that are unrelated to each other and to the index order.
fn edited_matrix(rng: &mut Rng, m: usize, n: usize) -> SparseMatrix {
    let mut h = random_matrix(rng, m, n, 3);
    for _ in 0..4 * n {
        let (r, c) = (rng.below(m), rng.below(n));
        match rng.below(4) {
            0 => h.insert(r, c),
            1 => h.remove(r, c),
            2 => h.toggle(r, c),
            _ => {
                let cols: Vec<usize> = (0..3).map(|_| rng.below(n)).collect();
                h.set_row(r, cols.iter());
            }
        }
    }
    let c = rng.below(n);
    let rows: Vec<usize> = (0..3).map(|_| rng.below(m)).collect();
    h.set_col(c, rows.iter());
    ensure_min_row_weight(rng, &mut h, 2);
    h
}

// Repeat-accumulate like structure: the last column has degree 1 and a few
// information columns have degree 1 too.
fn staircase_matrix(rng: &mut Rng, m: usize, k: usize) -> SparseMatrix {
    let mut h = SparseMatrix::new(m, k + m);
    for r in 0..m {
        h.insert(r, k + r);
        if r + 1 < m {
            h.insert(r + 1, k + r);
        }
    }
    for c in 0..k {
        let w = if c % 4 == 0 { 1 } else { 3 };
        while h.col_weight(c) < w {
            h.insert(rng.below(m), c);
        }
    }
    ensure_min_row_weight(rng, &mut h, 2);
    h
}

// Few check nodes of large degree.
fn wide_matrix(rng: &mut Rng) -> SparseMatrix {
    let (m, n) = (5, 40);
    let mut h = SparseMatrix::new(m, n);
    for r in 0..m {
        let w = 9 + rng.below(12);
        while h.row_weight(r) < w {
            h.insert(r, rng.below(n));
        }
    }
    for c in 0..n {
        if h.col_weight(c) == 0 {
            h.insert(rng.below(m), c);
        }
    }
    h
}

// Matrices on which some arithmetics panic (check nodes of degree 0 and 1)
// or which have isolated variable nodes.
fn degenerate_matrices(rng: &mut Rng) -> Vec<(String, SparseMatrix)> {
    let mut v = Vec::new();
    // empty row
    let mut h = random_matrix(rng, 6, 12, 2);
    h.clear_row(3);
    v.push(("empty-row".to_string(), h));
    // row of weight one
    let mut h = random_matrix(rng, 6, 12, 2);
    h.set_row(2, [5usize].iter());
    v.push(("weight-one-row".to_string(), h));
    // empty columns
    let mut h = random_matrix(rng, 6, 12, 3);
    h.clear_col(0);
    h.clear_col(7);
    ensure_min_row_weight(rng, &mut h, 2);
    v.push(("empty-cols".to_string(), h));
    // a weight-one row at the end, so that a panic interrupts a sweep that
    // has already modified most of the state
    let mut h = random_matrix(rng, 7, 14, 3);
    h.set_row(6, [13usize].iter());
    v.push(("weight-one-last-row".to_string(), h));
    // no rows at all / no columns at all
    v.push(("no-rows".to_string(), SparseMatrix::new(0, 5)));
    v.push(("no-cols".to_string(), SparseMatrix::new(3, 0)));
    v.push(("empty".to_string(), SparseMatrix::new(0, 0)));
    // 1x1 and 1x2
    let mut h = SparseMatrix::new(1, 1);
    h.insert(0, 0);
    v.push(("1x1".to_string(), h));
    let mut h = SparseMatrix::new(1, 2);
    h.insert(0, 1);
    h.insert(0, 0);
    v.push(("1x2".to_string(), h));
    v
}

// ---------------------------------------------------------------------------
// Comparison machinery
// ---------------------------------------------------------------------------

type Outcome = Option<Result<DecoderOutput, DecoderOutput>>; // None = panicked

fn guarded_decode(decoder: &mut Box<dyn LdpcDecoder>, llrs: &[f64], limit: usize) -> Outcome {
    catch_unwind(AssertUnwindSafe(|| decoder.decode(llrs, limit))).ok()
}

fn guarded_build(implementation: DecoderImplementation, h: &SparseMatrix) -> Box<dyn LdpcDecoder> {
    implementation.build_decoder(h.clone())
}

struct Fingerprint(u64);

impl Fingerprint {
    fn new() -> Fingerprint {
        Fingerprint(0xcbf2_9ce4_8422_2325)
    }

    fn byte(&mut self, b: u8) {
        self.0 ^= u64::from(b);
        self.0 = self.0.wrapping_mul(0x0000_0100_0000_01B3);
    }

    fn word(&mut self, w: u64) {
        for b in w.to_le_bytes() {
            self.byte(b);
        }
    }

    fn outcome(&mut self, o: &Outcome) {
        match o {
            None => self.byte(2),
            Some(r) => {
                let (tag, out) = match r {
                    Ok(out) => (1, out),
                    Err(out) => (0, out),
                };
                self.byte(tag);
                self.word(out.iterations as u64);
                self.word(out.codeword.len() as u64);
                for &b in &out.codeword {
                    self.byte(b);
                }
            }
        }
    }
}

#[derive(Default)]
struct Tally {
    calls: usize,
    ok: usize,
    err: usize,
    panics: usize,
    zero_limit: usize,
    mismatches: Vec<String>,
}

fn describe(o: &Outcome) -> String {
    match o {
        None => "panic".to_string(),
        Some(Ok(out)) => format!("Ok(iterations={}, codeword={:?})", out.iterations, out.codeword),
        Some(Err(out)) => format!("Err(iterations={}, codeword={:?})", out.iterations, out.codeword),
    }
}

// Runs one call history on one reused decoder, comparing every call with a
// fresh decoder.
#[allow(clippy::too_many_arguments)]
fn run_history(
    name: &str,
    implementation: DecoderImplementation,
    matrix_name: &str,
    h: &SparseMatrix,
    seed: u64,
    length: usize,
    kinds: &[usize],
    limits: &[usize],
    fingerprint: &mut Fingerprint,
    tally: &mut Tally,
) {
    let mut rng = Rng(seed);
    let n = h.num_cols();
    let mut reused = guarded_build(implementation, h);
    let mut previous: Vec<f64> = Vec::new();
    for call in 0..length {
        let kind = kinds[rng.below(kinds.len())];
        let limit = limits[rng.below(limits.len())];
        let llrs = llr_vector(&mut rng, n, kind, &previous);
        let mut fresh = guarded_build(implementation, h);
        let expected = guarded_decode(&mut fresh, &llrs, limit);
        let got = guarded_decode(&mut reused, &llrs, limit);
        // a second call on the (now used once) fresh decoder with the same
        // arguments must give the same answer again
        let again = guarded_decode(&mut fresh, &llrs, limit);
        tally.calls += 1;
        match &expected {
            None => tally.panics += 1,
            Some(Ok(_)) => tally.ok += 1,
            Some(Err(_)) => tally.err += 1,
        }
        if limit == 0 {
            tally.zero_limit += 1;
        }
        fingerprint.outcome(&expected);
        if got != expected && tally.mismatches.len() < 20 {
            tally.mismatches.push(format!(
                "{name} on {matrix_name} seed {seed} call {call} (kind {kind}, limit {limit}): reused decoder returned {} but a fresh decoder returns {}",
                describe(&got),
                describe(&expected)
            ));
        }
        if again != expected && tally.mismatches.len() < 20 {
            tally.mismatches.push(format!(
                "{name} on {matrix_name} seed {seed} call {call} (kind {kind}, limit {limit}): second identical call returned {} after {}",
                describe(&again),
                describe(&expected)
            ));
        }
        previous = llrs;
    }
}

// Extra battery for the horizontal layered decoders.
fn extra_battery(
    name: &str,
    implementation: DecoderImplementation,
    fingerprint: &mut Fingerprint,
    tally: &mut Tally,
) {
    if !name.starts_with("HL") {
        return;
    }
    let mut rng = Rng(0x4C00_0002);
    let h = edited_matrix(&mut rng, 14, 30);
    for (seed, limits) in [
        (5001u64, &[0usize, 1, 0, 2, 30][..]),
        (5002, &[0, 0, 0, 1][..]),
        (5003, &[40, 1, 0][..]),
    ] {
        run_history(
            name,
            implementation,
            "edited-14x30",
            &h,
            seed,
            24,
            &[2, 4, 8, 2, 10, 0, 6],
            limits,
            fingerprint,
            tally,
        );
    }
    // A check node of degree one in the middle and at the end: some
    // arithmetics panic there, after the earlier layers have been updated.
    let mut h = random_matrix(&mut rng, 9, 18, 3);
    h.set_row(5, [2usize].iter());
    h.set_row(8, [17usize].iter());
    for seed in [5004u64, 5005] {
        run_history(
            name,
            implementation,
            "weight-one-rows-9x18",
            &h,
            seed,
            20,
            &all_kinds(),
            &[0, 1, 3, 0, 12],
            fingerprint,
            tally,
        );
    }
    // The same histories on a matrix with an empty layer.
    let mut h = random_matrix(&mut rng, 9, 18, 3);
    h.clear_row(4);
    run_history(
        name,
        implementation,
        "empty-layer-9x18",
        &h,
        5006,
        20,
        &all_kinds(),
        &[0, 1, 3, 0, 12],
        fingerprint,
        tally,
    );
}

fn all_kinds() -> Vec<usize> {
    (0..NUM_KINDS).collect()
}

fn body() -> Result<String, String> {
    let mut rng = Rng(0x00C1_0C10);
    let mut matrices: Vec<(String, SparseMatrix)> = vec![
        ("johnson".to_string(), johnson()),
        ("hamming".to_string(), hamming()),
        ("random-12x24".to_string(), random_matrix(&mut rng, 12, 24, 3)),
        ("random-9x30".to_string(), random_matrix(&mut rng, 9, 30, 2)),
        ("edited-10x20".to_string(), edited_matrix(&mut rng, 10, 20)),
        ("edited-8x26".to_string(), edited_matrix(&mut rng, 8, 26)),
        ("staircase-10+14".to_string(), staircase_matrix(&mut rng, 10, 14)),
        ("wide-5x40".to_string(), wide_matrix(&mut rng)),
    ];
    let regular_count = matrices.len();
    matrices.extend(degenerate_matrices(&mut rng));
    let ar4ja = AR4JACode::new(AR4JARate::R4_5, AR4JAInfoSize::K1024).h();

    let mut report = String::new();
    let mut failures: Vec<String> = Vec::new();
    let mut total = Tally::default();
    for (index, name) in IMPLEMENTATIONS.iter().enumerate() {
        let implementation: DecoderImplementation = name
            .parse()
            .map_err(|e| format!("cannot parse implementation {name}: {e}"))?;
        let mut fingerprint = Fingerprint::new();
        let mut tally = Tally::default();
        for (mi, (matrix_name, h)) in matrices.iter().enumerate() {
            let histories = if mi < regular_count { 3 } else { 2 };
            for hist in 0..histories {
                let seed = 1000 * (mi as u64 + 1) + hist as u64;
                run_history(
                    name,
                    implementation,
                    matrix_name,
                    h,
                    seed,
                    20,
                    &all_kinds(),
                    &LIMITS,
                    &mut fingerprint,
                    &mut tally,
                );
            }
        }
        // A real code (with degree-1 variable nodes), shorter history.
        run_history(
            name,
            implementation,
            "ar4ja-4/5-1024",
            &ar4ja,
            77,
            7,
            &[0, 2, 8, 7, 10, 3],
            &[0, 1, 2, 6],
            &mut fingerprint,
            &mut tally,
        );
        extra_battery(name, implementation, &mut fingerprint, &mut tally);
        report.push_str(&format!(
            "{index:2} {name:<45} fingerprint {:016x} calls {} ok {} err {} panics {} zero-limit {}\n",
            fingerprint.0, tally.calls, tally.ok, tally.err, tally.panics, tally.zero_limit
        ));
        if let Some(&(_, golden)) = GOLDEN.iter().find(|(n, _)| n == name) {
            if golden != fingerprint.0 {
                failures.push(format!(
                    "{name}: outputs differ from the ones recorded with the unmodified code (fingerprint {:016x}, recorded {golden:016x})",
                    fingerprint.0
                ));
            }
        }
        total.calls += tally.calls;
        total.ok += tally.ok;
        total.err += tally.err;
        total.panics += tally.panics;
        total.zero_limit += tally.zero_limit;
        failures.extend(tally.mismatches);
    }
    report.push_str(&format!(
        "total calls {} ok {} err {} panics {} zero-limit {}\n",
        total.calls, total.ok, total.err, total.panics, total.zero_limit
    ));
    // The battery must really contain every kind of call.
    if total.ok == 0 || total.err == 0 || total.panics == 0 || total.zero_limit == 0 {
        failures.push(format!("battery is degenerate:\n{report}"));
    }
    if failures.is_empty() {
        Ok(report)
    } else {
        Err(format!("{}\n{report}", failures.join("\n")))
    }
}

// Fingerprints of the outputs of the integer implementations, recorded with
// the unmodified code.
const GOLDEN: [(&str, u64); 20] = [
    ("Minstarapproxi8", 0x4e393c0a6a459e13),
    ("Minstarapproxi8Jones", 0x5b417469eefdd63a),
    ("Minstarapproxi8PartialHardLimit", 0x2a990f4460b279f6),
    ("Minstarapproxi8JonesPartialHardLimit", 0x3d0d1851508c78d0),
    ("Minstarapproxi8Deg1Clip", 0xf1c8c224d00a20d2),
    ("Minstarapproxi8JonesDeg1Clip", 0x0ab2f5dcf4354cdd),
    ("Minstarapproxi8PartialHardLimitDeg1Clip", 0xabdacc93de0ce404),
    ("Minstarapproxi8JonesPartialHardLimitDeg1Clip", 0x3bf5f41d45e6a5c6),
    ("Aminstari8", 0x3e52ff085a095183),
    ("Aminstari8Jones", 0xc5e6b7f324db510f),
    ("Aminstari8PartialHardLimit", 0x4570fdcfac47aee6),
    ("Aminstari8JonesPartialHardLimit", 0x592f3dbc26db4f44),
    ("Aminstari8Deg1Clip", 0x0a3e5d88d9098e02),
    ("Aminstari8JonesDeg1Clip", 0x0ea7c4397432714b),
    ("Aminstari8PartialHardLimitDeg1Clip", 0x43bbefdb96b7914f),
    ("Aminstari8JonesPartialHardLimitDeg1Clip", 0xb44beee501f1d825),
    ("HLMinstarapproxi8", 0x64e7ff69daa500ac),
    ("HLMinstarapproxi8PartialHardLimit", 0x2afc22d6735a6216),
    ("HLAminstari8", 0x6e6029fbba99d8d9),
    ("HLAminstari8PartialHardLimit", 0x448fa93d88cb5232),
];

#[test]
fn reused_decoder_equals_fresh_decoder() {
    let (tx, rx) = mpsc::channel();
    let previous_hook = std::panic::take_hook();
    // the decoders are expected to panic on some of the degenerate matrices;
    // keep the output readable
    std::panic::set_hook(Box::new(|_| {}));
    std::thread::Builder::new()
        .stack_size(16 << 20)
        .spawn(move || {
            let result = catch_unwind(body)
                .unwrap_or_else(|_| Err("the demonstration body panicked".to_string()));
            let _ = tx.send(result);
        })
        .unwrap();
    let result = rx.recv_timeout(Duration::from_secs(1500));
    std::panic::set_hook(previous_hook);
    match result {
        Ok(Ok(report)) => println!("{report}"),
        Ok(Err(failures)) => panic!("{failures}"),
        Err(_) => panic!("timed out"),
    }
}
