// ---------------------------------------------------------------------------
// Shared support code (test-local pseudorandom generator, fingerprints,
// reference graph algorithms, property checkers, timeouts).
// ---------------------------------------------------------------------------

use ldpc_toolbox::mackay_neal::{self, FillPolicy};
use ldpc_toolbox::peg;
use ldpc_toolbox::sparse::{Node, SparseMatrix};
use std::collections::VecDeque;
use std::sync::mpsc;
use std::time::Duration;

/// Runs `f` in its own thread and fails the test if it does not finish in time.
fn with_timeout<F: FnOnce() + Send + 'static>(secs: u64, f: F) {
    let (tx, rx) = mpsc::channel();
    let handle = std::thread::spawn(move || {
        f();
        let _ = tx.send(());
    });
    match rx.recv_timeout(Duration::from_secs(secs)) {
        Ok(()) => handle.join().unwrap(),
        Err(mpsc::RecvTimeoutError::Disconnected) => {
            // the closure panicked: propagate the panic
            if let Err(e) = handle.join() {
                std::panic::resume_unwind(e);
            }
            panic!("worker disappeared");
        }
        Err(mpsc::RecvTimeoutError::Timeout) => panic!("timed out after {secs} s"),
    }
}

/// Small deterministic generator for test inputs (splitmix64).
struct TestRng(u64);

impl TestRng {
    fn next(&mut self) -> u64 {
        self.0 = self.0.wrapping_add(0x9e3779b97f4a7c15);
        let mut z = self.0;
        z = (z ^ (z >> 30)).wrapping_mul(0xbf58476d1ce4e5b9);
        z = (z ^ (z >> 27)).wrapping_mul(0x94d049bb133111eb);
        z ^ (z >> 31)
    }
    fn below(&mut self, n: usize) -> usize {
        (self.next() % (n as u64)) as usize
    }
}

struct Fnv(u64);

impl Fnv {
    fn new() -> Fnv {
        Fnv(0xcbf29ce484222325)
    }
    fn byte(&mut self, b: u8) {
        self.0 ^= b as u64;
        self.0 = self.0.wrapping_mul(0x100000001b3);
    }
    fn bytes(&mut self, b: &[u8]) {
        for &x in b {
            self.byte(x);
        }
    }
    fn num(&mut self, n: u64) {
        self.bytes(&n.to_le_bytes());
    }
}

/// Fingerprint of a matrix: alist text plus the stored order of each column
/// and row.
fn fingerprint(h: &SparseMatrix) -> u64 {
    let mut f = Fnv::new();
    f.bytes(h.alist().as_bytes());
    for c in 0..h.num_cols() {
        f.num(u64::MAX);
        for &r in h.iter_col(c) {
            f.num(r as u64);
        }
    }
    for r in 0..h.num_rows() {
        f.num(u64::MAX - 1);
        for &c in h.iter_row(r) {
            f.num(c as u64);
        }
    }
    f.0
}

fn neighbours(h: &SparseMatrix, node: Node) -> Vec<Node> {
    match node {
        Node::Row(r) => h.iter_row(r).map(|&c| Node::Col(c)).collect(),
        Node::Col(c) => h.iter_col(c).map(|&r| Node::Row(r)).collect(),
    }
}

fn flat(h: &SparseMatrix, node: Node) -> usize {
    match node {
        Node::Row(r) => r,
        Node::Col(c) => h.num_rows() + c,
    }
}

/// Plain textbook breadth-first search.
fn ref_bfs(h: &SparseMatrix, root: Node) -> (Vec<Option<usize>>, Vec<Option<usize>>) {
    let n = h.num_rows() + h.num_cols();
    let mut dist: Vec<Option<usize>> = vec![None; n];
    let mut queue = VecDeque::new();
    dist[flat(h, root)] = Some(0);
    queue.push_back(root);
    while let Some(u) = queue.pop_front() {
        let d = dist[flat(h, u)].unwrap();
        for v in neighbours(h, u) {
            let slot = &mut dist[flat(h, v)];
            if slot.is_none() {
                *slot = Some(d + 1);
                queue.push_back(v);
            }
        }
    }
    let cols = dist.split_off(h.num_rows());
    (dist, cols)
}

/// Local girth with a maximum, written as a queue of (node, parent, length)
/// path heads: the first time a path head reaches an already visited node, a
/// closed walk through the root has been found.
fn ref_local_girth(h: &SparseMatrix, root: Node, max: usize) -> Option<usize> {
    let n = h.num_rows() + h.num_cols();
    let mut dist: Vec<Option<usize>> = vec![None; n];
    let mut queue: VecDeque<(Node, Option<Node>, usize)> = VecDeque::new();
    dist[flat(h, root)] = Some(0);
    queue.push_back((root, None, 0));
    while let Some((u, parent, len)) = queue.pop_front() {
        for v in neighbours(h, u) {
            if Some(v) == parent {
                continue;
            }
            let slot = &mut dist[flat(h, v)];
            if let Some(d) = *slot {
                let total = d + len + 1;
                return if total <= max { Some(total) } else { None };
            }
            *slot = Some(len + 1);
            if len + 1 < max {
                queue.push_back((v, Some(u), len + 1));
            }
        }
    }
    None
}

/// Girth by the standard algorithm: from every node, a full breadth-first
/// search; every non-tree edge (u, v) closes a walk of length
/// dist(u) + dist(v) + 1; the minimum over everything is the girth.
fn true_girth(h: &SparseMatrix) -> Option<usize> {
    let n = h.num_rows() + h.num_cols();
    let mut best: Option<usize> = None;
    let all_nodes = (0..h.num_rows())
        .map(Node::Row)
        .chain((0..h.num_cols()).map(Node::Col));
    for root in all_nodes {
        let mut dist: Vec<Option<usize>> = vec![None; n];
        let mut parent: Vec<Option<Node>> = vec![None; n];
        let mut queue = VecDeque::new();
        dist[flat(h, root)] = Some(0);
        queue.push_back(root);
        while let Some(u) = queue.pop_front() {
            let du = dist[flat(h, u)].unwrap();
            for v in neighbours(h, u) {
                if parent[flat(h, u)] == Some(v) {
                    continue;
                }
                match dist[flat(h, v)] {
                    None => {
                        dist[flat(h, v)] = Some(du + 1);
                        parent[flat(h, v)] = Some(u);
                        queue.push_back(v);
                    }
                    Some(dv) => {
                        let len = du + dv + 1;
                        if best.is_none_or(|b| len < b) {
                            best = Some(len);
                        }
                    }
                }
            }
        }
    }
    best
}

fn random_matrix(rng: &mut TestRng, nrows: usize, ncols: usize, ones: usize) -> SparseMatrix {
    let mut h = SparseMatrix::new(nrows, ncols);
    if nrows > 0 && ncols > 0 {
        for _ in 0..ones {
            h.insert(rng.below(nrows), rng.below(ncols));
        }
    }
    h
}

fn mn_config(
    nrows: usize,
    ncols: usize,
    wr: usize,
    wc: usize,
    backtrack: (usize, usize),
    girth: (Option<usize>, usize),
    fill_policy: FillPolicy,
) -> mackay_neal::Config {
    mackay_neal::Config {
        nrows,
        ncols,
        wr,
        wc,
        backtrack_cols: backtrack.0,
        backtrack_trials: backtrack.1,
        min_girth: girth.0,
        girth_trials: girth.1,
        fill_policy,
    }
}

/// Checks everything the property promises about one MacKay-Neal run and
/// returns a fingerprint of the outcome.
fn check_mackay_neal(conf: &mackay_neal::Config, seed: u64) -> u64 {
    let outcome = conf.run(seed);
    let again = conf.run(seed);
    assert_eq!(outcome, again, "not reproducible: {conf:?} seed {seed}");
    match outcome {
        Ok(h) => {
            assert_eq!(h.num_rows(), conf.nrows);
            assert_eq!(h.num_cols(), conf.ncols);
            for c in 0..conf.ncols {
                assert_eq!(h.col_weight(c), conf.wc, "{conf:?} seed {seed} col {c}");
                // the column really has wc distinct rows
                let mut rows: Vec<usize> = h.iter_col(c).copied().collect();
                rows.sort_unstable();
                rows.dedup();
                assert_eq!(rows.len(), conf.wc);
                for &r in &rows {
                    assert!(h.contains(r, c));
                    assert!(h.iter_row(r).any(|&x| x == c));
                }
            }
            let weights: Vec<usize> = (0..conf.nrows).map(|r| h.row_weight(r)).collect();
            for &w in &weights {
                assert!(w <= conf.wr, "{conf:?} seed {seed} row weight {w}");
            }
            assert_eq!(weights.iter().sum::<usize>(), conf.wc * conf.ncols);
            if let Some(g) = conf.min_girth {
                if let Some(actual) = true_girth(&h) {
                    assert!(actual >= g, "{conf:?} seed {seed}: girth {actual} < {g}");
                }
                assert_eq!(h.girth_with_max(g.saturating_sub(1)), None);
            } else if conf.fill_policy == FillPolicy::Uniform && conf.nrows > 0 {
                let lo = weights.iter().min().unwrap();
                let hi = weights.iter().max().unwrap();
                assert!(hi - lo <= 1, "{conf:?} seed {seed}: weights {weights:?}");
            }
            assert_eq!(h.alist(), again.unwrap().alist());
            fingerprint(&h)
        }
        Err(e) => {
            assert!(
                e == mackay_neal::Error::NoMoreBacktrack || e == mackay_neal::Error::NoMoreTrials,
                "{conf:?} seed {seed}: unexpected error {e:?}"
            );
            assert!(!e.to_string().is_empty());
            match e {
                mackay_neal::Error::NoMoreBacktrack => 1,
                _ => 2,
            }
        }
    }
}

/// Checks the seed search against running every seed of the range.
fn check_search(conf: &mackay_neal::Config, start: u64, tries: u64) -> u64 {
    let found = conf.search(start, tries);
    match found {
        Some((seed, h)) => {
            assert!(seed >= start && seed < start + tries, "seed {seed} out of range");
            let direct = conf.run(seed).expect("search returned a failing seed");
            assert_eq!(h, direct);
            assert_eq!(h.alist(), direct.alist());
            assert_eq!(fingerprint(&h), fingerprint(&direct));
            1
        }
        None => {
            for s in start..start + tries {
                assert!(conf.run(s).is_err(), "search missed good seed {s}: {conf:?}");
            }
            0
        }
    }
}

/// Replays a PEG result edge by edge (columns in order, rows of each column in
/// stored order) and checks that every edge obeyed the selection rule on the
/// graph that existed when it was placed. Returns a fingerprint.
fn check_peg(conf: &peg::Config, seed: u64) -> u64 {
    let outcome = conf.run(seed);
    assert_eq!(outcome, conf.run(seed), "not reproducible: {conf:?} seed {seed}");
    match outcome {
        Ok(h) => {
            assert_eq!(h.num_rows(), conf.nrows);
            assert_eq!(h.num_cols(), conf.ncols);
            let expected_weight = conf.wc.min(conf.nrows);
            let mut g = SparseMatrix::new(conf.nrows, conf.ncols);
            for c in 0..conf.ncols {
                assert_eq!(h.col_weight(c), expected_weight, "{conf:?} seed {seed} col {c}");
                for &r in h.iter_col(c) {
                    let (row_dist, _) = ref_bfs(&g, Node::Col(c));
                    assert_eq!(g.bfs(Node::Col(c)).row_nodes_distance, row_dist);
                    // candidates: unreachable checks, or else the farthest ones
                    let unreachable: Vec<usize> =
                        (0..conf.nrows).filter(|&j| row_dist[j].is_none()).collect();
                    let candidates = if !unreachable.is_empty() {
                        unreachable
                    } else {
                        let far = row_dist.iter().map(|d| d.unwrap()).max().unwrap();
                        (0..conf.nrows)
                            .filter(|&j| row_dist[j] == Some(far))
                            .collect()
                    };
                    let least = candidates.iter().map(|&j| g.row_weight(j)).min().unwrap();
                    assert!(
                        candidates.contains(&r) && g.row_weight(r) == least,
                        "{conf:?} seed {seed}: edge ({r}, {c}) breaks the selection rule"
                    );
                    assert!(!g.contains(r, c));
                    g.insert(r, c);
                }
            }
            assert_eq!(g, h);
            fingerprint(&h)
        }
        Err(e) => {
            assert_eq!(e, peg::Error::NoAvailRows);
            // only possible when there is no check node to connect to
            assert!(conf.nrows == 0 && conf.wc > 0 && conf.ncols > 0);
            assert!(!e.to_string().is_empty());
            3
        }
    }
}

/// A spread of MacKay-Neal configurations: both policies, with and without
/// girth constraint, with and without backtracking, degenerate sizes.
fn mn_configs() -> Vec<mackay_neal::Config> {
    use FillPolicy::{Random, Uniform};
    let mut v = Vec::new();
    for &policy in &[Random, Uniform] {
        v.push(mn_config(4, 8, 4, 2, (0, 0), (None, 0), policy));
        v.push(mn_config(6, 12, 6, 3, (2, 5), (None, 0), policy));
        v.push(mn_config(10, 20, 6, 3, (1, 3), (None, 0), policy));
        v.push(mn_config(10, 20, 7, 3, (3, 10), (Some(4), 0), policy));
        v.push(mn_config(12, 24, 6, 3, (2, 20), (Some(6), 50), policy));
        v.push(mn_config(30, 60, 7, 3, (4, 40), (Some(6), 300), policy));
        v.push(mn_config(30, 45, 3, 2, (3, 30), (Some(8), 300), policy));
        v.push(mn_config(40, 60, 3, 2, (3, 30), (Some(10), 500), policy));
        v.push(mn_config(45, 60, 6, 4, (0, 0), (Some(6), 400), policy));
        v.push(mn_config(25, 50, 6, 3, (2, 10), (Some(6), 150), policy));
        v.push(mn_config(9, 30, 10, 3, (5, 8), (None, 0), policy));
        v.push(mn_config(7, 15, 5, 2, (1, 1), (Some(1), 0), policy));
        v.push(mn_config(7, 15, 5, 2, (1, 1), (Some(2), 0), policy));
        v.push(mn_config(7, 15, 5, 2, (1, 1), (Some(5), 3), policy));
        // all rows needed for each column
        v.push(mn_config(3, 5, 5, 3, (0, 0), (None, 0), policy));
        v.push(mn_config(3, 5, 5, 3, (0, 0), (Some(4), 10), policy));
        // impossible: not enough room
        v.push(mn_config(3, 5, 2, 2, (2, 4), (None, 0), policy));
        v.push(mn_config(2, 4, 4, 3, (1, 2), (None, 0), policy));
        // degenerate
        v.push(mn_config(0, 0, 0, 0, (0, 0), (None, 0), policy));
        v.push(mn_config(5, 0, 3, 2, (0, 0), (Some(6), 0), policy));
        v.push(mn_config(0, 4, 3, 0, (0, 0), (None, 0), policy));
        v.push(mn_config(0, 4, 3, 1, (1, 1), (None, 0), policy));
        v.push(mn_config(5, 7, 3, 0, (0, 0), (Some(4), 0), policy));
        v.push(mn_config(5, 7, 0, 1, (2, 2), (None, 0), policy));
        v.push(mn_config(1, 6, 6, 1, (0, 0), (Some(100), 0), policy));
        v.push(mn_config(50, 100, 8, 3, (0, 0), (None, 0), policy));
        v.push(mn_config(24, 48, 6, 3, (0, 0), (None, 0), policy));
    }
    v
}

fn peg_configs() -> Vec<peg::Config> {
    let c = |nrows, ncols, wc| peg::Config { nrows, ncols, wc };
    vec![
        c(4, 8, 2),
        c(6, 12, 3),
        c(10, 20, 3),
        c(15, 30, 4),
        c(20, 25, 2),
        c(3, 6, 3),
        c(3, 6, 5),
        c(1, 4, 2),
        c(5, 1, 5),
        c(0, 0, 0),
        c(0, 3, 0),
        c(0, 3, 2),
        c(4, 0, 2),
        c(6, 9, 0),
        c(12, 12, 6),
    ]
}
// Demonstration for the rewrite of the storage of SparseMatrix, the container
// in which both pseudorandom constructions build their result. The matrix is
// driven with long random sequences of every mutating operation and compared,
// after each step, with a plain model (one Vec per row and per column, ones in
// insertion order). The constructions are then checked clause by clause and
// compared with fingerprints taken before the rewrite.

const GOLDEN_MN: u64 = 0xe69087c9909fa6f2;
const GOLDEN_PEG: u64 = 0x847530645738a113;
const GOLDEN_OPS: u64 = 0x9c8e6e42417bdad5;

mod mirror {
    /// Same name and field names as the real thing, so that the derived Debug
    /// output can be compared.
    #[derive(Debug, Clone, PartialEq, Eq)]
    pub struct SparseMatrix {
        pub rows: Vec<Vec<usize>>,
        pub cols: Vec<Vec<usize>>,
    }
}

use mirror::SparseMatrix as Model;

impl Model {
    fn new(nrows: usize, ncols: usize) -> Model {
        Model {
            rows: vec![Vec::new(); nrows],
            cols: vec![Vec::new(); ncols],
        }
    }
    fn contains(&self, row: usize, col: usize) -> bool {
        self.cols[col].contains(&row)
    }
    fn insert(&mut self, row: usize, col: usize) {
        if !self.contains(row, col) {
            self.rows[row].push(col);
            self.cols[col].push(row);
        }
    }
    fn remove(&mut self, row: usize, col: usize) {
        self.rows[row].retain(|&c| c != col);
        self.cols[col].retain(|&r| r != row);
    }
    fn clear_row(&mut self, row: usize) {
        for c in std::mem::take(&mut self.rows[row]) {
            self.cols[c].retain(|&r| r != row);
        }
    }
    fn clear_col(&mut self, col: usize) {
        for r in std::mem::take(&mut self.cols[col]) {
            self.rows[r].retain(|&c| c != col);
        }
    }
    fn alist(&self, padding: bool) -> String {
        let mut s = String::new();
        let maxw = |v: &Vec<Vec<usize>>| v.iter().map(|l| l.len()).max().unwrap_or(0);
        s += &format!("{} {}\n", self.cols.len(), self.rows.len());
        s += &format!("{} {}\n", maxw(&self.cols), maxw(&self.rows));
        for dir in [&self.cols, &self.rows] {
            let w: Vec<String> = dir.iter().map(|l| l.len().to_string()).collect();
            s += &w.join(" ");
            s += "\n";
        }
        for dir in [&self.cols, &self.rows] {
            let width = maxw(dir);
            for line in dir {
                let mut v = line.clone();
                v.sort_unstable();
                let mut items: Vec<String> = v.iter().map(|x| (x + 1).to_string()).collect();
                if padding {
                    if items.is_empty() {
                        items.push("0".to_string());
                    }
                    while items.len() < width {
                        items.push("0".to_string());
                    }
                }
                s += &items.join(" ");
                s += "\n";
            }
        }
        s
    }
}

fn assert_same(h: &SparseMatrix, m: &Model, thorough: bool) {
    assert_eq!(h.num_rows(), m.rows.len());
    assert_eq!(h.num_cols(), m.cols.len());
    for r in 0..m.rows.len() {
        assert_eq!(h.row_weight(r), m.rows[r].len());
        assert_eq!(h.iter_row(r).copied().collect::<Vec<_>>(), m.rows[r], "row {r}");
        assert_eq!(h.iter_row(r).len(), m.rows[r].len());
    }
    for c in 0..m.cols.len() {
        assert_eq!(h.col_weight(c), m.cols[c].len());
        assert_eq!(h.iter_col(c).copied().collect::<Vec<_>>(), m.cols[c], "col {c}");
    }
    if thorough {
        for r in 0..m.rows.len() + 2 {
            for c in 0..m.cols.len() {
                let expected = r < m.rows.len() && m.contains(r, c);
                assert_eq!(h.contains(r, c), expected, "contains({r}, {c})");
            }
        }
        let all: Vec<(usize, usize)> = h.iter_all().collect();
        let expected: Vec<(usize, usize)> = m
            .rows
            .iter()
            .enumerate()
            .flat_map(|(r, l)| l.iter().map(move |&c| (r, c)))
            .collect();
        assert_eq!(all, expected);
        assert_eq!(h.alist(), m.alist(true));
        assert_eq!(h.alist_no_padding(), m.alist(false));
        let mut written = String::new();
        h.write_alist(&mut written).unwrap();
        assert_eq!(written, m.alist(true));
        for text in [h.alist(), h.alist_no_padding()] {
            let back = SparseMatrix::from_alist(&text).unwrap();
            assert_eq!(back.alist(), h.alist());
            assert_eq!(back.num_rows(), h.num_rows());
            assert_eq!(back.num_cols(), h.num_cols());
        }
        assert_eq!(format!("{h:?}"), format!("{m:?}"));
        assert_eq!(format!("{h:#?}"), format!("{m:#?}"));
        // a copy is equal, independent, and equal to its own copy
        let copy = h.clone();
        assert_eq!(&copy, h);
        assert_eq!(copy.clone(), copy);
        assert_same(&copy, m, false);
    }
}

/// Applies one random operation to the matrix and to the model.
fn random_op(rng: &mut TestRng, h: &mut SparseMatrix, m: &mut Model, f: &mut Fnv) {
    let nrows = m.rows.len();
    let ncols = m.cols.len();
    let r = rng.below(nrows);
    let c = rng.below(ncols);
    let op = rng.below(20);
    f.num(op as u64);
    match op {
        0..=7 => {
            h.insert(r, c);
            m.insert(r, c);
        }
        8..=9 => {
            h.remove(r, c);
            m.remove(r, c);
        }
        10..=11 => {
            h.toggle(r, c);
            if m.contains(r, c) {
                m.remove(r, c);
            } else {
                m.insert(r, c);
            }
        }
        12 => {
            h.clear_row(r);
            m.clear_row(r);
        }
        13 => {
            h.clear_col(c);
            m.clear_col(c);
        }
        14 | 15 => {
            // lists with repetitions, given as values and as references
            let list: Vec<usize> = (0..rng.below(ncols + 3)).map(|_| rng.below(ncols)).collect();
            if op == 14 {
                h.insert_row(r, list.iter());
            } else {
                h.set_row(r, list.clone().into_iter());
                m.clear_row(r);
            }
            for &x in &list {
                m.insert(r, x);
            }
        }
        16 | 17 => {
            let list: Vec<usize> = (0..rng.below(nrows + 3)).map(|_| rng.below(nrows)).collect();
            if op == 16 {
                h.insert_col(c, list.clone().into_iter());
            } else {
                h.set_col(c, list.iter());
                m.clear_col(c);
            }
            for &x in &list {
                m.insert(x, c);
            }
        }
        _ => {
            // what the MacKay-Neal backtracking does: wipe the last few columns
            let b = rng.below(4).min(ncols);
            for col in ncols - b..ncols {
                h.clear_col(col);
                m.clear_col(col);
            }
        }
    }
}

#[test]
fn matrix_behaves_like_the_model() {
    with_timeout(900, || {
        let mut rng = TestRng(31337);
        let mut f = Fnv::new();
        for (nrows, ncols, steps) in [
            (1usize, 1usize, 60usize),
            (1, 9, 200),
            (9, 1, 200),
            (2, 2, 200),
            (5, 7, 800),
            (12, 12, 1500),
            (30, 8, 1500),
            (8, 30, 1500),
            (40, 60, 2500),
        ] {
            let mut h = SparseMatrix::new(nrows, ncols);
            let mut m = Model::new(nrows, ncols);
            assert_same(&h, &m, true);
            // a second pair receives the same operations starting from copies
            // taken at some point, a third pair receives different operations
            let mut twin: Option<(SparseMatrix, Model)> = None;
            for step in 0..steps {
                let mut fork = TestRng(rng.0);
                random_op(&mut rng, &mut h, &mut m, &mut f);
                if let Some((th, tm)) = twin.as_mut() {
                    random_op(&mut fork, th, tm, &mut Fnv::new());
                    assert_eq!(*th == h, *tm == m);
                    assert!(*th == h);
                }
                assert_same(&h, &m, step % 16 == 0 || step + 1 == steps);
                if step == steps / 3 {
                    twin = Some((h.clone(), m.clone()));
                }
                if step % 97 == 0 {
                    let mut oh = h.clone();
                    let mut om = m.clone();
                    let mut other = TestRng(step as u64);
                    for _ in 0..5 {
                        random_op(&mut other, &mut oh, &mut om, &mut Fnv::new());
                        assert_eq!(oh == h, om == m);
                        assert_eq!(h == oh, m == om);
                    }
                    assert_same(&oh, &om, true);
                    assert_same(&h, &m, false);
                }
            }
            f.num(fingerprint(&h));
        }
        assert_eq!(f.0, GOLDEN_OPS, "fingerprint of operation sequences is {:#x}", f.0);
    });
}

#[test]
fn lines_that_grow_shrink_and_grow_again() {
    with_timeout(600, || {
        // one very long row and one very long column that grow in turns with
        // everything else, then get wiped and refilled in a different order
        let n = 700;
        let mut h = SparseMatrix::new(n, n);
        let mut m = Model::new(n, n);
        for round in 0..3 {
            for j in 0..n {
                let k = (j * 37 + round * 11) % n;
                for (r, c) in [(0, k), (k, 0), (k, (k * 7 + 1) % n), ((k * 5 + 2) % n, k)] {
                    h.insert(r, c);
                    m.insert(r, c);
                }
                if j % 50 == 0 {
                    assert_same(&h, &m, false);
                }
            }
            assert_same(&h, &m, false);
            assert_eq!(h.row_weight(0), n);
            assert_eq!(h.col_weight(0), n);
            if round < 2 {
                h.clear_row(0);
                m.clear_row(0);
                for c in (0..n).step_by(3) {
                    h.clear_col(c);
                    m.clear_col(c);
                }
                assert_same(&h, &m, false);
            }
        }
        assert_eq!(h.alist(), m.alist(true));
        let copy = h.clone();
        assert_eq!(copy, h);
        assert_same(&copy, &m, false);
        // equality looks at the order of the ones, not just at their positions
        let mut a = SparseMatrix::new(2, 3);
        let mut b = SparseMatrix::new(2, 3);
        a.insert(0, 1);
        a.insert(0, 2);
        b.insert(0, 2);
        b.insert(0, 1);
        assert_eq!(a.alist(), b.alist());
        assert_ne!(a, b);
        b.remove(0, 2);
        b.insert(0, 2);
        assert_eq!(a, b);
        assert_ne!(SparseMatrix::new(2, 3), SparseMatrix::new(3, 2));
        assert_ne!(SparseMatrix::new(0, 3), SparseMatrix::new(0, 2));
        assert_eq!(SparseMatrix::new(0, 0), SparseMatrix::new(0, 0));
        assert_eq!(SparseMatrix::new(0, 0).alist(), "0 0\n0 0\n\n\n");
        assert_eq!(format!("{:?}", SparseMatrix::new(0, 1)), "SparseMatrix { rows: [], cols: [[]] }");
    });
}

#[test]
fn positions_outside_the_matrix() {
    with_timeout(60, || {
        use std::panic::{AssertUnwindSafe, catch_unwind};
        let mut h = SparseMatrix::new(3, 4);
        h.insert(2, 3);
        h.insert(0, 3);
        // a row beyond the end contains nothing; a column beyond the end is an error
        assert!(!h.contains(3, 3));
        assert!(!h.contains(1000, 0));
        assert!(catch_unwind(|| h.contains(0, 4)).is_err());
        assert!(catch_unwind(|| h.row_weight(3)).is_err());
        assert!(catch_unwind(|| h.col_weight(4)).is_err());
        assert!(catch_unwind(|| h.iter_row(3).count()).is_err());
        assert!(catch_unwind(|| h.iter_col(4).count()).is_err());
        assert!(catch_unwind(AssertUnwindSafe(|| h.insert(3, 0))).is_err());
        assert!(catch_unwind(AssertUnwindSafe(|| h.insert(0, 4))).is_err());
        assert!(catch_unwind(AssertUnwindSafe(|| h.clear_row(3))).is_err());
        assert!(catch_unwind(AssertUnwindSafe(|| h.clear_col(4))).is_err());
        assert!(catch_unwind(AssertUnwindSafe(|| h.remove(3, 0))).is_err());
        // none of that left a trace
        let mut m = Model::new(3, 4);
        m.insert(2, 3);
        m.insert(0, 3);
        assert_same(&h, &m, true);
    });
}

#[test]
fn mackay_neal_honours_configuration() {
    with_timeout(900, || {
        let mut f = Fnv::new();
        for conf in mn_configs() {
            let mut distinct = std::collections::HashSet::new();
            for seed in 0..24u64 {
                let seed = seed * 0xabcdef + 17;
                let fp = check_mackay_neal(&conf, seed);
                f.num(fp);
                distinct.insert(fp);
                // results can be copied, compared and printed like any matrix
                if let Ok(h) = conf.run(seed) {
                    let copy = h.clone();
                    assert_eq!(copy, h);
                    assert_eq!(fingerprint(&copy), fp);
                    let back = SparseMatrix::from_alist(&h.alist()).unwrap();
                    assert_eq!(back.alist(), h.alist());
                }
            }
            if conf.nrows == 50 {
                assert!(distinct.len() > 12, "seeds do not explore different choices");
            }
        }
        assert_eq!(f.0, GOLDEN_MN, "fingerprint of MacKay-Neal results is {:#x}", f.0);
    });
}

#[test]
fn mackay_neal_heavy_backtracking() {
    // many columns wiped and rebuilt: the storage of the wiped lines is reused
    with_timeout(900, || {
        let mut ok = 0;
        for policy in [FillPolicy::Random, FillPolicy::Uniform] {
            for seed in 0..30u64 {
                let conf = mn_config(24, 48, 6, 3, (6, 200), (None, 0), policy);
                if check_mackay_neal(&conf, seed) > 3 {
                    ok += 1;
                }
                let conf = mn_config(30, 45, 3, 2, (8, 100), (Some(8), 2000), policy);
                if check_mackay_neal(&conf, seed) > 3 {
                    ok += 1;
                }
            }
        }
        assert!(ok > 60);
    });
}

#[test]
fn mackay_neal_seed_search() {
    with_timeout(900, || {
        let mut found = 0;
        let mut total = 0;
        for conf in mn_configs() {
            for (start, tries) in [(0u64, 0u64), (5, 1), (100, 7), (u64::MAX - 9, 9)] {
                found += check_search(&conf, start, tries);
                total += 1;
            }
        }
        assert!(found > 0 && found < total);
    });
}

#[test]
fn peg_follows_selection_rule() {
    with_timeout(900, || {
        let mut f = Fnv::new();
        for conf in peg_configs() {
            let mut distinct = std::collections::HashSet::new();
            for seed in 0..12u64 {
                let fp = check_peg(&conf, seed * 131 + 5);
                f.num(fp);
                distinct.insert(fp);
            }
            if conf.nrows == 15 {
                assert!(distinct.len() > 6, "seeds do not explore different choices");
            }
        }
        assert_eq!(f.0, GOLDEN_PEG, "fingerprint of PEG results is {:#x}", f.0);
    });
}
