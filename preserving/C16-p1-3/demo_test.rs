// Demo test for change 3 (src/util.rs: sort_by_random_sel finds the block of
// tied elements by binary search and reuses the sorted vector;
// sort_by_random_min collects the tied minima in a single pass; src/peg.rs: the
// first edge of each column is placed without running a BFS, the remaining ones
// through a separate function).
//
// The helpers are private, so they are exercised through their two users: the
// PEG construction (sort_by_random_min) and the MacKay-Neal construction with
// the uniform fill policy (sort_by_random_sel). The stated guarantees are
// checked by replaying the constructions, and the exact reproducibility of the
// results is checked against golden digests obtained with the unchanged code.

use ldpc_toolbox::mackay_neal::{self, FillPolicy};
use ldpc_toolbox::peg;
use ldpc_toolbox::sparse::{Node, SparseMatrix};
use std::collections::{BTreeSet, VecDeque};
use std::process::Command;

fn fnv1a(hash: &mut u64, data: &[u8]) {
    for &b in data {
        *hash ^= b as u64;
        *hash = hash.wrapping_mul(0x100000001b3);
    }
}

const FNV_INIT: u64 = 0xcbf29ce484222325;

fn digest_matrix(digest: &mut u64, h: &SparseMatrix) {
    fnv1a(digest, h.alist().as_bytes());
    // the order of insertion is part of the result
    for c in 0..h.num_cols() {
        for &r in h.iter_col(c) {
            fnv1a(digest, &(r as u32).to_le_bytes());
        }
    }
    for r in 0..h.num_rows() {
        for &c in h.iter_row(r) {
            fnv1a(digest, &(c as u32).to_le_bytes());
        }
    }
}

/// Distances from a column node to all the row nodes (independent BFS).
fn row_distances(h: &SparseMatrix, col: usize) -> Vec<Option<usize>> {
    let mut rows: Vec<Option<usize>> = vec![None; h.num_rows()];
    let mut cols: Vec<Option<usize>> = vec![None; h.num_cols()];
    cols[col] = Some(0);
    let mut queue = VecDeque::new();
    queue.push_back(Node::Col(col));
    while let Some(n) = queue.pop_front() {
        match n {
            Node::Col(c) => {
                for &r in h.iter_col(c) {
                    if rows[r].is_none() {
                        rows[r] = Some(cols[c].unwrap() + 1);
                        queue.push_back(Node::Row(r));
                    }
                }
            }
            Node::Row(r) => {
                for &c in h.iter_row(r) {
                    if cols[c].is_none() {
                        cols[c] = Some(rows[r].unwrap() + 1);
                        queue.push_back(Node::Col(c));
                    }
                }
            }
        }
    }
    rows
}

/// Replays a PEG result edge by edge (the edges of a column are stored in
/// insertion order) and checks that each edge went to a check node that, at
/// that time, was unreachable from the column (or, if all were reachable, at
/// maximal distance) and of minimum degree among those. Returns how many edges
/// had more than one admissible check node.
fn check_peg(conf: &peg::Config, h: &SparseMatrix) -> usize {
    assert_eq!(h.num_rows(), conf.nrows);
    assert_eq!(h.num_cols(), conf.ncols);
    let mut ties = 0;
    let mut g = SparseMatrix::new(conf.nrows, conf.ncols);
    for c in 0..conf.ncols {
        assert_eq!(h.col_weight(c), conf.wc.min(conf.nrows), "{conf:?}");
        for (k, &r) in h.iter_col(c).enumerate() {
            let dist = row_distances(&g, c);
            if k == 0 {
                assert!(dist.iter().all(|d| d.is_none()));
            }
            let unreachable: Vec<usize> = (0..conf.nrows).filter(|&j| dist[j].is_none()).collect();
            let candidates = if !unreachable.is_empty() {
                unreachable
            } else {
                let far = dist.iter().map(|d| d.unwrap()).max().unwrap();
                (0..conf.nrows).filter(|&j| dist[j] == Some(far)).collect()
            };
            let min_degree = candidates.iter().map(|&j| g.row_weight(j)).min().unwrap();
            let admissible: Vec<usize> = candidates
                .into_iter()
                .filter(|&j| g.row_weight(j) == min_degree)
                .collect();
            assert!(
                admissible.contains(&r),
                "{conf:?}: col {c} edge {k} went to {r}, admissible {admissible:?}"
            );
            if admissible.len() > 1 {
                ties += 1;
            }
            g.insert(r, c);
        }
    }
    assert_eq!(&g, h);
    ties
}

#[test]
fn peg_grid() {
    let mut digest = FNV_INIT;
    let mut total_ties = 0;
    let mut runs = 0;
    for (nrows, ncols, wc) in [
        (1, 1, 1),
        (1, 1, 4),
        (1, 6, 2),
        (2, 2, 2),
        (2, 7, 1),
        (3, 5, 3),
        (3, 5, 7), // column weight larger than the number of rows
        (4, 8, 2),
        (5, 10, 1),
        (6, 12, 3),
        (8, 8, 4),
        (10, 20, 3),
        (16, 24, 4),
        (7, 30, 2),
        (20, 25, 5),
        (30, 12, 3), // more rows than edges in total
        (5, 3, 0),   // zero column weight
        (4, 0, 2),   // no columns
        (0, 0, 3),   // nothing at all
        (0, 4, 0),   // no rows but nothing to place either
    ] {
        let conf = peg::Config { nrows, ncols, wc };
        let mut distinct = BTreeSet::new();
        for seed in (0..10u64).chain([12345678901234567890, u64::MAX]) {
            let h = conf.run(seed).unwrap();
            assert_eq!(h, conf.clone().run(seed).unwrap(), "not reproducible");
            total_ties += check_peg(&conf, &h);
            digest_matrix(&mut digest, &h);
            distinct.insert(h.alist());
            runs += 1;
        }
        if nrows >= 4 && ncols >= 8 && wc >= 1 {
            assert!(distinct.len() >= 6, "seeds hardly matter for {conf:?}");
        }
    }
    assert_eq!(runs, 240);
    assert!(total_ties > 2000, "{total_ties}");
    assert_eq!(
        digest, GOLDEN_PEG,
        "PEG results differ from those of the reference code"
    );
}

#[test]
fn peg_without_rows_fails() {
    for (ncols, wc) in [(1, 1), (3, 1), (2, 5)] {
        for seed in 0..3 {
            let conf = peg::Config {
                nrows: 0,
                ncols,
                wc,
            };
            assert_eq!(conf.run(seed), Err(peg::Error::NoAvailRows));
        }
    }
}

#[test]
fn peg_tie_break_is_spread_out() {
    // First edge of the first column: all the rows are tied, so over many
    // seeds every row should be chosen some of the time.
    let conf = peg::Config {
        nrows: 6,
        ncols: 1,
        wc: 1,
    };
    let mut counts = [0usize; 6];
    for seed in 0..600u64 {
        let h = conf.run(seed).unwrap();
        counts[*h.iter_col(0).next().unwrap()] += 1;
    }
    for &c in &counts {
        assert!((50..=150).contains(&c), "{counts:?}");
    }
    let mut digest = FNV_INIT;
    for &c in &counts {
        fnv1a(&mut digest, &(c as u32).to_le_bytes());
    }
    assert_eq!(digest, GOLDEN_TIE_BREAK, "{counts:?}");
}

/// Replays a MacKay-Neal result obtained with the uniform policy and no
/// backtracking or girth constraint: each column must take rows of the least
/// weight possible.
fn check_uniform(conf: &mackay_neal::Config, h: &SparseMatrix) {
    assert_eq!(h.num_rows(), conf.nrows);
    assert_eq!(h.num_cols(), conf.ncols);
    let mut weights = vec![0usize; conf.nrows];
    for c in 0..conf.ncols {
        let rows: Vec<usize> = h.iter_col(c).copied().collect();
        assert_eq!(rows.len(), conf.wc, "{conf:?}");
        assert_eq!(rows.iter().collect::<BTreeSet<_>>().len(), conf.wc);
        // it is not possible to exchange a chosen row for one that was not
        // chosen and has strictly less weight
        let max_chosen = rows.iter().map(|&r| weights[r]).max();
        let min_not_chosen = (0..conf.nrows)
            .filter(|r| !rows.contains(r))
            .map(|r| weights[r])
            .min();
        if let (Some(a), Some(b)) = (max_chosen, min_not_chosen) {
            assert!(a <= b, "{conf:?}: column {c}");
        }
        for &r in &rows {
            weights[r] += 1;
        }
        assert!(weights.iter().all(|&w| w <= conf.wr), "{conf:?}");
        if let (Some(min), Some(max)) = (weights.iter().min(), weights.iter().max()) {
            assert!(max - min <= 1, "{conf:?}: {weights:?}");
        }
    }
    for r in 0..conf.nrows {
        assert_eq!(h.row_weight(r), weights[r]);
    }
}

#[test]
fn mackay_neal_uniform_grid() {
    let mut digest = FNV_INIT;
    let mut ok = 0;
    let mut failed = 0;
    for (nrows, ncols, wr, wc) in [
        (4, 8, 4, 2),
        (6, 12, 6, 3),
        (10, 20, 4, 2),
        (10, 20, 7, 3),
        (7, 9, 3, 2),  // the last column does not fit exactly
        (7, 10, 3, 2), // one more column, still fits
        (7, 11, 3, 2), // fails at the last column
        (5, 10, 10, 5), // every column takes all the rows
        (5, 4, 10, 6), // column weight larger than the number of rows
        (9, 30, 10, 1),
        (13, 11, 5, 4),
        (6, 5, 100, 0), // zero column weight
        (0, 3, 2, 0),
        (0, 3, 2, 1),
        (3, 0, 2, 2),
    ] {
        let conf = mackay_neal::Config {
            nrows,
            ncols,
            wr,
            wc,
            backtrack_cols: 0,
            backtrack_trials: 0,
            min_girth: None,
            girth_trials: 0,
            fill_policy: FillPolicy::Uniform,
        };
        let mut distinct = BTreeSet::new();
        for seed in 0..12u64 {
            let result = conf.run(seed);
            assert_eq!(result, conf.run(seed), "not reproducible");
            match result {
                Ok(h) => {
                    check_uniform(&conf, &h);
                    fnv1a(&mut digest, b"ok");
                    digest_matrix(&mut digest, &h);
                    distinct.insert(h.alist());
                    ok += 1;
                }
                Err(e) => {
                    assert_eq!(e, mackay_neal::Error::NoMoreBacktrack);
                    fnv1a(&mut digest, b"err");
                    failed += 1;
                }
            }
        }
        if nrows >= 6 && wc >= 1 && wc < nrows && !distinct.is_empty() {
            assert!(distinct.len() >= 6, "seeds hardly matter for {conf:?}");
        }
    }
    assert_eq!((ok, failed), GOLDEN_UNIFORM_COUNTS);

    // with backtracking and a girth constraint on top
    for (min_girth, girth_trials) in [(Some(6), 40), (Some(8), 400)] {
        let conf = mackay_neal::Config {
            nrows: 16,
            ncols: 24,
            wr: 3,
            wc: 2,
            backtrack_cols: 2,
            backtrack_trials: 5,
            min_girth,
            girth_trials,
            fill_policy: FillPolicy::Uniform,
        };
        for seed in 0..10u64 {
            match conf.run(seed) {
                Ok(h) => {
                    fnv1a(&mut digest, b"ok");
                    digest_matrix(&mut digest, &h);
                    assert!(h.girth().is_none_or(|g| g >= min_girth.unwrap()));
                    for c in 0..24 {
                        assert_eq!(h.col_weight(c), 2);
                    }
                    for r in 0..16 {
                        assert!(h.row_weight(r) <= 3);
                    }
                }
                Err(e) => fnv1a(&mut digest, e.to_string().as_bytes()),
            }
        }
    }
    assert_eq!(
        digest, GOLDEN_UNIFORM,
        "MacKay-Neal results differ from those of the reference code"
    );
}

#[test]
fn command_line_tool() {
    let exe = env!("CARGO_BIN_EXE_ldpc-toolbox");
    for (nrows, ncols, wc, seed) in [(6, 12, 3, 0u64), (10, 20, 3, 7), (3, 5, 7, 2), (5, 3, 0, 1)] {
        let out = Command::new(exe)
            .args(["peg", &nrows.to_string(), &ncols.to_string(), &wc.to_string()])
            .arg(seed.to_string())
            .arg("--girth")
            .output()
            .unwrap();
        assert!(out.status.success());
        let h = peg::Config { nrows, ncols, wc }.run(seed).unwrap();
        assert_eq!(String::from_utf8(out.stdout).unwrap(), format!("{}\n", h.alist()));
        let girth = match h.girth() {
            Some(g) => format!("Code girth = {g}\n"),
            None => "Code girth = infinity (there are no cycles)\n".to_string(),
        };
        assert_eq!(String::from_utf8(out.stderr).unwrap(), girth);
    }
    let out = Command::new(exe).args(["peg", "0", "3", "1", "0"]).output().unwrap();
    assert!(!out.status.success());
    assert!(out.stdout.is_empty());
    assert!(String::from_utf8(out.stderr)
        .unwrap()
        .contains("not enough rows available"));

    for (nrows, ncols, wr, wc, seed) in [(10, 20, 4, 2, 3u64), (7, 9, 3, 2, 5), (7, 10, 3, 2, 5)] {
        let out = Command::new(exe)
            .arg("mackay-neal")
            .args([nrows, ncols, wr, wc].map(|x: usize| x.to_string()))
            .arg(seed.to_string())
            .arg("--uniform")
            .output()
            .unwrap();
        let conf = mackay_neal::Config {
            nrows,
            ncols,
            wr,
            wc,
            backtrack_cols: 0,
            backtrack_trials: 0,
            min_girth: None,
            girth_trials: 0,
            fill_policy: FillPolicy::Uniform,
        };
        match conf.run(seed) {
            Ok(h) => {
                assert!(out.status.success());
                assert_eq!(String::from_utf8(out.stdout).unwrap(), format!("{}\n", h.alist()));
                assert!(out.stderr.is_empty());
            }
            Err(e) => {
                assert!(!out.status.success());
                assert!(out.stdout.is_empty());
                assert!(String::from_utf8(out.stderr).unwrap().contains(&e.to_string()));
            }
        }
    }
}

// Obtained with the unchanged code.
const GOLDEN_PEG: u64 = 58212325351600626;
const GOLDEN_TIE_BREAK: u64 = 4275249340300254539;
const GOLDEN_UNIFORM: u64 = 15179086765065926756;
const GOLDEN_UNIFORM_COUNTS: (usize, usize) = (144, 36);
