// Demo for change 3: the constructors of the C interface share a common
// implementation (C string borrowing, alist loading from a file or from text,
// puncturing pattern parsing, handle creation and destruction).
//
// The test checks the null / non-null classification of the four constructors
// against the Rust library (alist parser, decoder implementation parser,
// puncturing pattern parser and encoder constructor) for a large number of
// arguments, and checks that the handles that are returned behave as the Rust
// encoder and decoder.

use ldpc_toolbox::{
    cli::ber::parse_puncturing_pattern,
    decoder::factory::{DecoderFactory, DecoderImplementation},
    encoder::Encoder,
    gf2::GF2,
    simulation::puncturing::Puncturer,
    sparse::SparseMatrix,
};
use ndarray::Array1;
use num_traits::{One, Zero};
use std::{
    ffi::{CString, c_char, c_void},
    path::PathBuf,
};

unsafe extern "C" {
    fn ldpc_toolbox_decoder_ctor(
        alist_file_path: *const c_char,
        implementation: *const c_char,
        puncturing: *const c_char,
    ) -> *mut c_void;
    fn ldpc_toolbox_decoder_ctor_alist_string(
        alist: *const c_char,
        implementation: *const c_char,
        puncturing: *const c_char,
    ) -> *mut c_void;
    fn ldpc_toolbox_decoder_dtor(decoder: *mut c_void);
    fn ldpc_toolbox_decoder_decode_f64(
        decoder: *mut c_void,
        output: *mut u8,
        output_len: usize,
        llrs: *const f64,
        llrs_len: usize,
        max_iterations: u32,
    ) -> i32;
    fn ldpc_toolbox_encoder_ctor(
        alist_file_path: *const c_char,
        puncturing: *const c_char,
    ) -> *mut c_void;
    fn ldpc_toolbox_encoder_ctor_alist_string(
        alist: *const c_char,
        puncturing: *const c_char,
    ) -> *mut c_void;
    fn ldpc_toolbox_encoder_dtor(encoder: *mut c_void);
    fn ldpc_toolbox_encoder_encode(
        encoder: *mut c_void,
        output: *mut u8,
        output_len: usize,
        input: *const u8,
        input_len: usize,
    );
}

const ALIST_12_4: &str = "12 4
3 9
3 3 3 3 3 3 3 3 3 3 3 3
9 9 9 9
1 2 3
1 3 4
2 3 4
2 3 4
1 2 4
1 2 3
1 3 4
1 2 4
1 2 3
2 3 4
1 2 4
1 3 4
1 2 5 6 7 8 9 11 12
1 3 4 5 6 8 9 10 11
1 2 3 4 6 7 9 10 12
2 3 4 5 7 8 10 11 12
";

const N: usize = 12;
const K: usize = 8;

const ALL_IMPLEMENTATIONS: &[&str] = &[
    "Phif64",
    "Phif32",
    "Tanhf64",
    "Tanhf32",
    "Minstarapproxf64",
    "Minstarapproxf32",
    "Minstarapproxi8",
    "Minstarapproxi8Jones",
    "Minstarapproxi8PartialHardLimit",
    "Minstarapproxi8JonesPartialHardLimit",
    "Minstarapproxi8Deg1Clip",
    "Minstarapproxi8JonesDeg1Clip",
    "Minstarapproxi8PartialHardLimitDeg1Clip",
    "Minstarapproxi8JonesPartialHardLimitDeg1Clip",
    "Aminstarf64",
    "Aminstarf32",
    "Aminstari8",
    "Aminstari8Jones",
    "Aminstari8PartialHardLimit",
    "Aminstari8JonesPartialHardLimit",
    "Aminstari8Deg1Clip",
    "Aminstari8JonesDeg1Clip",
    "Aminstari8PartialHardLimitDeg1Clip",
    "Aminstari8JonesPartialHardLimitDeg1Clip",
    "HLPhif64",
    "HLPhif32",
    "HLTanhf64",
    "HLTanhf32",
    "HLMinstarapproxf64",
    "HLMinstarapproxf32",
    "HLMinstarapproxi8",
    "HLMinstarapproxi8PartialHardLimit",
    "HLAminstarf64",
    "HLAminstarf32",
    "HLAminstari8",
    "HLAminstari8PartialHardLimit",
];

fn cstring(bytes: &[u8]) -> CString {
    CString::new(bytes).unwrap()
}

// Arguments are given as bytes, since C strings need not be UTF-8.

fn decoder_ctor_string(alist: &[u8], implementation: &[u8], puncturing: &[u8]) -> *mut c_void {
    let (a, i, p) = (cstring(alist), cstring(implementation), cstring(puncturing));
    unsafe { ldpc_toolbox_decoder_ctor_alist_string(a.as_ptr(), i.as_ptr(), p.as_ptr()) }
}

fn decoder_ctor_file(path: &[u8], implementation: &[u8], puncturing: &[u8]) -> *mut c_void {
    let (a, i, p) = (cstring(path), cstring(implementation), cstring(puncturing));
    unsafe { ldpc_toolbox_decoder_ctor(a.as_ptr(), i.as_ptr(), p.as_ptr()) }
}

fn encoder_ctor_string(alist: &[u8], puncturing: &[u8]) -> *mut c_void {
    let (a, p) = (cstring(alist), cstring(puncturing));
    unsafe { ldpc_toolbox_encoder_ctor_alist_string(a.as_ptr(), p.as_ptr()) }
}

fn encoder_ctor_file(path: &[u8], puncturing: &[u8]) -> *mut c_void {
    let (a, p) = (cstring(path), cstring(puncturing));
    unsafe { ldpc_toolbox_encoder_ctor(a.as_ptr(), p.as_ptr()) }
}

fn free_decoder(p: *mut c_void) -> bool {
    if !p.is_null() {
        unsafe { ldpc_toolbox_decoder_dtor(p) };
    }
    !p.is_null()
}

fn free_encoder(p: *mut c_void) -> bool {
    if !p.is_null() {
        unsafe { ldpc_toolbox_encoder_dtor(p) };
    }
    !p.is_null()
}

// What the Rust library says about the arguments

fn lossy(bytes: &[u8]) -> String {
    String::from_utf8_lossy(bytes).to_string()
}

fn rust_pattern_ok(puncturing: &[u8]) -> bool {
    let puncturing = lossy(puncturing);
    puncturing.is_empty() || parse_puncturing_pattern(&puncturing).is_ok()
}

fn rust_pattern(puncturing: &[u8]) -> Option<Vec<bool>> {
    let puncturing = lossy(puncturing);
    if puncturing.is_empty() {
        None
    } else {
        Some(parse_puncturing_pattern(&puncturing).unwrap())
    }
}

fn rust_implementation_ok(implementation: &[u8]) -> bool {
    lossy(implementation)
        .parse::<DecoderImplementation>()
        .is_ok()
}

fn rust_alist_ok(alist: &[u8]) -> bool {
    SparseMatrix::from_alist(&lossy(alist)).is_ok()
}

fn rust_encoder_ok(alist: &[u8]) -> bool {
    match SparseMatrix::from_alist(&lossy(alist)) {
        Ok(h) => Encoder::from_h(&h).is_ok(),
        Err(_) => false,
    }
}

// Checks that a C encoder handle for ALIST_12_4 behaves as the Rust encoder
fn check_encoder_handle(handle: *mut c_void, pattern: &Option<Vec<bool>>) {
    let h = SparseMatrix::from_alist(ALIST_12_4).unwrap();
    let encoder = Encoder::from_h(&h).unwrap();
    for m in [0usize, 1, 0x5a, 0xc3, 0xff, 0x80, 0x37] {
        let message = (0..K).map(|j| ((m >> j) & 1) as u8).collect::<Vec<u8>>();
        let codeword = encoder.encode(&Array1::from_iter(message.iter().map(|&b| {
            if b == 1 { GF2::one() } else { GF2::zero() }
        })));
        let codeword = match pattern {
            Some(p) => Puncturer::new(p).puncture(&codeword).unwrap(),
            None => codeword,
        };
        let expected = codeword
            .iter()
            .map(|x| if x.is_one() { 1 } else { 0 })
            .collect::<Vec<u8>>();
        let mut output = vec![0xa5u8; expected.len()];
        unsafe {
            ldpc_toolbox_encoder_encode(
                handle,
                output.as_mut_ptr(),
                output.len(),
                message.as_ptr(),
                message.len(),
            )
        };
        assert_eq!(output, expected);
    }
}

// Checks that a C decoder handle for ALIST_12_4 behaves as the Rust decoder
fn check_decoder_handle(handle: *mut c_void, implementation: &str, pattern: &Option<Vec<bool>>) {
    let tx_len = match pattern {
        Some(p) => N / p.len() * p.iter().filter(|&&b| b).count(),
        None => N,
    };
    if tx_len == 0 {
        // everything is punctured: nothing can be decoded
        return;
    }
    for (seed, max_iterations) in [(1u64, 20u32), (2, 0), (3, 5), (4, 1)] {
        let mut state = seed.wrapping_mul(0x9e37_79b9_7f4a_7c15);
        let llrs = (0..tx_len)
            .map(|_| {
                state = state
                    .wrapping_mul(6364136223846793005)
                    .wrapping_add(1442695040888963407);
                ((state >> 40) as f64 / (1u64 << 24) as f64) * 8.0 - 3.0
            })
            .collect::<Vec<f64>>();
        let h = SparseMatrix::from_alist(ALIST_12_4).unwrap();
        let mut decoder = implementation
            .parse::<DecoderImplementation>()
            .unwrap()
            .build_decoder(h);
        let full = match pattern {
            Some(p) => Puncturer::new(p).depuncture(&llrs).unwrap(),
            None => llrs.clone(),
        };
        let (expected_ret, expected) = match decoder.decode(&full, max_iterations as usize) {
            Ok(out) => (out.iterations as i32, out.codeword),
            Err(out) => (-1, out.codeword),
        };
        let mut output = vec![0xa5u8; K];
        let ret = unsafe {
            ldpc_toolbox_decoder_decode_f64(
                handle,
                output.as_mut_ptr(),
                output.len(),
                llrs.as_ptr(),
                llrs.len(),
                max_iterations,
            )
        };
        assert_eq!(ret, expected_ret);
        assert_eq!(&output[..], &expected[..K]);
    }
}

// All the strings over a small alphabet up to a maximum length
fn all_strings(alphabet: &[u8], max_len: usize) -> Vec<Vec<u8>> {
    let mut all = vec![Vec::new()];
    let mut previous = vec![Vec::new()];
    for _ in 0..max_len {
        let mut next = Vec::new();
        for s in &previous {
            for &c in alphabet {
                let mut t: Vec<u8> = s.clone();
                t.push(c);
                next.push(t);
            }
        }
        all.extend(next.iter().cloned());
        previous = next;
    }
    all
}

#[test]
fn puncturing_argument_classification_exhaustive() {
    let mut num_valid = 0;
    let mut num_invalid = 0;
    for puncturing in all_strings(b"01, 2", 5) {
        let valid = rust_pattern_ok(&puncturing);
        let encoder = encoder_ctor_string(ALIST_12_4.as_bytes(), &puncturing);
        let decoder = decoder_ctor_string(ALIST_12_4.as_bytes(), b"Phif64", &puncturing);
        assert_eq!(!encoder.is_null(), valid, "{:?}", lossy(&puncturing));
        assert_eq!(!decoder.is_null(), valid, "{:?}", lossy(&puncturing));
        if valid {
            // patterns have at most 3 elements here, so they divide N = 12
            let pattern = rust_pattern(&puncturing);
            check_encoder_handle(encoder, &pattern);
            check_decoder_handle(decoder, "Phif64", &pattern);
            num_valid += 1;
        } else {
            num_invalid += 1;
        }
        free_encoder(encoder);
        free_decoder(decoder);
    }
    // "", 2 of length 1, 4 of length 3, 8 of length 5
    assert_eq!(num_valid, 15);
    assert!(num_invalid > 3000);
}

#[test]
fn puncturing_argument_longer_and_odd_cases() {
    let cases: &[&[u8]] = &[
        b"1,1,1,0",
        b"0,1,0,1,1,1",
        b"1,1,1,1,1,1,1,1,1,1,1,1",
        b"0,0,0,0,0,0,0,0,0,0,0,0",
        b"1,0,1,1,1", // length does not divide N, only detected on use
        b"1,1,1,1,1,1,1,1,1,1,1,1,1,1,1,1,1,1,1,1,1,1,1,1,1,1,1,1,1,1,1,1,1,1,1,1",
        b"1,1,1,0,",
        b",1,1,1,0",
        b"1,1,,1,0",
        b"1,1,1,0\n",
        b"1,1,1,0 ",
        b"\t1,1",
        b"1,1,1,o",
        b"1,1,1,00",
        b"1,1,1,01",
        b"1.1",
        b"1;1",
        b"+1,1",
        b"1,-0",
        b"\xff",
        b"1,\xff",
        b"\xff,1",
        b"1\xff0",
        b"1,\xc3\xa9",
        b"\xef\xbc\x91",       // fullwidth digit one
        b"1\xef\xbc\x8c0",     // fullwidth comma
        b"\xef\xbf\xbd",       // U+FFFD itself
        b"1,\xef\xbf\xbd,0",
        b"1,\xf0\x9f\x98\x80", // 4 byte character
        b"\xc3",               // truncated sequence
        b"1,\xc3",
        b"0",
        b"0,0",
    ];
    for &puncturing in cases {
        let valid = rust_pattern_ok(puncturing);
        let encoder = encoder_ctor_string(ALIST_12_4.as_bytes(), puncturing);
        let decoder = decoder_ctor_string(ALIST_12_4.as_bytes(), b"HLAminstarf32", puncturing);
        assert_eq!(!encoder.is_null(), valid, "{:?}", lossy(puncturing));
        assert_eq!(!decoder.is_null(), valid, "{:?}", lossy(puncturing));
        if valid {
            let pattern = rust_pattern(puncturing);
            if N % pattern.as_ref().unwrap().len() == 0 {
                check_encoder_handle(encoder, &pattern);
                check_decoder_handle(decoder, "HLAminstarf32", &pattern);
            }
        }
        free_encoder(encoder);
        free_decoder(decoder);
    }
}

#[test]
fn implementation_argument_classification() {
    for &implementation in ALL_IMPLEMENTATIONS {
        assert!(rust_implementation_ok(implementation.as_bytes()));
        for puncturing in ["", "1,1,0"] {
            let decoder = decoder_ctor_string(
                ALIST_12_4.as_bytes(),
                implementation.as_bytes(),
                puncturing.as_bytes(),
            );
            assert!(!decoder.is_null(), "{implementation}");
            check_decoder_handle(
                decoder,
                implementation,
                &rust_pattern(puncturing.as_bytes()),
            );
            free_decoder(decoder);
        }
        // a good implementation does not make up for a bad pattern or alist
        assert!(!free_decoder(decoder_ctor_string(
            ALIST_12_4.as_bytes(),
            implementation.as_bytes(),
            b"1,"
        )));
        assert!(!free_decoder(decoder_ctor_string(
            b"12 4\n",
            implementation.as_bytes(),
            b""
        )));
    }
    let mut bad: Vec<Vec<u8>> = vec![
        b"".to_vec(),
        b" ".to_vec(),
        b"phif64".to_vec(),
        b"PHIF64".to_vec(),
        b"Phif64 ".to_vec(),
        b" Phif64".to_vec(),
        b"Phif64\n".to_vec(),
        b"Phif".to_vec(),
        b"Phif6".to_vec(),
        b"Phif644".to_vec(),
        b"Phif16".to_vec(),
        b"HL".to_vec(),
        b"HLMinstarapproxi8Jones".to_vec(),
        b"HLAminstari8Deg1Clip".to_vec(),
        b"Phif64,Phif32".to_vec(),
        b"Phif64\xff".to_vec(),
        b"\xffPhif64".to_vec(),
        b"Phi\xc3\xa964".to_vec(),
        b"\xef\xbf\xbd".to_vec(),
    ];
    // every valid name truncated by one character or extended by one character
    for &implementation in ALL_IMPLEMENTATIONS {
        let bytes = implementation.as_bytes();
        bad.push(bytes[..bytes.len() - 1].to_vec());
        bad.push(bytes[1..].to_vec());
        let mut extended = bytes.to_vec();
        extended.push(b'x');
        bad.push(extended);
    }
    for implementation in &bad {
        let expected = rust_implementation_ok(implementation);
        for puncturing in ["", "1,0", "1,,0"] {
            let decoder = decoder_ctor_string(
                ALIST_12_4.as_bytes(),
                implementation,
                puncturing.as_bytes(),
            );
            assert_eq!(
                free_decoder(decoder),
                expected && rust_pattern_ok(puncturing.as_bytes()),
                "{:?}",
                lossy(implementation)
            );
        }
    }
}

fn alist_cases() -> Vec<Vec<u8>> {
    let mut cases: Vec<Vec<u8>> = Vec::new();
    cases.push(ALIST_12_4.as_bytes().to_vec());
    // every prefix cut at a line boundary, and some cut in the middle of a line
    let lines = ALIST_12_4.split_inclusive('\n').collect::<Vec<_>>();
    for n in 0..lines.len() {
        let prefix = lines[..n].concat();
        cases.push(prefix.as_bytes().to_vec());
        if !prefix.is_empty() {
            cases.push(prefix.as_bytes()[..prefix.len() - 1].to_vec());
            cases.push(prefix.as_bytes()[..prefix.len() - 2].to_vec());
        }
    }
    // CRLF line endings, trailing and leading junk
    cases.push(ALIST_12_4.replace('\n', "\r\n").into_bytes());
    cases.push(format!("{ALIST_12_4}\n\n").into_bytes());
    cases.push(format!("\n{ALIST_12_4}").into_bytes());
    cases.push(format!(" {ALIST_12_4}").into_bytes());
    cases.push(ALIST_12_4.replace(' ', "\t").into_bytes());
    cases.push(ALIST_12_4.replace(' ', "  ").into_bytes());
    // bad numbers
    cases.push(ALIST_12_4.replacen("12 4", "12 x", 1).into_bytes());
    cases.push(ALIST_12_4.replacen("12 4", "x 4", 1).into_bytes());
    cases.push(ALIST_12_4.replacen("12 4", "12", 1).into_bytes());
    cases.push(ALIST_12_4.replacen("12 4", "12,4", 1).into_bytes());
    cases.push(ALIST_12_4.replacen("12 4", "-12 4", 1).into_bytes());
    cases.push(ALIST_12_4.replacen("12 4", "12 4 7", 1).into_bytes());
    cases.push(ALIST_12_4.replacen("12 4", "12 3", 1).into_bytes()); // row 4 out of range
    cases.push(ALIST_12_4.replacen("12 4", "11 4", 1).into_bytes()); // different matrix
    cases.push(ALIST_12_4.replacen("1 2 3\n", "1 2 5\n", 1).into_bytes());
    cases.push(ALIST_12_4.replacen("1 2 3\n", "1 2 a\n", 1).into_bytes());
    cases.push(ALIST_12_4.replacen("1 2 3\n", "1 2 0\n", 1).into_bytes());
    cases.push(ALIST_12_4.replacen("1 2 3\n", "1 2 3.0\n", 1).into_bytes());
    cases.push(ALIST_12_4.replacen("1 2 3\n", "\n", 1).into_bytes());
    // the lines with the weights are not looked at
    cases.push(ALIST_12_4.replacen("3 9\n", "what ever\n", 1).into_bytes());
    cases.push(ALIST_12_4.replacen("9 9 9 9\n", "\n", 1).into_bytes());
    // invalid UTF-8 in a line that is not looked at, and in lines that are
    let bytes = ALIST_12_4.as_bytes();
    let mut c = bytes.to_vec();
    c[5] = 0xff; // the '3' of the second line
    cases.push(c);
    let mut c = bytes.to_vec();
    c[0] = 0xff;
    cases.push(c);
    let mut c = bytes.to_vec();
    let pos = ALIST_12_4.find("1 2 3\n").unwrap();
    c[pos] = 0xc3;
    cases.push(c);
    let mut c = bytes.to_vec();
    let len = c.len();
    c[len - 2] = 0xff; // in the rows part, which is not looked at
    cases.push(c);
    // matrices for which the encoder cannot be built
    let mut h = SparseMatrix::new(2, 3);
    for row in 0..2 {
        for col in 0..3 {
            h.insert(row, col);
        }
    }
    cases.push(h.alist().into_bytes());
    let mut h = SparseMatrix::new(3, 6);
    h.insert_row(0, [0, 1, 3, 4].iter());
    h.insert_row(1, [1, 2, 4, 5].iter());
    h.insert_row(2, [0, 2, 3, 5].iter()); // sum of the other two rows
    cases.push(h.alist().into_bytes());
    let mut h = SparseMatrix::new(3, 6);
    h.insert_row(0, [0, 1, 3].iter());
    h.insert_row(1, [1, 2, 4].iter());
    h.insert_row(2, [0, 2, 5].iter());
    cases.push(h.alist().into_bytes()); // identity in the last columns
    let mut h = SparseMatrix::new(3, 6);
    h.insert_row(0, [0, 1, 3].iter());
    h.insert_row(1, [1, 2, 3, 4].iter());
    h.insert_row(2, [0, 2, 4, 5].iter());
    cases.push(h.alist().into_bytes()); // staircase
    cases.push(h.alist_no_padding().into_bytes());
    cases
}

#[test]
fn alist_text_classification() {
    let cases = alist_cases();
    let mut seen = [[0usize; 2]; 2];
    for alist in &cases {
        let alist_ok = rust_alist_ok(alist);
        let encoder_ok = rust_encoder_ok(alist);
        seen[alist_ok as usize][encoder_ok as usize] += 1;
        for puncturing in ["", "1", "1,,1"] {
            let pattern_ok = rust_pattern_ok(puncturing.as_bytes());
            assert_eq!(
                free_decoder(decoder_ctor_string(alist, b"Minstarapproxi8", puncturing.as_bytes())),
                alist_ok && pattern_ok,
                "{:?}",
                lossy(alist)
            );
            assert_eq!(
                free_decoder(decoder_ctor_string(alist, b"nothing", puncturing.as_bytes())),
                false
            );
            assert_eq!(
                free_encoder(encoder_ctor_string(alist, puncturing.as_bytes())),
                encoder_ok && pattern_ok,
                "{:?}",
                lossy(alist)
            );
        }
    }
    // all the kinds of alist have been exercised
    assert!(seen[0][0] > 10);
    assert!(seen[1][0] >= 2);
    assert!(seen[1][1] > 5);
}

struct TempDir(PathBuf);

impl TempDir {
    fn new(name: &str) -> TempDir {
        let path = std::env::temp_dir().join(format!(
            "ldpc_toolbox_c_api_demo_{}_{}",
            name,
            std::process::id()
        ));
        let _ = std::fs::remove_dir_all(&path);
        std::fs::create_dir_all(&path).unwrap();
        TempDir(path)
    }
}

impl Drop for TempDir {
    fn drop(&mut self) {
        let _ = std::fs::remove_dir_all(&self.0);
    }
}

#[test]
fn alist_file_classification() {
    let dir = TempDir::new("files");
    // the file constructors agree with the text constructors on the contents
    for (j, alist) in alist_cases().iter().enumerate() {
        let path = dir.0.join(format!("case{j}.alist"));
        std::fs::write(&path, alist).unwrap();
        let path = path.to_str().unwrap().as_bytes();
        // a file that is not UTF-8 cannot be read as text at all
        let readable = std::str::from_utf8(alist).is_ok();
        let alist_ok = readable && rust_alist_ok(alist);
        let encoder_ok = readable && rust_encoder_ok(alist);
        for puncturing in ["", "1,1", "1,1,"] {
            let pattern_ok = rust_pattern_ok(puncturing.as_bytes());
            assert_eq!(
                free_decoder(decoder_ctor_file(path, b"Aminstarf64", puncturing.as_bytes())),
                alist_ok && pattern_ok,
                "case {j}"
            );
            assert_eq!(
                free_decoder(decoder_ctor_file(path, b"Aminstarf65", puncturing.as_bytes())),
                false
            );
            assert_eq!(
                free_encoder(encoder_ctor_file(path, puncturing.as_bytes())),
                encoder_ok && pattern_ok,
                "case {j}"
            );
        }
    }
    // handles built from a file work as the ones built from text
    let good = dir.0.join("good.alist");
    std::fs::write(&good, ALIST_12_4).unwrap();
    let good = good.to_str().unwrap().as_bytes().to_vec();
    for puncturing in ["", "1,1,1,0", "0,1,1"] {
        let pattern = rust_pattern(puncturing.as_bytes());
        let encoder = encoder_ctor_file(&good, puncturing.as_bytes());
        assert!(!encoder.is_null());
        check_encoder_handle(encoder, &pattern);
        free_encoder(encoder);
        let decoder = decoder_ctor_file(&good, b"Tanhf64", puncturing.as_bytes());
        assert!(!decoder.is_null());
        check_decoder_handle(decoder, "Tanhf64", &pattern);
        free_decoder(decoder);
    }
    // the text constructor does not take a path and the file constructor does
    // not take text
    assert!(!free_decoder(decoder_ctor_string(&good, b"Tanhf64", b"")));
    assert!(!free_encoder(encoder_ctor_string(&good, b"")));
    assert!(!free_decoder(decoder_ctor_file(ALIST_12_4.as_bytes(), b"Tanhf64", b"")));
    assert!(!free_encoder(encoder_ctor_file(ALIST_12_4.as_bytes(), b"")));
    // unreadable files
    let missing = dir.0.join("missing.alist");
    let empty = dir.0.join("empty.alist");
    std::fs::write(&empty, b"").unwrap();
    let subdir = dir.0.join("subdir");
    std::fs::create_dir(&subdir).unwrap();
    let mut not_utf8_path = good.clone();
    not_utf8_path.push(0xff);
    let mut trailing_slash = good.clone();
    trailing_slash.push(b'/');
    let unreadable: Vec<Vec<u8>> = vec![
        missing.to_str().unwrap().as_bytes().to_vec(),
        empty.to_str().unwrap().as_bytes().to_vec(),
        subdir.to_str().unwrap().as_bytes().to_vec(),
        dir.0.to_str().unwrap().as_bytes().to_vec(),
        b"".to_vec(),
        b" ".to_vec(),
        not_utf8_path,
        trailing_slash,
    ];
    for path in &unreadable {
        for puncturing in ["", "1,0", "x"] {
            assert!(!free_decoder(decoder_ctor_file(
                path,
                b"Tanhf64",
                puncturing.as_bytes()
            )));
            assert!(!free_encoder(encoder_ctor_file(path, puncturing.as_bytes())));
        }
    }
}

#[test]
fn many_handles_alive_at_once() {
    // handles are independent objects: build many, use them in an interleaved
    // way and destroy them in a different order
    let patterns = ["", "1,1,0", "1,0", "0,1,1,1"];
    let encoders = patterns
        .iter()
        .map(|p| encoder_ctor_string(ALIST_12_4.as_bytes(), p.as_bytes()))
        .collect::<Vec<_>>();
    let decoders = patterns
        .iter()
        .map(|p| decoder_ctor_string(ALIST_12_4.as_bytes(), b"Phif32", p.as_bytes()))
        .collect::<Vec<_>>();
    for _ in 0..3 {
        for (j, p) in patterns.iter().enumerate() {
            let pattern = rust_pattern(p.as_bytes());
            check_encoder_handle(encoders[j], &pattern);
            check_decoder_handle(decoders[j], "Phif32", &pattern);
        }
    }
    for &e in encoders.iter().rev() {
        assert!(free_encoder(e));
    }
    for &d in &decoders {
        assert!(free_decoder(d));
    }
}
