// Demo for change 2 (horizontal layered decoder: the check node messages Rcv
// are kept in one contiguous buffer with per-check-node offsets instead of one
// boxed slice per check node; they are reset in a single pass).
//
// Every decode call made on a long-lived decoder object is compared with the
// same call made on a freshly built decoder, for all the horizontal layered
// implementations (and, for good measure, the flooding ones), on parity check
// matrices with all sorts of row weight patterns (including empty rows at the
// beginning, middle and end, a matrix without rows, rows of weight one) and
// many call histories that mix successes, failures, zero iterations,
// huge/tiny/zero LLRs and calls that panic inside the arithmetic.

use ldpc_toolbox::decoder::{
    DecoderOutput, LdpcDecoder,
    arithmetic::{Aminstarf32, Minstarapproxi8PartialHardLimit, Phif64, Tanhf32},
    factory::{DecoderFactory, DecoderImplementation},
    horizontal_layered,
};
use ldpc_toolbox::sparse::SparseMatrix;
use std::panic::{AssertUnwindSafe, catch_unwind};

const FLOODING: &[&str] = &[
    "Phif64",
    "Phif32",
    "Tanhf64",
    "Tanhf32",
    "Minstarapproxf64",
    "Minstarapproxf32",
    "Minstarapproxi8",
    "Minstarapproxi8Jones",
    "Minstarapproxi8PartialHardLimit",
    "Minstarapproxi8JonesPartialHardLimit",
    "Minstarapproxi8Deg1Clip",
    "Minstarapproxi8JonesDeg1Clip",
    "Minstarapproxi8PartialHardLimitDeg1Clip",
    "Minstarapproxi8JonesPartialHardLimitDeg1Clip",
    "Aminstarf64",
    "Aminstarf32",
    "Aminstari8",
    "Aminstari8Jones",
    "Aminstari8PartialHardLimit",
    "Aminstari8JonesPartialHardLimit",
    "Aminstari8Deg1Clip",
    "Aminstari8JonesDeg1Clip",
    "Aminstari8PartialHardLimitDeg1Clip",
    "Aminstari8JonesPartialHardLimitDeg1Clip",
];

const LAYERED: &[&str] = &[
    "HLPhif64",
    "HLPhif32",
    "HLTanhf64",
    "HLTanhf32",
    "HLMinstarapproxf64",
    "HLMinstarapproxf32",
    "HLMinstarapproxi8",
    "HLMinstarapproxi8PartialHardLimit",
    "HLAminstarf64",
    "HLAminstarf32",
    "HLAminstari8",
    "HLAminstari8PartialHardLimit",
];

// Small deterministic generator (splitmix64), so that the test does not depend
// on any random number crate.
struct Gen(u64);

impl Gen {
    fn next(&mut self) -> u64 {
        self.0 = self.0.wrapping_add(0x9e37_79b9_7f4a_7c15);
        let mut z = self.0;
        z = (z ^ (z >> 30)).wrapping_mul(0xbf58_476d_1ce4_e5b9);
        z = (z ^ (z >> 27)).wrapping_mul(0x94d0_49bb_1331_11eb);
        z ^ (z >> 31)
    }

    fn below(&mut self, n: u64) -> u64 {
        self.next() % n
    }

    fn unit(&mut self) -> f64 {
        (self.next() >> 11) as f64 / (1u64 << 53) as f64
    }

    fn sign(&mut self) -> f64 {
        if self.below(2) == 0 { 1.0 } else { -1.0 }
    }
}

fn johnson() -> SparseMatrix {
    // Example 2.5 in Sarah J. Johnson - Iterative Error Correction
    let mut h = SparseMatrix::new(4, 6);
    h.insert_row(0, [0, 1, 3].iter());
    h.insert_row(1, [1, 2, 4].iter());
    h.insert_row(2, [0, 4, 5].iter());
    h.insert_row(3, [2, 3, 5].iter());
    h
}

fn irregular() -> SparseMatrix {
    // Row weights 2..6, columns of weight 0 (column 9), 1, 2, 3 and 4. The
    // entries of the rows are deliberately not sorted.
    let mut h = SparseMatrix::new(5, 10);
    h.insert_row(0, [3, 0, 1].iter());
    h.insert_row(1, [8, 2].iter());
    h.insert_row(2, [7, 6, 5, 4, 1, 0].iter());
    h.insert_row(3, [0, 2, 4, 6].iter());
    h.insert_row(4, [5, 0, 3, 7, 2].iter());
    h
}

fn pseudo_random(rows: usize, cols: usize, seed: u64) -> SparseMatrix {
    let mut g = Gen(seed);
    let mut h = SparseMatrix::new(rows, cols);
    for r in 0..rows {
        let weight = 2 + g.below(5) as usize;
        while h.row_weight(r) < weight {
            h.insert(r, g.below(cols as u64) as usize);
        }
    }
    h
}

fn with_empty_rows() -> SparseMatrix {
    // Rows 0, 3, 4 and 7 (first, two consecutive ones in the middle, last) are
    // empty. The A-Min* arithmetics panic on empty rows, the others do not.
    let mut h = SparseMatrix::new(8, 9);
    h.insert_row(1, [0, 1, 2].iter());
    h.insert_row(2, [8, 2, 3, 4].iter());
    h.insert_row(5, [4, 5].iter());
    h.insert_row(6, [7, 6, 5, 0, 1].iter());
    h
}

fn single_row() -> SparseMatrix {
    let mut h = SparseMatrix::new(1, 5);
    h.insert_row(0, [4, 0, 2, 1, 3].iter());
    h
}

fn with_degree_one_check() -> SparseMatrix {
    // Row 2 has a single entry: the min* and A-Min* arithmetics panic when
    // they process it, the phi and tanh arithmetics do not. Row 4 is empty.
    let mut h = SparseMatrix::new(5, 8);
    h.insert_row(0, [0, 1, 2, 3].iter());
    h.insert_row(1, [2, 4, 5].iter());
    h.insert_row(2, [6].iter());
    h.insert_row(3, [1, 5, 7, 6].iter());
    h
}

fn llr_vector(g: &mut Gen, n: usize, previous: &[f64]) -> Vec<f64> {
    match g.below(10) {
        // all-zeros codeword received without errors
        0 => (0..n).map(|_| 0.5 + 4.0 * g.unit()).collect(),
        // all-zeros codeword with one or two moderately wrong positions
        1 => {
            let mut v: Vec<f64> = (0..n).map(|_| 1.0 + 2.0 * g.unit()).collect();
            for _ in 0..1 + g.below(2) {
                let j = g.below(n as u64) as usize;
                v[j] = -v[j];
            }
            v
        }
        // noise
        2 | 3 => (0..n).map(|_| 3.0 * (g.unit() - 0.4)).collect(),
        // everything points to one
        4 => (0..n).map(|_| -0.1 - 20.0 * g.unit()).collect(),
        // huge magnitudes
        5 => (0..n).map(|_| g.sign() * 1e30).collect(),
        // tiny magnitudes and signed zeros
        6 => (0..n)
            .map(|_| match g.below(4) {
                0 => 0.0,
                1 => -0.0,
                2 => g.sign() * 1e-30,
                _ => g.sign() * 1e-300,
            })
            .collect(),
        // a mixture of everything
        7 => (0..n)
            .map(|_| match g.below(5) {
                0 => g.sign() * 1e30,
                1 => 0.0,
                2 => g.sign() * 1e-12,
                3 => g.sign() * 15.875,
                _ => 10.0 * (g.unit() - 0.5),
            })
            .collect(),
        // strongly saturating values for the 8 bit quantizer
        8 => (0..n).map(|_| g.sign() * (15.0 + g.unit())).collect(),
        // the previous frame again
        _ => {
            if previous.len() == n {
                previous.to_vec()
            } else {
                (0..n).map(|_| g.sign()).collect()
            }
        }
    }
}

fn max_iterations(g: &mut Gen) -> usize {
    [0, 0, 0, 1, 1, 2, 3, 5, 10, 25][g.below(10) as usize]
}

type Outcome = Option<Result<DecoderOutput, DecoderOutput>>;

fn call(decoder: &mut dyn LdpcDecoder, llrs: &[f64], max_iter: usize) -> Outcome {
    // None stands for a panic inside decode
    catch_unwind(AssertUnwindSafe(|| decoder.decode(llrs, max_iter))).ok()
}

fn digest(acc: &mut u64, outcome: &Outcome) {
    let mut put = |b: u64| {
        *acc ^= b;
        *acc = acc.wrapping_mul(0x0100_0000_01b3);
    };
    match outcome {
        None => put(0xff),
        Some(r) => {
            let (tag, o) = match r {
                Ok(o) => (1, o),
                Err(o) => (2, o),
            };
            put(tag);
            put(o.iterations as u64);
            for &b in &o.codeword {
                put(u64::from(b));
            }
        }
    }
}

fn check_histories(
    names: &[&str],
    h: &SparseMatrix,
    seed: u64,
    histories: usize,
    length: usize,
) -> (u64, usize) {
    let n = h.num_cols();
    let mut acc = 0xcbf2_9ce4_8422_2325u64;
    let mut panics = 0;
    for (k, name) in names.iter().enumerate() {
        let implementation: DecoderImplementation = name.parse().unwrap();
        for history in 0..histories {
            let mut g = Gen(seed ^ ((k as u64) << 32) ^ history as u64);
            let mut reused = implementation.build_decoder(h.clone());
            let mut previous = Vec::new();
            for step in 0..length {
                let llrs = llr_vector(&mut g, n, &previous);
                let max_iter = max_iterations(&mut g);
                let mut fresh = implementation.build_decoder(h.clone());
                let expected = call(fresh.as_mut(), &llrs, max_iter);
                let got = call(reused.as_mut(), &llrs, max_iter);
                assert_eq!(
                    got, expected,
                    "{name}: history {history}, call {step}, max_iter {max_iter}, llrs {llrs:?}"
                );
                if let Some(r) = &got {
                    let (Ok(o) | Err(o)) = r;
                    assert_eq!(o.codeword.len(), n);
                    assert!(o.iterations <= max_iter);
                    if r.is_err() {
                        assert_eq!(o.iterations, max_iter);
                    }
                } else {
                    panics += 1;
                }
                digest(&mut acc, &got);
                previous = llrs;
            }
        }
    }
    (acc, panics)
}

// Implementations whose arithmetic accepts check nodes without any variable
// node (phi, tanh and min*).
fn tolerates_empty_rows(name: &str) -> bool {
    !name.contains("Aminstar")
}

#[test]
fn layered_reused_equals_fresh() {
    let mut total = 0u64;
    for (j, h) in [
        johnson(),
        irregular(),
        single_row(),
        pseudo_random(12, 24, 3),
        pseudo_random(7, 9, 4),
        pseudo_random(30, 40, 5),
    ]
    .iter()
    .enumerate()
    {
        let (d, panics) = check_histories(LAYERED, h, 0x2000 + j as u64, 4, 20);
        assert_eq!(panics, 0);
        total ^= d.rotate_left(j as u32);
    }
    println!("digest layered {total:016x}");
}

#[test]
fn flooding_reused_equals_fresh() {
    let mut total = 0u64;
    for (j, h) in [johnson(), irregular(), pseudo_random(12, 24, 1)]
        .iter()
        .enumerate()
    {
        let (d, panics) = check_histories(FLOODING, h, 0x1000 + j as u64, 2, 20);
        assert_eq!(panics, 0);
        total ^= d.rotate_left(j as u32);
    }
    println!("digest flooding {total:016x}");
}

#[test]
fn empty_check_nodes() {
    // Check nodes without variable nodes own an empty range of the message
    // buffer, wherever they are.
    let h = with_empty_rows();
    let tolerant: Vec<&str> = LAYERED
        .iter()
        .chain(FLOODING.iter())
        .copied()
        .filter(|name| tolerates_empty_rows(name))
        .collect();
    let (d1, panics) = check_histories(&tolerant, &h, 0x4000, 4, 20);
    assert_eq!(panics, 0);
    let others: Vec<&str> = LAYERED
        .iter()
        .copied()
        .filter(|name| !tolerates_empty_rows(name))
        .collect();
    let (d2, panics) = check_histories(&others, &h, 0x4001, 2, 20);
    assert!(panics > 0);
    println!("digest empty rows {d1:016x} {d2:016x} {panics}");
}

#[test]
fn no_check_nodes_at_all() {
    // Without parity checks every word is a codeword: zero iterations, and the
    // hard decision on the LLRs of this very call.
    let h = SparseMatrix::new(0, 7);
    let mut g = Gen(5);
    for name in LAYERED.iter().chain(FLOODING.iter()) {
        let implementation: DecoderImplementation = name.parse().unwrap();
        let mut decoder = implementation.build_decoder(h.clone());
        let mut previous = Vec::new();
        for _ in 0..20 {
            let llrs = llr_vector(&mut g, 7, &previous);
            let max_iter = max_iterations(&mut g);
            let expected = DecoderOutput {
                codeword: llrs.iter().map(|&x| u8::from(x <= 0.0)).collect(),
                iterations: 0,
            };
            assert_eq!(decoder.decode(&llrs, max_iter), Ok(expected), "{name}");
            previous = llrs;
        }
    }
}

#[test]
fn calls_that_panic_leave_no_trace() {
    // A decode call that panics half way through a sweep over the check nodes
    // (degree one check node in the middle) must not influence the following
    // calls either.
    let h = with_degree_one_check();
    let (d1, panics1) = check_histories(LAYERED, &h, 0x3001, 4, 20);
    let (d2, panics2) = check_histories(FLOODING, &h, 0x3000, 1, 20);
    // the min* and A-Min* arithmetics do panic on this matrix
    assert!(panics1 > 0);
    assert!(panics2 > 0);
    println!("digest panics {d1:016x} {d2:016x} {panics1} {panics2}");
}

#[test]
fn zero_iterations_after_any_frame() {
    // With zero iterations the decoder returns the hard decision on the LLRs
    // of *this* call, whatever happened in the previous calls.
    let h = johnson();
    let n = h.num_cols();
    let failing: Vec<f64> = vec![-2.0, 1.5, -0.5, 3.0, -1.0, 0.25];
    let correctable: Vec<f64> = vec![1.4, 1.4, -1.4, 1.4, 1.4, 1.4];
    let clean: Vec<f64> = vec![2.0; n];
    let probes: Vec<Vec<f64>> = vec![
        vec![-1.0, 1.0, 1.0, 1.0, 1.0, 1.0],
        vec![1.0, -1.0, -1.0, 1.0, 1.0, 1.0],
        vec![-7.0, -7.0, -7.0, -7.0, -7.0, 7.0],
        vec![1e30, -1e30, 1e30, 1e30, 1e30, 1e30],
        vec![0.0, 3.0, 3.0, 3.0, 3.0, 3.0],
        vec![0.7, 0.7, 0.7, 0.7, 0.7, -0.7],
    ];
    for name in LAYERED.iter().chain(FLOODING.iter()) {
        let implementation: DecoderImplementation = name.parse().unwrap();
        let mut decoder = implementation.build_decoder(h.clone());
        for (j, probe) in probes.iter().enumerate() {
            match j % 4 {
                0 => {
                    let _ = decoder.decode(&failing, 30);
                }
                1 => {
                    let _ = decoder.decode(&correctable, 30);
                }
                2 => {
                    let _ = decoder.decode(&clean, 30);
                }
                _ => (),
            }
            let expected = DecoderOutput {
                // all the probes are at least 1/16 away from zero or exactly
                // zero, so every arithmetic takes the same hard decision
                codeword: probe.iter().map(|&x| u8::from(x <= 0.0)).collect(),
                iterations: 0,
            };
            assert_eq!(decoder.decode(probe, 0), Err(expected.clone()), "{name}");
            assert_eq!(decoder.decode(probe, 0), Err(expected), "{name}");
            // the check node messages left by the earlier frames are not seen
            // by a later frame: first iteration as on a fresh decoder
            let mut fresh = implementation.build_decoder(h.clone());
            assert_eq!(decoder.decode(probe, 1), fresh.decode(probe, 1), "{name}");
            let mut fresh = implementation.build_decoder(h.clone());
            assert_eq!(decoder.decode(probe, 4), fresh.decode(probe, 4), "{name}");
        }
    }
}

fn concrete_histories<A>(h: SparseMatrix, make: impl Fn() -> A)
where
    A: ldpc_toolbox::decoder::arithmetic::DecoderArithmetic + Clone,
{
    // The concrete decoder type, and clones taken in the middle of a history.
    let n = h.num_cols();
    let mut g = Gen(78);
    let mut reused = horizontal_layered::Decoder::new(h.clone(), make());
    let mut previous = Vec::new();
    for step in 0..40 {
        let llrs = llr_vector(&mut g, n, &previous);
        let max_iter = max_iterations(&mut g);
        let expected = horizontal_layered::Decoder::new(h.clone(), make()).decode(&llrs, max_iter);
        if step % 5 == 4 {
            let mut cloned = reused.clone();
            assert_eq!(cloned.decode(&llrs, max_iter), expected);
        }
        assert_eq!(reused.decode(&llrs, max_iter), expected);
        previous = llrs;
    }
}

#[test]
fn concrete_layered_decoders_and_clones() {
    concrete_histories(irregular(), Phif64::new);
    concrete_histories(irregular(), Tanhf32::new);
    concrete_histories(irregular(), Aminstarf32::new);
    concrete_histories(irregular(), Minstarapproxi8PartialHardLimit::new);
    concrete_histories(with_empty_rows(), Phif64::new);
    concrete_histories(with_empty_rows(), Minstarapproxi8PartialHardLimit::new);
}

#[test]
fn known_example_still_decodes() {
    // Example 2.23 in Sarah J. Johnson - Iterative Error Correction, run on
    // one decoder object for all the single error patterns in a row.
    let mut decoder = DecoderImplementation::HLPhif64.build_decoder(johnson());
    let good = [0u8, 0, 1, 0, 1, 1];
    let to_llrs = |bits: &[u8]| -> Vec<f64> {
        bits.iter()
            .map(|&b| if b == 0 { 1.3863 } else { -1.3863 })
            .collect()
    };
    for round in 0..3 {
        for j in 0..good.len() {
            let mut bad = good;
            bad[j] ^= 1;
            let out = decoder.decode(&to_llrs(&bad), 100).unwrap();
            assert_eq!(out.codeword, good);
            assert!(out.iterations >= 1);
            if round == 1 {
                let out = decoder.decode(&to_llrs(&good), 100).unwrap();
                assert_eq!(out.iterations, 0);
            }
            if round == 2 {
                let out = decoder.decode(&to_llrs(&bad), 0).unwrap_err();
                assert_eq!(out.codeword, bad);
            }
        }
    }
}
