// Demonstration for property C13: BER statistics are exact and the run
// terminates under every thread schedule.
//
// A scripted decoder (injected through the public DecoderFactory/LdpcDecoder
// traits) decides the outcome of every frame from a global ticket, sleeps for
// pseudo-random times to perturb the arrival order of the results, and can be
// told to panic. The channel is run at a very high Eb/N0, so the hard decision
// on the LLRs is the transmitted codeword and the scripted decoder controls
// exactly how many systematic bit errors each frame has.
//
// The frame classes are chosen so that the number of counted frames of each
// class can be solved from the published statistics, which lets us check all
// the counters against each other exactly.
//
// The scripted decoder also works out from the magnitude of the LLRs which
// Eb/N0 each frame belongs to. This is used to check that the Eb/N0 cases are
// isolated from each other: a decoder instance only ever sees frames of one
// Eb/N0, the noise in the LLRs has the variance that corresponds to that
// Eb/N0, and the statistics of an Eb/N0 do not count more frames of a class
// than were decoded for that Eb/N0.
//
// The whole thing is run with all the CPUs available and, if `taskset` exists,
// again in child processes restricted to 1, 2 and 3 CPUs (the BER engine uses
// one worker per available CPU).

use ldpc_toolbox::{
    decoder::{DecoderOutput, LdpcDecoder, factory::DecoderFactory},
    simulation::{
        ber::{BerTest, Report, Reporter, Statistics},
        modulation::{Bpsk, Modulation, Psk8},
    },
    sparse::SparseMatrix,
};
use std::{
    fmt::Display,
    sync::{
        Arc, Mutex,
        atomic::{AtomicU64, AtomicUsize, Ordering},
        mpsc,
    },
    time::{Duration, Instant},
};

const N: usize = 24;
const K: usize = 12;
const SCENARIO_TIMEOUT: Duration = Duration::from_secs(120);

// Frame classes: (systematic bit errors, iterations, decoder says converged)
const GOOD: (u64, u64, bool) = (0, 2, true);
const CLASS_A: (u64, u64, bool) = (1, 7, true); // false decode, 1 bit error
const CLASS_B: (u64, u64, bool) = (5, 10, false); // decoder failure, 5 bit errors
const CLASS_C: (u64, u64, bool) = (6, 9, true); // false decode, 6 bit errors

fn splitmix(mut x: u64) -> u64 {
    x = x.wrapping_add(0x9e3779b97f4a7c15);
    x = (x ^ (x >> 30)).wrapping_mul(0xbf58476d1ce4e5b9);
    x = (x ^ (x >> 27)).wrapping_mul(0x94d049bb133111eb);
    x ^ (x >> 31)
}

#[derive(Debug, Clone, Copy, PartialEq, Eq)]
enum PanicPlan {
    Never,
    // The first `expected` decoders with an odd build index panic in their
    // first decode. The others wait in their first decode until that has
    // happened `expected` times.
    OddDecodersAtFirstDecode { expected: usize },
    // Every decoder panics in its n-th decode (1-based).
    EveryDecoderAtDecode(u64),
}

#[derive(Debug)]
struct Script {
    seed: u64,
    tickets: AtomicU64,
    builds: AtomicUsize,
    live: AtomicUsize,
    panicked: AtomicUsize,
    // decoded frames per class: good, A, B, C
    decoded: [AtomicU64; 4],
    panic_plan: PanicPlan,
    // one worker in `slow_every` decoders is much slower than the rest
    slow_every: usize,
    max_delay_us: u64,
    // Expected LLR magnitude for each Eb/N0 (empty if the Eb/N0 of a frame
    // cannot be worked out from its LLRs)
    llr_scales: Vec<f64>,
    // decoded frames per Eb/N0 and class
    decoded_per_point: Vec<[AtomicU64; 4]>,
    // per Eb/N0: sum of squares of the normalized noise in the LLRs and number
    // of samples
    noise_per_point: Vec<Mutex<(f64, u64)>>,
    isolation_violations: AtomicUsize,
}

impl Script {
    fn new(
        seed: u64,
        panic_plan: PanicPlan,
        slow_every: usize,
        max_delay_us: u64,
        llr_scales: Vec<f64>,
    ) -> Arc<Script> {
        Arc::new(Script {
            decoded_per_point: llr_scales
                .iter()
                .map(|_| {
                    [
                        AtomicU64::new(0),
                        AtomicU64::new(0),
                        AtomicU64::new(0),
                        AtomicU64::new(0),
                    ]
                })
                .collect(),
            noise_per_point: llr_scales.iter().map(|_| Mutex::new((0.0, 0))).collect(),
            isolation_violations: AtomicUsize::new(0),
            llr_scales,
            seed,
            tickets: AtomicU64::new(0),
            builds: AtomicUsize::new(0),
            live: AtomicUsize::new(0),
            panicked: AtomicUsize::new(0),
            decoded: [
                AtomicU64::new(0),
                AtomicU64::new(0),
                AtomicU64::new(0),
                AtomicU64::new(0),
            ],
            panic_plan,
            slow_every,
            max_delay_us,
        })
    }

    fn class(&self, ticket: u64) -> usize {
        match splitmix(self.seed ^ ticket.wrapping_mul(0x2545f4914f6cdd1d)) % 8 {
            0 => 1,
            1 => 2,
            2 => 3,
            _ => 0,
        }
    }
}

#[derive(Debug, Clone)]
struct ScriptedFactory(Arc<Script>);

impl Display for ScriptedFactory {
    fn fmt(&self, f: &mut std::fmt::Formatter<'_>) -> std::fmt::Result {
        write!(f, "Scripted")
    }
}

impl DecoderFactory for ScriptedFactory {
    fn build_decoder(&self, _h: SparseMatrix) -> Box<dyn LdpcDecoder> {
        let index = self.0.builds.fetch_add(1, Ordering::SeqCst);
        self.0.live.fetch_add(1, Ordering::SeqCst);
        Box::new(ScriptedDecoder {
            script: Arc::clone(&self.0),
            index,
            decodes: 0,
            point: None,
        })
    }
}

#[derive(Debug)]
struct ScriptedDecoder {
    script: Arc<Script>,
    index: usize,
    decodes: u64,
    // Eb/N0 of the frames seen by this decoder
    point: Option<usize>,
}

impl Drop for ScriptedDecoder {
    fn drop(&mut self) {
        self.script.live.fetch_sub(1, Ordering::SeqCst);
    }
}

impl LdpcDecoder for ScriptedDecoder {
    fn decode(
        &mut self,
        llrs: &[f64],
        max_iterations: usize,
    ) -> Result<DecoderOutput, DecoderOutput> {
        assert_eq!(llrs.len(), N);
        assert_eq!(max_iterations, 10);
        self.decodes += 1;
        let script = &self.script;
        match script.panic_plan {
            PanicPlan::Never => (),
            PanicPlan::OddDecodersAtFirstDecode { expected } => {
                if self.decodes == 1 {
                    if self.index % 2 == 1 && self.index < 2 * expected {
                        script.panicked.fetch_add(1, Ordering::SeqCst);
                        panic!("scripted decoder panic (odd decoder)");
                    }
                    let start = Instant::now();
                    while script.panicked.load(Ordering::SeqCst) < expected
                        && start.elapsed() < Duration::from_secs(20)
                    {
                        std::thread::sleep(Duration::from_micros(200));
                    }
                }
            }
            PanicPlan::EveryDecoderAtDecode(n) => {
                if self.decodes == n {
                    script.panicked.fetch_add(1, Ordering::SeqCst);
                    panic!("scripted decoder panic (n-th decode)");
                }
            }
        }

        // Work out the Eb/N0 of this frame from the magnitude of the LLRs
        // (punctured bits have zero LLRs).
        let mut frame_point = None;
        if !script.llr_scales.is_empty() {
            let received = llrs.iter().filter(|&&x| x != 0.0).count();
            let mean = llrs.iter().map(|x| x.abs()).sum::<f64>() / received as f64;
            let nearest = script
                .llr_scales
                .iter()
                .enumerate()
                .min_by(|a, b| {
                    let da = (mean / a.1).ln().abs();
                    let db = (mean / b.1).ln().abs();
                    da.partial_cmp(&db).unwrap()
                })
                .unwrap()
                .0;
            // (The mean magnitude of the LLRs of a frame is within 2.1% (1
            // sigma) of the expected value for its Eb/N0. The Eb/N0s are at
            // least 1.5 dB apart, which is 0.345 in logarithmic units.)
            let deviation = (mean / script.llr_scales[nearest]).ln().abs();
            if deviation > 0.17 {
                // does not look like any of the Eb/N0s
                script.isolation_violations.fetch_add(1, Ordering::SeqCst);
                eprintln!(
                    "seeded_demo: decoder {}: mean LLR magnitude {mean} not expected ({:?})",
                    self.index, script.llr_scales
                );
            }
            match self.point {
                Some(p) if p != nearest => {
                    // this decoder has been used for another Eb/N0 before
                    script.isolation_violations.fetch_add(1, Ordering::SeqCst);
                    eprintln!(
                        "seeded_demo: decoder {} used for Eb/N0 number {p} and then {nearest}",
                        self.index
                    );
                }
                _ => (),
            }
            self.point = Some(nearest);
            frame_point = Some(nearest);
            let scale = script.llr_scales[nearest];
            let squares = llrs
                .iter()
                .filter(|&&x| x != 0.0)
                .map(|x| (x.abs() / scale - 1.0).powi(2))
                .sum::<f64>();
            let mut noise = script.noise_per_point[nearest].lock().unwrap();
            noise.0 += squares;
            noise.1 += received as u64;
        }

        let ticket = script.tickets.fetch_add(1, Ordering::SeqCst);
        let class = script.class(ticket);
        let (errors, iterations, converged) = [GOOD, CLASS_A, CLASS_B, CLASS_C][class];

        // Perturb the timing
        let r = splitmix(script.seed ^ ticket ^ 0xabcdef);
        if script.max_delay_us > 0 {
            let mut delay = r % script.max_delay_us;
            if r >> 58 == 0 {
                // 1 in 64 frames takes very long
                delay += 3000;
            }
            if script.slow_every > 0 && self.index % script.slow_every == 0 {
                delay = delay * 8 + 500;
            }
            match (r >> 20) % 3 {
                0 => std::thread::sleep(Duration::from_micros(delay)),
                1 => {
                    let start = Instant::now();
                    while start.elapsed() < Duration::from_micros(delay / 4) {
                        std::hint::spin_loop();
                    }
                }
                _ => std::thread::yield_now(),
            }
        }

        let mut codeword: Vec<u8> = llrs.iter().map(|&x| u8::from(x <= 0.0)).collect();
        for bit in codeword.iter_mut().take(errors as usize) {
            *bit ^= 1;
        }
        script.decoded[class].fetch_add(1, Ordering::SeqCst);
        if let Some(p) = frame_point {
            script.decoded_per_point[p][class].fetch_add(1, Ordering::SeqCst);
        }
        let output = DecoderOutput {
            codeword,
            iterations: iterations as usize,
        };
        if converged { Ok(output) } else { Err(output) }
    }
}

fn parity_check_matrix() -> SparseMatrix {
    // Staircase code: H = [H0 | H1] with H1 dual-diagonal
    let mut h = SparseMatrix::new(N - K, N);
    for j in 0..N - K {
        h.insert(j, j);
        h.insert(j, (j + 5) % K);
        h.insert(j, (j + 7) % K);
        h.insert(j, K + j);
        if j > 0 {
            h.insert(j, K + j - 1);
        }
    }
    h
}

fn same_f64(a: f64, b: f64) -> bool {
    (a.is_nan() && b.is_nan()) || a == b
}

// Checks that the statistics are exactly those of a set of whole frames of the
// scripted classes. Returns the number of frames of each class.
fn check_statistics(
    s: &Statistics,
    bch_max_errors: u64,
    script: &Script,
    point: usize,
    what: &str,
) -> [u64; 4] {
    let ctx = format!("{what}: {s:?}");
    let nf = s.num_frames;
    let fe = s.ldpc.frame_errors;
    let fd = s.false_decodes;
    let be = s.ldpc.bit_errors;
    assert!(fe <= nf, "{ctx}");
    assert!(fd <= fe, "{ctx}");
    // fe = a + b + c, fd = a + c, be = a + 5b + 6c
    let b = fe - fd;
    let num = (5 * b + 6 * fd) as i128 - be as i128;
    assert!(num >= 0 && num % 5 == 0, "{ctx}");
    let a = (num / 5) as u64;
    assert!(a <= fd, "{ctx}");
    let c = fd - a;
    let g = nf - fe;
    assert_eq!(be, a * CLASS_A.0 + b * CLASS_B.0 + c * CLASS_C.0, "{ctx}");
    assert_eq!(
        s.total_iterations,
        g * GOOD.1 + a * CLASS_A.1 + b * CLASS_B.1 + c * CLASS_C.1,
        "{ctx}"
    );
    assert_eq!(s.ldpc.correct_iterations, g * GOOD.1, "{ctx}");
    let counts = [g, a, b, c];
    // no more frames counted than frames decoded
    for (class, &count) in counts.iter().enumerate() {
        assert!(
            count <= script.decoded[class].load(Ordering::SeqCst),
            "class {class}: {ctx}"
        );
        if !script.llr_scales.is_empty() {
            assert!(
                count <= script.decoded_per_point[point][class].load(Ordering::SeqCst),
                "class {class}, point {point}: {ctx}"
            );
        }
    }
    assert!(
        same_f64(s.average_iterations, s.total_iterations as f64 / nf as f64),
        "{ctx}"
    );
    assert!(
        same_f64(s.ldpc.ber, be as f64 / (K as f64 * nf as f64)),
        "{ctx}"
    );
    assert!(same_f64(s.ldpc.fer, fe as f64 / nf as f64), "{ctx}");
    assert!(
        same_f64(
            s.ldpc.average_iterations_correct,
            s.ldpc.correct_iterations as f64 / (nf - fe) as f64
        ),
        "{ctx}"
    );
    assert!(
        same_f64(
            s.throughput_mbps,
            1e-6 * (K as f64 * nf as f64) / s.elapsed.as_secs_f64()
        ),
        "{ctx}"
    );
    if bch_max_errors > 0 {
        let bch = s.bch.as_ref().expect("BCH statistics missing");
        let classes = [GOOD, CLASS_A, CLASS_B, CLASS_C];
        let mut bch_fe = 0;
        let mut bch_be = 0;
        let mut bch_ci = 0;
        for (class, &count) in counts.iter().enumerate() {
            if classes[class].0 > bch_max_errors {
                bch_fe += count;
                bch_be += count * classes[class].0;
            } else {
                bch_ci += count * classes[class].1;
            }
        }
        assert_eq!(bch.frame_errors, bch_fe, "{ctx}");
        assert_eq!(bch.bit_errors, bch_be, "{ctx}");
        assert_eq!(bch.correct_iterations, bch_ci, "{ctx}");
        assert!(
            same_f64(bch.ber, bch_be as f64 / (K as f64 * nf as f64)),
            "{ctx}"
        );
        assert!(same_f64(bch.fer, bch_fe as f64 / nf as f64), "{ctx}");
        assert!(
            same_f64(
                bch.average_iterations_correct,
                bch_ci as f64 / (nf - bch_fe) as f64
            ),
            "{ctx}"
        );
    } else {
        assert!(s.bch.is_none(), "{ctx}");
    }
    counts
}

fn errors_for_termination(s: &Statistics) -> u64 {
    match &s.bch {
        Some(bch) => bch.frame_errors,
        None => s.ldpc.frame_errors,
    }
}

fn same_counts(a: &Statistics, b: &Statistics) -> bool {
    a.ebn0_db == b.ebn0_db
        && a.num_frames == b.num_frames
        && a.total_iterations == b.total_iterations
        && a.false_decodes == b.false_decodes
        && same_f64(a.average_iterations, b.average_iterations)
        && same_code_counts(&a.ldpc, &b.ldpc)
        && match (&a.bch, &b.bch) {
            (Some(x), Some(y)) => same_code_counts(x, y),
            (None, None) => true,
            _ => false,
        }
}

fn same_code_counts(
    a: &ldpc_toolbox::simulation::ber::CodeStatistics,
    b: &ldpc_toolbox::simulation::ber::CodeStatistics,
) -> bool {
    a.bit_errors == b.bit_errors
        && a.frame_errors == b.frame_errors
        && a.correct_iterations == b.correct_iterations
        && same_f64(a.ber, b.ber)
        && same_f64(a.fer, b.fer)
        && same_f64(a.average_iterations_correct, b.average_iterations_correct)
}

#[derive(Debug, Clone)]
struct Scenario {
    name: &'static str,
    psk8: bool,
    puncturing: Option<Vec<bool>>,
    interleaving: Option<isize>,
    max_frame_errors: u64,
    bch_max_errors: u64,
    ebn0s: Vec<f32>,
    report_interval: Option<Duration>,
    panic_plan: PanicPlan,
    slow_every: usize,
    max_delay_us: u64,
    seed: u64,
    expect: Expect,
}

#[derive(Debug, Clone, Copy, PartialEq, Eq)]
enum Expect {
    // run returns Ok with statistics for every Eb/N0
    Success,
    // run returns Err; no frame can be simulated at all
    FailureWithoutFrames,
    // run returns Err after completing the first Eb/N0 exactly
    FailureAfterCompletePoint,
    // run returns Err; the first Eb/N0 cannot be completed
    FailureWithIncompletePoint,
}

struct Outcome {
    result: Result<Vec<Statistics>, String>,
    reports: Vec<Report>,
    report_channel_closed: bool,
    live_after_run: usize,
}

fn run_test<M: Modulation>(sc: &Scenario, script: &Arc<Script>) -> Outcome {
    let (tx, rx) = mpsc::channel();
    let reporter = sc.report_interval.map(|interval| Reporter { tx, interval });
    let test = BerTest::<M, ScriptedFactory>::new(
        parity_check_matrix(),
        ScriptedFactory(Arc::clone(script)),
        sc.puncturing.as_deref(),
        sc.interleaving,
        sc.max_frame_errors,
        10,
        &sc.ebn0s,
        reporter,
        sc.bch_max_errors,
    )
    .expect("BerTest::new failed");
    let result = test.run().map_err(|e| e.to_string());
    let live_after_run = script.live.load(Ordering::SeqCst);
    let mut reports = Vec::new();
    let report_channel_closed = loop {
        match rx.try_recv() {
            Ok(r) => reports.push(r),
            Err(mpsc::TryRecvError::Disconnected) => break true,
            Err(mpsc::TryRecvError::Empty) => break false,
        }
    };
    Outcome {
        result,
        reports,
        report_channel_closed,
        live_after_run,
    }
}

fn run_scenario(sc: &Scenario) -> usize {
    // Expected magnitude of the LLRs for each Eb/N0 (BPSK only)
    let llr_scales = if sc.psk8 {
        Vec::new()
    } else {
        let n = match &sc.puncturing {
            Some(p) => {
                let puncturer_rate = p.len() as f64 / p.iter().filter(|&&b| b).count() as f64;
                (N as f64 / puncturer_rate).round()
            }
            None => N as f64,
        };
        let rate = K as f64 / n;
        sc.ebn0s
            .iter()
            .map(|&ebn0_db| {
                let ebn0 = 10.0_f64.powf(0.1 * f64::from(ebn0_db));
                // 2 / noise_sigma^2
                4.0 * rate * ebn0
            })
            .collect()
    };
    let script = Script::new(
        sc.seed,
        sc.panic_plan,
        sc.slow_every,
        sc.max_delay_us,
        llr_scales,
    );
    let (done_tx, done_rx) = mpsc::channel();
    let handle = std::thread::Builder::new()
        .name(format!("scenario {}", sc.name))
        .spawn({
            let sc = sc.clone();
            let script = Arc::clone(&script);
            move || {
                let outcome = if sc.psk8 {
                    run_test::<Psk8>(&sc, &script)
                } else {
                    run_test::<Bpsk>(&sc, &script)
                };
                let _ = done_tx.send(outcome);
            }
        })
        .unwrap();
    let outcome = match done_rx.recv_timeout(SCENARIO_TIMEOUT) {
        Ok(outcome) => outcome,
        Err(mpsc::RecvTimeoutError::Timeout) => {
            panic!("scenario {}: the BER test did not terminate", sc.name)
        }
        Err(mpsc::RecvTimeoutError::Disconnected) => {
            handle.join().unwrap();
            unreachable!()
        }
    };
    handle.join().unwrap();
    let name = sc.name;

    // All the workers have been joined when run() returns: no decoder is alive.
    assert_eq!(outcome.live_after_run, 0, "{name}: decoders alive after run");
    assert_eq!(script.live.load(Ordering::SeqCst), 0, "{name}");

    // Reports: a sequence of statistics followed by exactly one Finished, and
    // nothing else.
    if sc.report_interval.is_some() {
        assert!(outcome.report_channel_closed, "{name}");
        assert_eq!(
            outcome.reports.last(),
            Some(&Report::Finished),
            "{name}: last report is not Finished"
        );
        let finished = outcome
            .reports
            .iter()
            .filter(|r| matches!(r, Report::Finished))
            .count();
        assert_eq!(finished, 1, "{name}");
    } else {
        assert!(outcome.reports.is_empty());
    }
    let stats_reports: Vec<&Statistics> = outcome
        .reports
        .iter()
        .filter_map(|r| match r {
            Report::Statistics(s) => Some(s),
            Report::Finished => None,
        })
        .collect();

    // Every report is exact, reports of the same Eb/N0 are contiguous, follow
    // the order of the Eb/N0 list and never go backwards.
    let mut point = 0usize;
    let mut last_per_point: Vec<Option<&Statistics>> = vec![None; sc.ebn0s.len()];
    for s in &stats_reports {
        while point < sc.ebn0s.len() && sc.ebn0s[point] != s.ebn0_db {
            assert!(
                last_per_point[point].is_some(),
                "{name}: no report for Eb/N0 {}",
                sc.ebn0s[point]
            );
            point += 1;
        }
        assert!(point < sc.ebn0s.len(), "{name}: unexpected Eb/N0 in {s:?}");
        check_statistics(s, sc.bch_max_errors, &script, point, name);
        assert!(
            errors_for_termination(s) <= sc.max_frame_errors,
            "{name}: too many frame errors in {s:?}"
        );
        if let Some(prev) = last_per_point[point] {
            assert!(prev.num_frames <= s.num_frames, "{name}");
            assert!(prev.total_iterations <= s.total_iterations, "{name}");
            assert!(prev.false_decodes <= s.false_decodes, "{name}");
            assert!(prev.ldpc.bit_errors <= s.ldpc.bit_errors, "{name}");
            assert!(prev.ldpc.frame_errors <= s.ldpc.frame_errors, "{name}");
            if errors_for_termination(prev) == sc.max_frame_errors {
                // nothing is counted after reaching the target
                assert!(same_counts(prev, s), "{name}: {prev:?} {s:?}");
            }
        }
        last_per_point[point] = Some(s);
    }

    // Isolation of the Eb/N0 cases
    assert_eq!(
        script.isolation_violations.load(Ordering::SeqCst),
        0,
        "{name}: a decoder has seen frames of different Eb/N0s"
    );
    for (j, noise) in script.noise_per_point.iter().enumerate() {
        let (squares, samples) = *noise.lock().unwrap();
        if samples >= 1500 {
            // The normalized noise in the LLRs has variance noise_sigma^2
            let expected = 2.0 / script.llr_scales[j];
            let measured = squares / samples as f64;
            assert!(
                (measured / expected).ln().abs() < 0.2,
                "{name}: point {j}: noise variance {measured}, expected {expected}"
            );
        }
    }

    let builds = script.builds.load(Ordering::SeqCst);
    match sc.expect {
        Expect::Success => {
            let stats = match &outcome.result {
                Ok(stats) => stats,
                Err(e) => panic!("{name}: unexpected error {e}"),
            };
            assert_eq!(stats.len(), sc.ebn0s.len(), "{name}");
            for (j, s) in stats.iter().enumerate() {
                assert_eq!(s.ebn0_db, sc.ebn0s[j], "{name}");
                check_statistics(s, sc.bch_max_errors, &script, j, name);
                assert_eq!(
                    errors_for_termination(s),
                    sc.max_frame_errors,
                    "{name}: the point did not stop exactly at the target: {s:?}"
                );
                if sc.max_frame_errors == 0 {
                    assert_eq!(s.num_frames, 0, "{name}");
                    assert!(s.ldpc.ber.is_nan() && s.ldpc.fer.is_nan(), "{name}");
                }
                if sc.report_interval.is_some() {
                    let last = last_per_point[j]
                        .unwrap_or_else(|| panic!("{name}: no report for point {j}"));
                    assert!(
                        same_counts(last, s),
                        "{name}: final report {last:?} differs from result {s:?}"
                    );
                }
            }
        }
        Expect::FailureWithoutFrames
        | Expect::FailureAfterCompletePoint
        | Expect::FailureWithIncompletePoint => {
            assert!(
                outcome.result.is_err(),
                "{name}: the run should have failed"
            );
            if sc.report_interval.is_some() {
                // The first point delivers its last statistics; later points
                // are never started.
                let last = last_per_point[0]
                    .unwrap_or_else(|| panic!("{name}: no final report for the failed point"));
                for later in &last_per_point[1..] {
                    assert!(later.is_none(), "{name}");
                }
                match sc.expect {
                    Expect::FailureWithoutFrames => {
                        assert_eq!(last.num_frames, 0, "{name}");
                        assert!(last.ldpc.ber.is_nan(), "{name}");
                    }
                    Expect::FailureAfterCompletePoint => {
                        assert_eq!(
                            errors_for_termination(last),
                            sc.max_frame_errors,
                            "{name}"
                        );
                    }
                    Expect::FailureWithIncompletePoint => {
                        assert!(errors_for_termination(last) < sc.max_frame_errors, "{name}");
                    }
                    Expect::Success => unreachable!(),
                }
            }
        }
    }
    builds
}

fn base_scenario(name: &'static str, seed: u64) -> Scenario {
    Scenario {
        name,
        psk8: false,
        puncturing: None,
        interleaving: None,
        max_frame_errors: 40,
        bch_max_errors: 0,
        ebn0s: vec![20.0, 21.5, 23.0],
        report_interval: Some(Duration::ZERO),
        panic_plan: PanicPlan::Never,
        slow_every: 0,
        max_delay_us: 200,
        seed,
        expect: Expect::Success,
    }
}

fn run_all_scenarios() {
    // Silence the panics of the (unnamed) worker threads, which are part of
    // the demonstration.
    let default_hook = std::panic::take_hook();
    std::panic::set_hook(Box::new(move |info| {
        if std::thread::current().name().is_some() {
            default_hook(info);
        }
    }));

    // Find out the number of workers (decoders built for one Eb/N0).
    let mut probe = base_scenario("probe", 1);
    probe.ebn0s = vec![20.0];
    probe.max_frame_errors = 3;
    let workers = run_scenario(&probe);
    assert!(workers >= 1);
    eprintln!("seeded_demo: {workers} workers");

    let mut seed = 100;
    let mut next_seed = || {
        seed += 1;
        seed
    };

    // Plain runs with different timings
    for round in 0..4 {
        let mut sc = base_scenario("plain", next_seed());
        sc.max_delay_us = [0, 50, 300, 1000][round];
        sc.report_interval = [
            Some(Duration::ZERO),
            Some(Duration::from_micros(500)),
            Some(Duration::from_secs(3600)),
            None,
        ][round];
        sc.slow_every = [0, 2, 3, 0][round];
        run_scenario(&sc);
    }

    // Outer code thresholds
    for (round, &bch) in [2u64, 5, 1, 2].iter().enumerate() {
        let mut sc = base_scenario("bch", next_seed());
        sc.bch_max_errors = bch;
        sc.max_frame_errors = [25, 10, 40, 1][round];
        sc.slow_every = round;
        run_scenario(&sc);
    }

    // Smallest targets
    for &target in &[1u64, 2, 0] {
        let mut sc = base_scenario("small target", next_seed());
        sc.max_frame_errors = target;
        sc.ebn0s = vec![20.0, 21.5, 23.0, 24.5, 26.0, 27.5];
        run_scenario(&sc);
        sc.bch_max_errors = 5;
        sc.seed = next_seed();
        run_scenario(&sc);
    }

    // No Eb/N0 at all
    {
        let mut sc = base_scenario("no points", next_seed());
        sc.ebn0s = vec![];
        run_scenario(&sc);
    }

    // Puncturing (parity only), interleaving and 8PSK that fit
    {
        let mut sc = base_scenario("punctured", next_seed());
        sc.puncturing = Some(vec![true, true, true, false]);
        run_scenario(&sc);
        let mut sc = base_scenario("interleaved", next_seed());
        sc.interleaving = Some(3);
        run_scenario(&sc);
        let mut sc = base_scenario("interleaved backwards", next_seed());
        sc.interleaving = Some(-4);
        sc.bch_max_errors = 2;
        run_scenario(&sc);
        let mut sc = base_scenario("8psk", next_seed());
        sc.psk8 = true;
        sc.interleaving = Some(3);
        sc.puncturing = Some(vec![true, true, true, false]);
        sc.ebn0s = vec![30.0, 31.0];
        run_scenario(&sc);
    }

    // Stage returns an error: the puncturing pattern does not fit
    for &interval in &[Some(Duration::ZERO), None] {
        let mut sc = base_scenario("puncturing does not fit", next_seed());
        sc.puncturing = Some(vec![true, true, true, true, false]);
        sc.report_interval = interval;
        sc.expect = Expect::FailureWithoutFrames;
        run_scenario(&sc);
        sc.bch_max_errors = 2;
        run_scenario(&sc);
    }

    // Stage panics in every worker: interleaver and modulator
    {
        let mut sc = base_scenario("interleaver does not fit", next_seed());
        sc.interleaving = Some(5);
        sc.expect = Expect::FailureWithoutFrames;
        run_scenario(&sc);
        let mut sc = base_scenario("modulator does not fit", next_seed());
        sc.psk8 = true;
        sc.puncturing = Some(vec![true, true, false]);
        sc.ebn0s = vec![30.0, 31.0];
        sc.expect = Expect::FailureWithoutFrames;
        run_scenario(&sc);
    }

    // Decoder panics in some workers (none if there is a single worker)
    for round in 0..3 {
        let mut sc = base_scenario("decoder panics in some workers", next_seed());
        sc.panic_plan = PanicPlan::OddDecodersAtFirstDecode {
            expected: workers / 2,
        };
        sc.bch_max_errors = [0, 2, 0][round];
        sc.max_frame_errors = [30, 10, 1][round];
        sc.expect = if workers >= 2 {
            Expect::FailureAfterCompletePoint
        } else {
            Expect::Success
        };
        run_scenario(&sc);
    }

    // Decoder panics in every worker after some frames
    for &nth in &[1u64, 2, 4] {
        let mut sc = base_scenario("decoder panics in every worker", next_seed());
        sc.panic_plan = PanicPlan::EveryDecoderAtDecode(nth);
        sc.max_frame_errors = 100_000;
        sc.expect = if nth == 1 {
            Expect::FailureWithoutFrames
        } else {
            Expect::FailureWithIncompletePoint
        };
        run_scenario(&sc);
    }

    // Many quick runs to go through many schedules
    for round in 0..60 {
        let mut sc = base_scenario("quick", next_seed());
        sc.max_delay_us = [0, 20, 100][round % 3];
        sc.max_frame_errors = 1 + (round as u64 % 7);
        sc.bch_max_errors = [0, 2, 5][(round / 3) % 3];
        sc.ebn0s = vec![20.0, 22.0];
        sc.slow_every = round % 4;
        run_scenario(&sc);
    }
}

fn allowed_cpus() -> Option<Vec<usize>> {
    let status = std::fs::read_to_string("/proc/self/status").ok()?;
    let line = status
        .lines()
        .find(|l| l.starts_with("Cpus_allowed_list:"))?;
    let list = line.split(':').nth(1)?.trim();
    let mut cpus = Vec::new();
    for part in list.split(',') {
        let mut ends = part.split('-');
        let first: usize = ends.next()?.trim().parse().ok()?;
        let last: usize = match ends.next() {
            Some(l) => l.trim().parse().ok()?,
            None => first,
        };
        cpus.extend(first..=last);
    }
    Some(cpus)
}

const CHILD_ENV: &str = "SEEDED_DEMO_CHILD";

#[test]
fn ber_statistics_exact_and_terminates() {
    run_all_scenarios();
    if std::env::var_os(CHILD_ENV).is_some() {
        return;
    }

    // Run again with fewer CPUs (and so fewer workers)
    let have_taskset = std::process::Command::new("taskset")
        .arg("--version")
        .stdout(std::process::Stdio::null())
        .stderr(std::process::Stdio::null())
        .status()
        .map(|s| s.success())
        .unwrap_or(false);
    let (Some(cpus), true) = (allowed_cpus(), have_taskset) else {
        eprintln!("seeded_demo: taskset not available, skipping the runs with fewer CPUs");
        return;
    };
    let exe = std::env::current_exe().unwrap();
    for &count in &[1usize, 2, 3] {
        if count > cpus.len() {
            continue;
        }
        let list = cpus[..count]
            .iter()
            .map(|c| c.to_string())
            .collect::<Vec<_>>()
            .join(",");
        let mut child = std::process::Command::new("taskset")
            .arg("-c")
            .arg(&list)
            .arg(&exe)
            .arg("--exact")
            .arg("ber_statistics_exact_and_terminates")
            .arg("--nocapture")
            .env(CHILD_ENV, "1")
            .stdout(std::process::Stdio::null())
            .spawn()
            .unwrap();
        let start = Instant::now();
        let status = loop {
            if let Some(status) = child.try_wait().unwrap() {
                break status;
            }
            if start.elapsed() > Duration::from_secs(900) {
                let _ = child.kill();
                panic!("run with {count} CPUs did not terminate");
            }
            std::thread::sleep(Duration::from_millis(50));
        };
        assert!(status.success(), "run with {count} CPUs failed");
    }
}
