// Demonstration for property C10: a decoder object carries no state from one
// frame to the next.
//
// For every one of the 36 decoder implementations, several parity check
// matrices (regular, irregular, with unconnected / degree-1 variable nodes,
// built in shuffled insertion order and through alist), and pseudo-random call
// histories (clean frames, correctable frames, hopeless frames, LLR magnitudes
// from 1e-30 to 1e30, zeros, iteration limits including 0), every call on the
// reused decoder must return exactly what a freshly built decoder returns for
// the same arguments. The same is checked for clones taken in the middle of a
// history and for the statically typed decoders.
//
// Only the public API of `ldpc_toolbox` and std are used. Everything is
// deterministic (fixed seeds) and bounded (small codes, bounded iterations); a
// watchdog aborts the test if it ever takes unreasonably long.

use ldpc_toolbox::decoder::{
    DecoderOutput, LdpcDecoder,
    arithmetic::*,
    factory::{DecoderFactory, DecoderImplementation},
    flooding, horizontal_layered,
};
use ldpc_toolbox::sparse::SparseMatrix;
use std::panic::{AssertUnwindSafe, catch_unwind};
use std::sync::mpsc;
use std::time::Duration;

const IMPLEMENTATIONS: [&str; 36] = [
    "Phif64",
    "Phif32",
    "Tanhf64",
    "Tanhf32",
    "Minstarapproxf64",
    "Minstarapproxf32",
    "Minstarapproxi8",
    "Minstarapproxi8Jones",
    "Minstarapproxi8PartialHardLimit",
    "Minstarapproxi8JonesPartialHardLimit",
    "Minstarapproxi8Deg1Clip",
    "Minstarapproxi8JonesDeg1Clip",
    "Minstarapproxi8PartialHardLimitDeg1Clip",
    "Minstarapproxi8JonesPartialHardLimitDeg1Clip",
    "Aminstarf64",
    "Aminstarf32",
    "Aminstari8",
    "Aminstari8Jones",
    "Aminstari8PartialHardLimit",
    "Aminstari8JonesPartialHardLimit",
    "Aminstari8Deg1Clip",
    "Aminstari8JonesDeg1Clip",
    "Aminstari8PartialHardLimitDeg1Clip",
    "Aminstari8JonesPartialHardLimitDeg1Clip",
    "HLPhif64",
    "HLPhif32",
    "HLTanhf64",
    "HLTanhf32",
    "HLMinstarapproxf64",
    "HLMinstarapproxf32",
    "HLMinstarapproxi8",
    "HLMinstarapproxi8PartialHardLimit",
    "HLAminstarf64",
    "HLAminstarf32",
    "HLAminstari8",
    "HLAminstari8PartialHardLimit",
];

// ---------------------------------------------------------------------------
// Deterministic pseudo-random numbers (splitmix64)
// ---------------------------------------------------------------------------

struct Rng(u64);

impl Rng {
    fn next(&mut self) -> u64 {
        self.0 = self.0.wrapping_add(0x9e37_79b9_7f4a_7c15);
        let mut z = self.0;
        z = (z ^ (z >> 30)).wrapping_mul(0xbf58_476d_1ce4_e5b9);
        z = (z ^ (z >> 27)).wrapping_mul(0x94d0_49bb_1331_11eb);
        z ^ (z >> 31)
    }

    fn below(&mut self, n: usize) -> usize {
        (self.next() % (n as u64)) as usize
    }

    fn unit(&mut self) -> f64 {
        (self.next() >> 11) as f64 / (1u64 << 53) as f64
    }

    fn shuffle<T>(&mut self, v: &mut [T]) {
        for i in (1..v.len()).rev() {
            let j = self.below(i + 1);
            v.swap(i, j);
        }
    }
}

// ---------------------------------------------------------------------------
// Fingerprint of everything that was returned (FNV-1a); printed at the end so
// that two builds can be compared with `--nocapture`.
// ---------------------------------------------------------------------------

struct Fingerprint(u64, [u64; 4]);

impl Fingerprint {
    fn new() -> Fingerprint {
        Fingerprint(0xcbf2_9ce4_8422_2325, [0; 4])
    }

    fn byte(&mut self, b: u8) {
        self.0 ^= u64::from(b);
        self.0 = self.0.wrapping_mul(0x0000_0100_0000_01b3);
    }

    fn word(&mut self, w: u64) {
        for b in w.to_le_bytes() {
            self.byte(b);
        }
    }

    fn result(&mut self, r: &Result<DecoderOutput, DecoderOutput>) {
        let (tag, o) = match r {
            Ok(o) => (1u8, o),
            Err(o) => (2u8, o),
        };
        // statistics: clean frames, successes, failures, zero-iteration failures
        let class = match r {
            Ok(o) if o.iterations == 0 => 0,
            Ok(_) => 1,
            Err(o) if o.iterations > 0 => 2,
            Err(_) => 3,
        };
        self.1[class] += 1;
        self.byte(tag);
        self.word(o.iterations as u64);
        self.word(o.codeword.len() as u64);
        for &b in &o.codeword {
            self.byte(b);
        }
    }
}

// ---------------------------------------------------------------------------
// Parity check matrices
// ---------------------------------------------------------------------------

fn from_entries(nrows: usize, ncols: usize, entries: &[(usize, usize)]) -> SparseMatrix {
    let mut h = SparseMatrix::new(nrows, ncols);
    for &(r, c) in entries {
        h.insert(r, c);
    }
    h
}

fn johnson() -> SparseMatrix {
    // Example 2.5 in Sarah J. Johnson - Iterative Error Correction
    let mut h = SparseMatrix::new(4, 6);
    h.insert_row(0, [0, 1, 3].iter());
    h.insert_row(1, [1, 2, 4].iter());
    h.insert_row(2, [0, 4, 5].iter());
    h.insert_row(3, [2, 3, 5].iter());
    h
}

// Random matrix in which every check node has degree >= 2 (degree-1 check
// nodes make the min* arithmetics panic by design, see `panicking_shapes`).
// The entries are inserted in shuffled order, so the per-row and per-column
// iteration orders are not sorted.
fn random_matrix(
    rng: &mut Rng,
    nrows: usize,
    ncols: usize,
    col_weight: usize,
    unconnected_cols: usize,
    degree_one_cols: usize,
) -> SparseMatrix {
    let mut entries: Vec<(usize, usize)> = Vec::new();
    let mut row_deg = vec![0usize; nrows];
    for c in 0..ncols {
        let w = if c < unconnected_cols {
            0
        } else if c < unconnected_cols + degree_one_cols {
            1
        } else {
            col_weight.min(nrows)
        };
        let mut rows: Vec<usize> = (0..nrows).collect();
        rng.shuffle(&mut rows);
        for &r in rows.iter().take(w) {
            entries.push((r, c));
            row_deg[r] += 1;
        }
    }
    // top up rows of degree < 2
    for r in 0..nrows {
        let mut c = rng.below(ncols);
        while row_deg[r] < 2 {
            if !entries.contains(&(r, c)) {
                entries.push((r, c));
                row_deg[r] += 1;
            }
            c = (c + 1) % ncols;
        }
    }
    rng.shuffle(&mut entries);
    from_entries(nrows, ncols, &entries)
}

fn matrices() -> Vec<(&'static str, SparseMatrix)> {
    let mut rng = Rng(0xC10_0001);
    let mut v = Vec::new();
    v.push(("johnson", johnson()));
    v.push(("regular24", random_matrix(&mut rng, 12, 24, 3, 0, 0)));
    v.push(("irregular20", random_matrix(&mut rng, 9, 20, 3, 2, 3)));
    // the same matrix after a round trip through alist: the iteration order
    // of rows and columns is different (sorted), the code is the same
    let irregular = random_matrix(&mut rng, 10, 18, 2, 1, 2);
    let roundtrip = SparseMatrix::from_alist(&irregular.alist()).unwrap();
    v.push(("irregular18", irregular));
    v.push(("irregular18-alist", roundtrip));
    v.push(("dense8", random_matrix(&mut rng, 5, 8, 4, 0, 0)));
    v.push(("wide60", random_matrix(&mut rng, 20, 60, 3, 0, 1)));
    v
}

// ---------------------------------------------------------------------------
// Frames
// ---------------------------------------------------------------------------

fn magnitude(rng: &mut Rng) -> f64 {
    match rng.below(12) {
        0 => 0.0,
        1 => 1e30,
        2 => 1e-30,
        3 => 10f64.powi(rng.below(61) as i32 - 30),
        4 => 15.875,        // exactly 127 / 8
        5 => 15.9375,       // just above the 8-bit range
        6 => 0.0625,        // rounds to 0 or 1 after 8-bit quantisation
        7 => 14.5 * rng.unit(),
        _ => 1.3863 + 2.0 * (rng.unit() - 0.5),
    }
}

// LLRs around the all-zeros codeword (which belongs to every linear code).
fn frame(rng: &mut Rng, n: usize, kind: usize) -> Vec<f64> {
    let mut llrs: Vec<f64> = (0..n).map(|_| magnitude(rng)).collect();
    match kind {
        // clean frame (zeros count as bit 1 for the syndrome check, so this is
        // not always a codeword, which is fine)
        0 => {}
        // one flipped bit
        1 => {
            let j = rng.below(n);
            llrs[j] = -llrs[j].abs().max(0.3);
        }
        // a few flipped bits
        2 => {
            for _ in 0..(1 + rng.below(3)) {
                let j = rng.below(n);
                llrs[j] = -llrs[j];
            }
        }
        // hopeless frame: random signs
        3 => {
            for x in llrs.iter_mut() {
                if rng.below(2) == 0 {
                    *x = -*x;
                }
            }
        }
        // moderate frame with plain magnitudes, many errors
        4 => {
            for x in llrs.iter_mut() {
                *x = 1.3863 + 4.0 * (rng.unit() - 0.5);
                if rng.below(5) == 0 {
                    *x = -*x;
                }
            }
        }
        // saturated frame: everything huge, some signs wrong
        5 => {
            for x in llrs.iter_mut() {
                *x = if rng.below(6) == 0 { -1e30 } else { 1e30 };
            }
        }
        // all zeros and negative zeros
        6 => {
            for x in llrs.iter_mut() {
                *x = if rng.below(2) == 0 { 0.0 } else { -0.0 };
            }
        }
        // tiny magnitudes
        _ => {
            for x in llrs.iter_mut() {
                *x = 1e-30 * if rng.below(3) == 0 { -1.0 } else { 1.0 };
            }
        }
    }
    llrs
}

const LIMITS: [usize; 12] = [0, 1, 0, 2, 3, 5, 0, 10, 25, 1, 50, 7];

fn build(name: &str, h: &SparseMatrix) -> Box<dyn LdpcDecoder> {
    let implementation: DecoderImplementation = name.parse().expect("known implementation");
    // Display and FromStr must agree
    assert_eq!(implementation.to_string(), name);
    implementation.build_decoder(h.clone())
}

fn check_output_shape(r: &Result<DecoderOutput, DecoderOutput>, n: usize, limit: usize) {
    match r {
        Ok(o) => {
            assert_eq!(o.codeword.len(), n);
            assert!(o.iterations <= limit);
            assert!(o.codeword.iter().all(|&b| b <= 1));
        }
        Err(o) => {
            assert_eq!(o.codeword.len(), n);
            assert_eq!(o.iterations, limit);
            assert!(o.codeword.iter().all(|&b| b <= 1));
        }
    }
}

// A successful decode must return a word that satisfies all parity checks.
fn check_success_is_codeword(h: &SparseMatrix, r: &Result<DecoderOutput, DecoderOutput>) {
    if let Ok(o) = r {
        for row in 0..h.num_rows() {
            let parity = h
                .iter_row(row)
                .filter(|&&c| o.codeword[c] == 1)
                .count()
                % 2;
            assert_eq!(parity, 0, "Ok() output violates parity check {row}");
        }
    }
}

fn histories(fp: &mut Fingerprint) {
    let matrices = matrices();
    for (mi, (mname, h)) in matrices.iter().enumerate() {
        let n = h.num_cols();
        for (ii, name) in IMPLEMENTATIONS.iter().enumerate() {
            let mut rng = Rng(0xC10_1000 + 977 * mi as u64 + ii as u64);
            let mut reused = build(name, h);
            let mut clone_source: Option<Vec<f64>> = None;
            let calls = 22;
            for call in 0..calls {
                let kind = rng.below(8);
                let llrs = if call % 7 == 6 {
                    // now and then repeat an earlier frame with another limit
                    clone_source.clone().unwrap_or_else(|| frame(&mut rng, n, kind))
                } else {
                    frame(&mut rng, n, kind)
                };
                if call % 5 == 1 {
                    clone_source = Some(llrs.clone());
                }
                let limit = LIMITS[rng.below(LIMITS.len())];
                let got = reused.decode(&llrs, limit);
                let want = build(name, h).decode(&llrs, limit);
                assert_eq!(
                    got, want,
                    "{name} on {mname}: call {call} (limit {limit}) differs from a fresh decoder"
                );
                check_output_shape(&got, n, limit);
                check_success_is_codeword(h, &got);
                fp.result(&got);
                // the same call again: must not depend on having just seen it
                if call % 4 == 3 {
                    let again = reused.decode(&llrs, limit);
                    assert_eq!(again, want, "{name} on {mname}: repeated call {call} differs");
                }
            }
        }
    }
}

// Statically typed decoders, clones taken in the middle of a history.
fn typed_and_clones(fp: &mut Fingerprint) {
    fn run<D, F>(fp: &mut Fingerprint, label: &str, h: &SparseMatrix, make: F, seed: u64)
    where
        D: LdpcDecoder + Clone,
        F: Fn(SparseMatrix) -> D,
    {
        let n = h.num_cols();
        let mut rng = Rng(seed);
        let mut reused = make(h.clone());
        for call in 0..16 {
            let kind = rng.below(8);
            let llrs = frame(&mut rng, n, kind);
            let limit = LIMITS[rng.below(LIMITS.len())];
            let mut cloned = reused.clone();
            let want = make(h.clone()).decode(&llrs, limit);
            let got_clone = cloned.decode(&llrs, limit);
            let got = reused.decode(&llrs, limit);
            assert_eq!(got, want, "{label}: call {call} differs from a fresh decoder");
            assert_eq!(got_clone, want, "{label}: clone at call {call} differs");
            check_success_is_codeword(h, &got);
            fp.result(&got);
        }
    }

    let mut rng = Rng(0xC10_2000);
    let hs = [
        johnson(),
        random_matrix(&mut rng, 8, 16, 3, 1, 1),
        random_matrix(&mut rng, 15, 30, 3, 0, 2),
    ];
    for (k, h) in hs.iter().enumerate() {
        let s = 0xC10_3000 + 100 * k as u64;
        run(fp, "flooding Phif64", h, |h| flooding::Decoder::new(h, Phif64::new()), s + 1);
        run(fp, "flooding Phif32", h, |h| flooding::Decoder::new(h, Phif32::new()), s + 2);
        run(fp, "flooding Tanhf64", h, |h| flooding::Decoder::new(h, Tanhf64::new()), s + 3);
        run(fp, "flooding Tanhf32", h, |h| flooding::Decoder::new(h, Tanhf32::new()), s + 4);
        run(
            fp,
            "flooding Minstarapproxf64",
            h,
            |h| flooding::Decoder::new(h, Minstarapproxf64::new()),
            s + 5,
        );
        run(
            fp,
            "flooding Minstarapproxi8Jones",
            h,
            |h| flooding::Decoder::new(h, Minstarapproxi8Jones::new()),
            s + 6,
        );
        run(fp, "flooding Aminstarf32", h, |h| flooding::Decoder::new(h, Aminstarf32::new()), s + 7);
        run(
            fp,
            "flooding Aminstari8JonesPartialHardLimitDeg1Clip",
            h,
            |h| flooding::Decoder::new(h, Aminstari8JonesPartialHardLimitDeg1Clip::new()),
            s + 8,
        );
        run(fp, "hl Phif64", h, |h| horizontal_layered::Decoder::new(h, Phif64::new()), s + 9);
        run(fp, "hl Tanhf32", h, |h| horizontal_layered::Decoder::new(h, Tanhf32::new()), s + 10);
        run(
            fp,
            "hl Minstarapproxf32",
            h,
            |h| horizontal_layered::Decoder::new(h, Minstarapproxf32::new()),
            s + 11,
        );
        run(
            fp,
            "hl Minstarapproxi8PartialHardLimit",
            h,
            |h| horizontal_layered::Decoder::new(h, Minstarapproxi8PartialHardLimit::new()),
            s + 12,
        );
        run(fp, "hl Aminstarf64", h, |h| horizontal_layered::Decoder::new(h, Aminstarf64::new()), s + 13);
        run(
            fp,
            "hl Aminstari8Jones (not in the factory)",
            h,
            |h| horizontal_layered::Decoder::new(h, Aminstari8Jones::new()),
            s + 14,
        );
    }
}

// One decoder object shared by two interleaved streams of very different
// frames (as a BER worker or a C handle would see).
fn interleaved_streams(fp: &mut Fingerprint) {
    let mut rng = Rng(0xC10_4000);
    let h = random_matrix(&mut rng, 16, 32, 3, 0, 0);
    let n = h.num_cols();
    for name in IMPLEMENTATIONS.iter() {
        let mut shared = build(name, &h);
        let mut only_a = build(name, &h);
        for round in 0..10 {
            let a = frame(&mut rng, n, 4);
            let b = frame(&mut rng, n, 3 + 2 * (round % 2));
            let limit_a = 20;
            let limit_b = [0, 1, 3][round % 3];
            let ra = shared.decode(&a, limit_a);
            let rb = shared.decode(&b, limit_b);
            // a decoder that never saw the `b` frames returns the same
            assert_eq!(ra, only_a.decode(&a, limit_a), "{name}: stream a, round {round}");
            assert_eq!(rb, build(name, &h).decode(&b, limit_b), "{name}: stream b, round {round}");
            fp.result(&ra);
            fp.result(&rb);
        }
    }
}

// Degenerate shapes. Fresh decoders only: these are the shapes on which some
// arithmetics panic by design (degree-1 or degree-0 check nodes); whether a
// call panics or not, and what it returns when it does not, is recorded.
fn degenerate_shapes(fp: &mut Fingerprint) {
    let shapes: Vec<(&str, SparseMatrix)> = vec![
        ("no checks", SparseMatrix::new(0, 5)),
        ("empty", SparseMatrix::new(0, 0)),
        ("one empty check", SparseMatrix::new(1, 4)),
        ("degree-1 check", from_entries(2, 4, &[(0, 0), (1, 1), (1, 2), (1, 3)])),
        ("single edge", from_entries(1, 1, &[(0, 0)])),
        ("empty check next to a real one", from_entries(2, 3, &[(1, 0), (1, 1)])),
        ("unconnected variable", from_entries(2, 4, &[(0, 0), (0, 1), (1, 1), (1, 2)])),
        ("repetition", from_entries(2, 3, &[(0, 0), (0, 1), (1, 1), (1, 2)])),
    ];
    let previous_hook = std::panic::take_hook();
    std::panic::set_hook(Box::new(|_| {}));
    let outcome = catch_unwind(AssertUnwindSafe(|| {
        for (sname, h) in shapes.iter() {
            let n = h.num_cols();
            for name in IMPLEMENTATIONS.iter() {
                let frames: Vec<Vec<f64>> = vec![
                    vec![1.5; n],
                    vec![-1.5; n],
                    (0..n).map(|j| if j % 2 == 0 { -2.25 } else { 0.75 }).collect(),
                ];
                for llrs in frames.iter() {
                    for &limit in [0usize, 1, 4].iter() {
                        let first = catch_unwind(AssertUnwindSafe(|| build(name, h).decode(llrs, limit)));
                        let second = catch_unwind(AssertUnwindSafe(|| build(name, h).decode(llrs, limit)));
                        match (&first, &second) {
                            (Ok(a), Ok(b)) => {
                                assert_eq!(a, b, "{name} on {sname}");
                                fp.result(a);
                                // non-panicking shapes: reuse must also agree
                                let mut d = build(name, h);
                                let warm = catch_unwind(AssertUnwindSafe(|| {
                                    let _ = d.decode(&frames[2], 3);
                                    let _ = d.decode(&frames[1], 0);
                                    d.decode(llrs, limit)
                                }));
                                if let Ok(w) = warm {
                                    assert_eq!(&w, a, "{name} on {sname}: reuse differs");
                                }
                            }
                            (Err(_), Err(_)) => fp.byte(0xee),
                            _ => panic!("{name} on {sname}: panics on one fresh decoder only"),
                        }
                    }
                }
            }
        }
    }));
    std::panic::set_hook(previous_hook);
    if let Err(e) = outcome {
        // the hook was silenced, so repeat the message
        let msg = e
            .downcast_ref::<String>()
            .cloned()
            .or_else(|| e.downcast_ref::<&str>().map(|s| s.to_string()))
            .unwrap_or_else(|| String::from("panic in degenerate_shapes"));
        panic!("{msg}");
    }
}

// The decoders see the parity check matrix through `SparseMatrix` (number of
// rows and columns, per-row and per-column iteration). Put matrices through
// long random edit histories (so that whatever storage they use gets
// reorganised many times), compare every observable of the matrix with a
// plain list-of-lists model, and then check the decoder property on decoders
// that own the heavily edited matrix object itself, against new decoders built
// from clones of it.
struct Model {
    rows: Vec<Vec<usize>>,
    cols: Vec<Vec<usize>>,
}

impl Model {
    fn new(nrows: usize, ncols: usize) -> Model {
        Model {
            rows: vec![Vec::new(); nrows],
            cols: vec![Vec::new(); ncols],
        }
    }

    fn contains(&self, r: usize, c: usize) -> bool {
        self.cols[c].contains(&r)
    }

    fn insert(&mut self, r: usize, c: usize) {
        if !self.contains(r, c) {
            self.rows[r].push(c);
            self.cols[c].push(r);
        }
    }

    fn remove(&mut self, r: usize, c: usize) {
        self.rows[r].retain(|&x| x != c);
        self.cols[c].retain(|&x| x != r);
    }

    fn clear_row(&mut self, r: usize) {
        for c in std::mem::take(&mut self.rows[r]) {
            self.cols[c].retain(|&x| x != r);
        }
    }

    fn clear_col(&mut self, c: usize) {
        for r in std::mem::take(&mut self.cols[c]) {
            self.rows[r].retain(|&x| x != c);
        }
    }

    fn debug_string(&self) -> String {
        format!("SparseMatrix {{ rows: {:?}, cols: {:?} }}", self.rows, self.cols)
    }
}

fn compare_with_model(h: &SparseMatrix, m: &Model, what: &str) {
    assert_eq!(h.num_rows(), m.rows.len(), "{what}: num_rows");
    assert_eq!(h.num_cols(), m.cols.len(), "{what}: num_cols");
    for (r, row) in m.rows.iter().enumerate() {
        assert_eq!(h.row_weight(r), row.len(), "{what}: row_weight({r})");
        assert_eq!(&h.iter_row(r).copied().collect::<Vec<_>>(), row, "{what}: iter_row({r})");
    }
    for (c, col) in m.cols.iter().enumerate() {
        assert_eq!(h.col_weight(c), col.len(), "{what}: col_weight({c})");
        assert_eq!(&h.iter_col(c).copied().collect::<Vec<_>>(), col, "{what}: iter_col({c})");
    }
    let all: Vec<(usize, usize)> = m
        .rows
        .iter()
        .enumerate()
        .flat_map(|(r, row)| row.iter().map(move |&c| (r, c)))
        .collect();
    assert_eq!(h.iter_all().collect::<Vec<_>>(), all, "{what}: iter_all");
    assert_eq!(format!("{h:?}"), m.debug_string(), "{what}: Debug");
    let copy = h.clone();
    assert_eq!(&copy, h, "{what}: clone");
    assert_eq!(format!("{copy:?}"), m.debug_string(), "{what}: Debug of clone");
    // alist round trip: same ones, listed in sorted order
    for alist in [h.alist(), h.alist_no_padding()] {
        let back = SparseMatrix::from_alist(&alist).unwrap();
        assert_eq!(back.num_rows(), h.num_rows());
        assert_eq!(back.num_cols(), h.num_cols());
        let mut want = all.clone();
        want.sort_unstable();
        let mut got: Vec<(usize, usize)> = back.iter_all().collect();
        got.sort_unstable();
        assert_eq!(got, want, "{what}: alist round trip");
        for c in 0..back.num_cols() {
            let col: Vec<usize> = back.iter_col(c).copied().collect();
            assert!(col.windows(2).all(|w| w[0] < w[1]), "{what}: alist column order");
        }
    }
}

fn random_edit(rng: &mut Rng, h: &mut SparseMatrix, m: &mut Model) {
    let nrows = m.rows.len();
    let ncols = m.cols.len();
    let r = rng.below(nrows);
    let c = rng.below(ncols);
    match rng.below(16) {
        0..=6 => {
            h.insert(r, c);
            m.insert(r, c);
        }
        7 | 8 => {
            h.remove(r, c);
            m.remove(r, c);
        }
        9 | 10 => {
            h.toggle(r, c);
            if m.contains(r, c) {
                m.remove(r, c);
            } else {
                m.insert(r, c);
            }
        }
        11 => {
            let list: Vec<usize> = (0..1 + rng.below(6)).map(|_| rng.below(ncols)).collect();
            h.insert_row(r, list.iter());
            for &x in &list {
                m.insert(r, x);
            }
        }
        12 => {
            let list: Vec<usize> = (0..1 + rng.below(4)).map(|_| rng.below(nrows)).collect();
            h.insert_col(c, list.iter().copied());
            for &x in &list {
                m.insert(x, c);
            }
        }
        13 => {
            let list: Vec<usize> = (0..rng.below(5)).map(|_| rng.below(ncols)).collect();
            h.set_row(r, list.iter());
            m.clear_row(r);
            for &x in &list {
                m.insert(r, x);
            }
        }
        14 => {
            let list: Vec<usize> = (0..rng.below(4)).map(|_| rng.below(nrows)).collect();
            h.set_col(c, list.iter());
            m.clear_col(c);
            for &x in &list {
                m.insert(x, c);
            }
        }
        _ => {
            if rng.below(2) == 0 {
                h.clear_row(r);
                m.clear_row(r);
            } else {
                h.clear_col(c);
                m.clear_col(c);
            }
        }
    }
}

fn edited_matrices(fp: &mut Fingerprint) {
    // degenerate sizes
    compare_with_model(&SparseMatrix::new(0, 0), &Model::new(0, 0), "0x0");
    compare_with_model(&SparseMatrix::new(0, 3), &Model::new(0, 3), "0x3");
    compare_with_model(&SparseMatrix::new(3, 0), &Model::new(3, 0), "3x0");
    assert_ne!(SparseMatrix::new(0, 3), SparseMatrix::new(3, 0));
    assert_ne!(SparseMatrix::new(2, 3), SparseMatrix::new(2, 4));

    let mut rng = Rng(0xC10_7000);
    let sizes = [(1usize, 1usize), (2, 3), (5, 9), (12, 24), (30, 60), (7, 90)];
    for (si, &(nrows, ncols)) in sizes.iter().enumerate() {
        let what = format!("{nrows}x{ncols}");
        let mut h = SparseMatrix::new(nrows, ncols);
        let mut m = Model::new(nrows, ncols);
        let edits = 400 + 40 * nrows * ncols.min(40) / 10;
        for edit in 0..edits {
            random_edit(&mut rng, &mut h, &mut m);
            if edit % 97 == 0 || edit + 1 == edits {
                compare_with_model(&h, &m, &what);
            }
            if edit % 211 == 5 {
                // equality depends on contents only, not on the edit history
                let mut other = h.clone();
                assert_eq!(other, h);
                let (r, c) = (rng.below(nrows), rng.below(ncols));
                other.toggle(r, c);
                assert_ne!(other, h, "{what}: toggled clone");
                other.toggle(r, c);
                if m.contains(r, c) && *m.rows[r].last().unwrap() == c && *m.cols[c].last().unwrap() == r {
                    // removed and re-inserted at the end of both lists
                    assert_eq!(other, h, "{what}: toggled twice");
                }
            }
        }
        // make it a usable parity check matrix: all check nodes of degree >= 2
        for r in 0..nrows {
            let mut c = rng.below(ncols);
            while m.rows[r].len() < 2.min(ncols) {
                h.insert(r, c);
                m.insert(r, c);
                c = (c + 1) % ncols;
            }
        }
        compare_with_model(&h, &m, &what);
        if ncols < 2 {
            continue;
        }
        // decoders that own the edited object vs new decoders on clones
        let n = ncols;
        for (ii, name) in IMPLEMENTATIONS.iter().enumerate() {
            let implementation: DecoderImplementation = name.parse().unwrap();
            // edit a little more for each implementation, so that each decoder
            // gets an object with its own history
            let mut own = h.clone();
            for _ in 0..(3 * ii) {
                let (r, c) = (rng.below(nrows), rng.below(ncols));
                own.insert(r, c);
            }
            let reference = own.clone();
            let mut reused = implementation.build_decoder(own);
            let mut frames_rng = Rng(0xC10_7100 + 131 * si as u64 + ii as u64);
            for call in 0..6 {
                let kind = [4, 1, 3, 0, 5, 2][call];
                let llrs = frame(&mut frames_rng, n, kind);
                let limit = [4, 0, 2, 9, 1, 6][(call + ii) % 6];
                let got = reused.decode(&llrs, limit);
                let want = implementation.build_decoder(reference.clone()).decode(&llrs, limit);
                assert_eq!(got, want, "{name} on edited {what}: call {call} differs");
                check_output_shape(&got, n, limit);
                check_success_is_codeword(&reference, &got);
                fp.result(&got);
            }
        }
    }
}


fn run_all() -> u64 {
    let mut fp = Fingerprint::new();
    histories(&mut fp);
    typed_and_clones(&mut fp);
    interleaved_streams(&mut fp);
    degenerate_shapes(&mut fp);
    edited_matrices(&mut fp);
    println!(
        "C10 demo: {} clean frames, {} successes, {} failures, {} zero-iteration failures",
        fp.1[0], fp.1[1], fp.1[2], fp.1[3]
    );
    fp.0
}

#[test]
fn decoder_carries_no_state_between_frames() {
    // Watchdog: the work runs in a thread; give up (fail) after a generous
    // timeout instead of hanging forever.
    let (tx, rx) = mpsc::channel();
    let worker = std::thread::Builder::new()
        .stack_size(16 << 20)
        .spawn(move || {
            let r = catch_unwind(run_all);
            let _ = tx.send(r);
        })
        .unwrap();
    match rx.recv_timeout(Duration::from_secs(900)) {
        Ok(Ok(fingerprint)) => {
            println!("C10 demo fingerprint: {fingerprint:016x}");
            worker.join().unwrap();
        }
        Ok(Err(e)) => std::panic::resume_unwind(e),
        Err(_) => panic!("demo timed out"),
    }
}
