#!/usr/bin/env python3
"""rerun.py: re-run the quick checks against every kept property-preserving change and refresh meta.json"""
import os, json, subprocess, re, sys
base = '/verif/preserving'
prefs = sys.argv[1:] or ['']
for name in sorted(os.listdir(base)):
    d = f'{base}/{name}'
    if not (os.path.isdir(d) and os.path.isfile(f'{d}/patch.diff') and any(name.startswith(p) for p in prefs)):
        continue
    meta = json.load(open(f'{d}/meta.json'))
    checks = list(meta.get('checks_run', {}).keys()) or [name.split('-')[0]]
    out = subprocess.run(['/verif/sensitivity/try.sh', f'{d}/patch.diff'] + checks, capture_output=True, text=True).stdout
    det = {}
    for line in out.splitlines():
        m = re.match(r'\S+ (\S+) exit=(\d+) ?(.*)', line)
        if m:
            det[m.group(1)] = {'exit': int(m.group(2)), 'detail': m.group(3)[:400]}
    if 'first_run' not in meta:
        meta['first_run'] = meta.get('checks_run')
    meta['checks_run'] = det
    meta['quiet'] = all(v['exit'] == 0 for v in det.values())
    json.dump(meta, open(f'{d}/meta.json', 'w'), indent=1)
    print(name, {k: v['exit'] for k, v in det.items()}, flush=True)
