//! Demo test for the index-arithmetic rewrite of the interleaver and of the
//! puncturer. Passes with and without the change.

use ldpc_toolbox::simulation::interleaving::Interleaver;
use ldpc_toolbox::simulation::puncturing::{Error as PuncturingError, Puncturer};
use ndarray::{Array1, s};
use std::panic::{AssertUnwindSafe, catch_unwind};

// Reference model of the DVB-S2 style interleaver: the codeword is written
// column-wise in a rows x columns matrix and read row-wise (each row optionally
// backwards).
fn reference_interleave<T: Clone>(cw: &[T], columns: usize, backwards: bool) -> Vec<T> {
    let rows = cw.len() / columns;
    let mut matrix = vec![Vec::new(); rows];
    for c in 0..columns {
        for r in 0..rows {
            matrix[r].push(cw[c * rows + r].clone());
        }
    }
    let mut out = Vec::new();
    for mut row in matrix {
        if backwards {
            row.reverse();
        }
        out.extend(row);
    }
    out
}

fn reference_puncture<T: Clone>(cw: &[T], pattern: &[bool]) -> Vec<T> {
    let block = cw.len() / pattern.len();
    cw.iter()
        .enumerate()
        .filter(|(j, _)| pattern[j / block])
        .map(|(_, x)| x.clone())
        .collect()
}

fn patterns() -> Vec<Vec<bool>> {
    let mut all = Vec::new();
    for len in 1..=6usize {
        for bitsmask in 0..(1u32 << len) {
            all.push((0..len).map(|j| bitsmask & (1 << j) != 0).collect());
        }
    }
    all
}

#[test]
fn interleaver_matches_reference() {
    for columns in 1..=9usize {
        for rows in 0..=7usize {
            for backwards in [false, true] {
                let len = columns * rows;
                let interleaver = Interleaver::new(columns, backwards);
                let original: Vec<u32> = (0..len as u32).map(|x| 3 * x + 1).collect();
                let expected = reference_interleave(&original, columns, backwards);
                let interleaved = interleaver.interleave(&Array1::from_vec(original.clone()));
                assert_eq!(interleaved.to_vec(), expected, "{columns} x {rows} {backwards}");

                // deinterleaving undoes interleaving (also for floats)
                let deinterleaved = interleaver.deinterleave(&expected);
                assert_eq!(deinterleaved, original, "{columns} x {rows} {backwards}");
                let floats: Vec<f64> = expected.iter().map(|&x| -0.5 * f64::from(x)).collect();
                let deinterleaved = interleaver.deinterleave(&floats);
                let expected_floats: Vec<f64> =
                    original.iter().map(|&x| -0.5 * f64::from(x)).collect();
                assert_eq!(deinterleaved, expected_floats);

                // and interleaving undoes deinterleaving
                let again = interleaver.interleave(&Array1::from_vec(
                    interleaver.deinterleave(&original),
                ));
                assert_eq!(again.to_vec(), original);
            }
        }
    }
}

#[test]
fn interleaver_known_vectors() {
    let cw = Array1::from_vec((0..12).collect::<Vec<i32>>());
    assert_eq!(
        Interleaver::new(3, false).interleave(&cw).to_vec(),
        [0, 4, 8, 1, 5, 9, 2, 6, 10, 3, 7, 11]
    );
    assert_eq!(
        Interleaver::new(3, true).interleave(&cw).to_vec(),
        [8, 4, 0, 9, 5, 1, 10, 6, 2, 11, 7, 3]
    );
    assert_eq!(
        Interleaver::new(1, true).interleave(&cw).to_vec(),
        cw.to_vec()
    );
    assert_eq!(
        Interleaver::new(12, false).interleave(&cw).to_vec(),
        cw.to_vec()
    );
    assert_eq!(
        Interleaver::new(12, true).interleave(&cw).to_vec(),
        (0..12).rev().collect::<Vec<i32>>()
    );
    assert_eq!(
        Interleaver::new(3, true).deinterleave(&[8, 4, 0, 9, 5, 1, 10, 6, 2, 11, 7, 3]),
        (0..12).collect::<Vec<i32>>()
    );
}

#[test]
fn interleaver_panics() {
    for (columns, len) in [(3usize, 7usize), (5, 4), (2, 1), (0, 4), (0, 0)] {
        for backwards in [false, true] {
            let interleaver = Interleaver::new(columns, backwards);
            let data = vec![1u8; len];
            let arr = Array1::from_vec(data.clone());
            assert!(
                catch_unwind(AssertUnwindSafe(|| interleaver.interleave(&arr))).is_err(),
                "interleave {columns} {len}"
            );
            assert!(
                catch_unwind(AssertUnwindSafe(|| interleaver.deinterleave(&data))).is_err(),
                "deinterleave {columns} {len}"
            );
        }
    }
}

#[test]
fn puncturer_matches_reference() {
    for pattern in patterns() {
        let puncturer = Puncturer::new(&pattern);
        let num_trues = pattern.iter().filter(|&&b| b).count();
        assert_eq!(puncturer.rate(), pattern.len() as f64 / num_trues as f64);
        for block in 0..=5usize {
            let len = block * pattern.len();
            let cw: Vec<i64> = (0..len as i64).map(|x| 7 * x - 3).collect();
            let expected = reference_puncture(&cw, &pattern);
            let punctured = puncturer.puncture(&Array1::from_vec(cw.clone())).unwrap();
            assert_eq!(punctured.to_vec(), expected, "{pattern:?} {block}");
            assert_eq!(punctured.len(), block * num_trues);

            // non-contiguous (reversed, strided) view as input
            let doubled = Array1::from_iter((0..2 * len).map(|j| cw[len - 1 - j / 2]));
            let view = doubled.slice(s![..;-2]);
            assert_eq!(view.to_vec(), cw);
            assert_eq!(puncturer.puncture(&view).unwrap().to_vec(), expected);

            if num_trues == 0 {
                // depuncturing with an all-false pattern divides by zero
                let r = catch_unwind(AssertUnwindSafe(|| puncturer.depuncture(&expected)));
                assert!(r.is_err(), "{pattern:?}");
                continue;
            }
            let llrs: Vec<f64> = expected.iter().map(|&x| x as f64 + 0.25).collect();
            let depunctured = puncturer.depuncture(&llrs).unwrap();
            assert_eq!(depunctured.len(), len);
            for (j, &l) in depunctured.iter().enumerate() {
                if pattern[j / block.max(1)] {
                    assert_eq!(l, cw[j] as f64 + 0.25, "{pattern:?} {block} {j}");
                } else {
                    assert!(l == 0.0 && l.is_sign_positive(), "{pattern:?} {block} {j}");
                }
            }
            // puncturing the depunctured LLRs gives back the LLRs
            let back = puncturer
                .puncture(&Array1::from_vec(depunctured))
                .unwrap()
                .to_vec();
            assert_eq!(back, llrs);
        }
    }
}

#[test]
fn puncturer_errors() {
    for pattern in patterns() {
        let puncturer = Puncturer::new(&pattern);
        let num_trues = pattern.iter().filter(|&&b| b).count();
        for len in 0..=20usize {
            let data = vec![0.5f64; len];
            let r = puncturer.puncture(&Array1::from_vec(data.clone()));
            if len % pattern.len() == 0 {
                assert!(r.is_ok());
            } else {
                assert_eq!(r.unwrap_err(), PuncturingError::CodewordSizeNotDivisible);
            }
            if num_trues > 0 {
                let r = puncturer.depuncture(&data);
                if len % num_trues == 0 {
                    assert_eq!(r.unwrap().len(), len / num_trues * pattern.len());
                } else {
                    assert_eq!(r.unwrap_err(), PuncturingError::CodewordSizeNotDivisible);
                }
            }
        }
    }
    assert!(catch_unwind(|| Puncturer::new(&[])).is_err());
}

#[test]
fn ber_chain_with_puncturing_and_interleaving() {
    let h = make_h(12, 12, true);
    let patterns: [Option<&[bool]>; 5] = [
        None,
        Some(&[true, true, true, false]),
        Some(&[true, true, false, true, false, true, true, true]),
        Some(&[false, true, true, true]),
        Some(&[true]),
    ];
    for pattern in patterns {
        for interleaving in [None, Some(1), Some(3), Some(-3), Some(6), Some(-2)] {
            let n = transmitted_mask(24, pattern).iter().filter(|&&b| b).count();
            if let Some(c) = interleaving {
                if n % (c as isize).unsigned_abs() != 0 {
                    continue;
                }
            }
            check_noiseless_chain(&h, Modulation::Bpsk, pattern, interleaving);
            if n % 3 == 0 {
                check_noiseless_chain(&h, Modulation::Psk8, pattern, interleaving);
            }
        }
    }
    let h = make_h(6, 9, false);
    check_noiseless_chain(&h, Modulation::Psk8, Some(&[true, true, true, true, false]), Some(-3));
    check_noiseless_chain(&h, Modulation::Bpsk, Some(&[true, false, true]), Some(5));
}
// ---------------------------------------------------------------------------
// Common harness: runs a BER test through the public API with a decoder
// factory that records every LLR vector handed to the decoder.
// ---------------------------------------------------------------------------

use ldpc_toolbox::decoder::factory::DecoderFactory;
use ldpc_toolbox::decoder::{DecoderOutput, LdpcDecoder};
use ldpc_toolbox::encoder::Encoder;
use ldpc_toolbox::gf2::GF2;
use ldpc_toolbox::simulation::factory::{BerTestBuilder, Modulation};
use ldpc_toolbox::sparse::SparseMatrix;
use num_traits::{One, Zero};
use std::sync::{Arc, Mutex};

#[derive(Debug, Clone)]
struct CaptureFactory {
    frames: Arc<Mutex<Vec<Vec<f64>>>>,
}

impl std::fmt::Display for CaptureFactory {
    fn fmt(&self, f: &mut std::fmt::Formatter<'_>) -> std::fmt::Result {
        write!(f, "capture")
    }
}

impl DecoderFactory for CaptureFactory {
    fn build_decoder(&self, _h: SparseMatrix) -> Box<dyn LdpcDecoder> {
        Box::new(CaptureDecoder {
            frames: Arc::clone(&self.frames),
        })
    }
}

#[derive(Debug)]
struct CaptureDecoder {
    frames: Arc<Mutex<Vec<Vec<f64>>>>,
}

impl LdpcDecoder for CaptureDecoder {
    fn decode(
        &mut self,
        llrs: &[f64],
        max_iterations: usize,
    ) -> Result<DecoderOutput, DecoderOutput> {
        self.frames.lock().unwrap().push(llrs.to_vec());
        // Return the complement of the hard decision, so that every frame is a
        // frame error and the BER test terminates quickly.
        let codeword = llrs.iter().map(|&l| u8::from(l >= 0.0)).collect();
        Err(DecoderOutput {
            codeword,
            iterations: max_iterations,
        })
    }
}

/// Parity check matrix [A | T] with `m` rows and `k + m` columns. A is a fixed
/// pseudo-random matrix with column weight 3 and T is either a staircase
/// (dual-diagonal) matrix or a lower triangular matrix with some extra
/// entries (which forces the dense encoder).
fn make_h(k: usize, m: usize, staircase: bool) -> SparseMatrix {
    let mut h = SparseMatrix::new(m, k + m);
    let mut state = 0x2545f491u32;
    let mut next = || {
        state ^= state << 13;
        state ^= state >> 17;
        state ^= state << 5;
        state as usize
    };
    for col in 0..k {
        let mut placed = 0;
        while placed < 3.min(m) {
            let row = next() % m;
            if !h.contains(row, col) {
                h.insert(row, col);
                placed += 1;
            }
        }
    }
    for j in 0..m {
        h.insert(j, k + j);
        if j > 0 {
            h.insert(j, k + j - 1);
        }
        if !staircase && j >= 3 && j % 2 == 1 {
            h.insert(j, k + j - 3);
        }
    }
    h
}

struct ChainResult {
    frames: Vec<Vec<f64>>,
    n: usize,
    n_cw: usize,
    k: usize,
    rate: f64,
    num_frames: u64,
    error: Option<String>,
}

fn run_chain(
    h: &SparseMatrix,
    modulation: Modulation,
    pattern: Option<&[bool]>,
    interleaving: Option<isize>,
    ebn0_db: f32,
    max_frame_errors: u64,
) -> ChainResult {
    let frames = Arc::new(Mutex::new(Vec::new()));
    let ebn0s = [ebn0_db];
    let test = BerTestBuilder {
        h: h.clone(),
        decoder_implementation: CaptureFactory {
            frames: Arc::clone(&frames),
        },
        modulation,
        puncturing_pattern: pattern,
        interleaving_columns: interleaving,
        max_frame_errors,
        max_iterations: 7,
        ebn0s_db: &ebn0s,
        reporter: None,
        bch_max_errors: 0,
    }
    .build()
    .expect("building the BER test failed");
    let (n, n_cw, k, rate) = (test.n(), test.n_cw(), test.k(), test.rate());
    let (num_frames, error) = match test.run() {
        Ok(stats) => {
            assert_eq!(stats.len(), 1);
            assert_eq!(stats[0].ebn0_db, ebn0_db);
            // the decoder gets wrong every information bit that was not
            // punctured, so (nearly) every frame is a frame error
            assert!(stats[0].ldpc.frame_errors >= max_frame_errors);
            assert!(stats[0].ldpc.frame_errors <= stats[0].num_frames);
            assert!(stats[0].ldpc.bit_errors >= stats[0].ldpc.frame_errors);
            assert!(stats[0].ldpc.bit_errors <= stats[0].num_frames * k as u64);
            assert_eq!(stats[0].total_iterations, stats[0].num_frames * 7);
            assert_eq!(stats[0].false_decodes, 0);
            assert!(stats[0].num_frames >= max_frame_errors);
            (stats[0].num_frames, None)
        }
        Err(e) => (0, Some(e.to_string())),
    };
    let frames = std::mem::take(&mut *frames.lock().unwrap());
    ChainResult {
        frames,
        n,
        n_cw,
        k,
        rate,
        num_frames,
        error,
    }
}

/// Expands a block puncturing pattern to a per-bit "transmitted" mask.
fn transmitted_mask(n_cw: usize, pattern: Option<&[bool]>) -> Vec<bool> {
    match pattern {
        None => vec![true; n_cw],
        Some(p) => {
            assert_eq!(n_cw % p.len(), 0);
            let block = n_cw / p.len();
            (0..n_cw).map(|j| p[j / block]).collect()
        }
    }
}

fn bits_per_symbol(modulation: Modulation) -> f64 {
    match modulation {
        Modulation::Bpsk => 1.0,
        Modulation::Psk8 => 3.0,
    }
}

/// Checks everything that the BER chain promises about the frames given to
/// the decoder in a (nearly) noiseless run.
fn check_noiseless_chain(
    h: &SparseMatrix,
    modulation: Modulation,
    pattern: Option<&[bool]>,
    interleaving: Option<isize>,
) {
    let ebn0_db = 40.0f32;
    let what = format!("{modulation} pattern {pattern:?} interleaving {interleaving:?}");
    let res = run_chain(h, modulation, pattern, interleaving, ebn0_db, 12);
    assert_eq!(res.error, None, "{what}");
    let n_cw = h.num_cols();
    let k = h.num_cols() - h.num_rows();
    let mask = transmitted_mask(n_cw, pattern);
    let n = mask.iter().filter(|&&b| b).count();
    assert_eq!(res.n_cw, n_cw, "{what}");
    assert_eq!(res.k, k, "{what}");
    assert_eq!(res.n, n, "{what}");
    assert!((res.rate - k as f64 / n as f64).abs() < 1e-12, "{what}");
    assert!(res.frames.len() as u64 >= res.num_frames, "{what}");
    assert!(res.frames.len() >= 12, "{what}");

    let ebn0 = 10.0_f64.powf(0.1 * f64::from(ebn0_db));
    let esn0 = (k as f64 / n as f64) * bits_per_symbol(modulation) * ebn0;
    let sigma2 = 0.5 / esn0;
    let encoder = Encoder::from_h(h).unwrap();
    let systematic_transmitted = mask[..k].iter().all(|&b| b);
    let mut distinct = std::collections::HashSet::new();

    for llrs in &res.frames {
        assert_eq!(llrs.len(), n_cw, "{what}");
        for (j, &l) in llrs.iter().enumerate() {
            if mask[j] {
                assert!(l.is_finite() && l != 0.0, "{what}: position {j} llr {l}");
                let normalized = l.abs() * sigma2;
                match modulation {
                    Modulation::Bpsk => {
                        assert!((normalized - 2.0).abs() < 0.2, "{what}: scale {normalized}")
                    }
                    Modulation::Psk8 => {
                        assert!(normalized > 0.2 && normalized < 1.2, "{what}: scale {normalized}")
                    }
                }
            } else {
                assert!(l == 0.0, "{what}: punctured position {j} has llr {l}");
            }
        }
        let hard: Vec<u8> = llrs.iter().map(|&l| u8::from(l < 0.0)).collect();
        // parity checks that do not involve punctured bits must be satisfied
        for row in 0..h.num_rows() {
            if h.iter_row(row).all(|&c| mask[c]) {
                let parity = h.iter_row(row).fold(0, |acc, &c| acc ^ hard[c]);
                assert_eq!(parity, 0, "{what}: parity check {row} fails for {hard:?}");
            }
        }
        if systematic_transmitted {
            let message = ndarray::Array1::from_iter(hard[..k].iter().map(|&b| {
                if b == 1 { GF2::one() } else { GF2::zero() }
            }));
            let codeword = encoder.encode(&message);
            for j in 0..n_cw {
                if mask[j] {
                    assert_eq!(
                        hard[j],
                        u8::from(codeword[j].is_one()),
                        "{what}: position {j} is not the bit of the systematic codeword"
                    );
                }
            }
        }
        distinct.insert(hard);
    }
    // the messages are random: for k >= 6 and >= 12 frames they cannot all coincide
    assert!(distinct.len() > 1, "{what}: all the frames carry the same codeword");
}
