// Demonstration for the MacKay-Neal construction
// (`ldpc_toolbox::mackay_neal::Config::run`).
//
// What is checked, over a large set of configurations and seeds:
//  - a successful run returns a matrix of the requested size in which every
//    column has exactly the requested weight, no row exceeds the maximum row
//    weight, the girth is at least the requested minimum and, under the
//    uniform policy without a girth constraint, row weights differ by at most
//    one;
//  - the same configuration and seed always give the same result (matrix or
//    error), and different seeds give different matrices;
//  - the outcomes are, entry by entry and in the same internal order, the
//    ones that this construction has always produced for these configurations
//    and seeds (a fingerprint of all the outcomes is compared with a recorded
//    value);
//  - the seed search returns a seed in range with the matrix of that seed.
//
// Only the public API of the crate and std are used. Every test body runs in
// a helper thread that is awaited with a timeout, so the test fails instead of
// hanging if something never returns.

use ldpc_toolbox::mackay_neal::{Config, Error, FillPolicy};
use ldpc_toolbox::sparse::SparseMatrix;
use std::sync::mpsc;
use std::time::Duration;

fn with_timeout<F: FnOnce() + Send + 'static>(secs: u64, f: F) {
    let (tx, rx) = mpsc::channel();
    let handle = std::thread::spawn(move || {
        f();
        let _ = tx.send(());
    });
    match rx.recv_timeout(Duration::from_secs(secs)) {
        Ok(()) => handle.join().unwrap(),
        Err(mpsc::RecvTimeoutError::Disconnected) => {
            // the body panicked: propagate the panic
            if let Err(e) = handle.join() {
                std::panic::resume_unwind(e);
            }
            panic!("test body ended without reporting");
        }
        Err(mpsc::RecvTimeoutError::Timeout) => panic!("timed out after {secs} s"),
    }
}

// FNV-1a, 64 bits
struct Fingerprint(u64);

impl Fingerprint {
    fn new() -> Fingerprint {
        Fingerprint(0xcbf2_9ce4_8422_2325)
    }

    fn byte(&mut self, b: u8) {
        self.0 ^= u64::from(b);
        self.0 = self.0.wrapping_mul(0x0000_0100_0000_01b3);
    }

    fn number(&mut self, n: usize) {
        for b in (n as u64).to_le_bytes() {
            self.byte(b);
        }
    }

    // Absorbs the outcome of a run. For a matrix, the entries of each column
    // and of each row are absorbed in the order in which the matrix stores
    // them (which is the order in which they were inserted), so this is
    // sensitive to more than the alist.
    fn outcome(&mut self, outcome: &Result<SparseMatrix, Error>) {
        match outcome {
            Ok(h) => {
                self.byte(b'M');
                self.number(h.num_rows());
                self.number(h.num_cols());
                for c in 0..h.num_cols() {
                    self.number(h.col_weight(c));
                    for &r in h.iter_col(c) {
                        self.number(r);
                    }
                }
                for r in 0..h.num_rows() {
                    self.number(h.row_weight(r));
                    for &c in h.iter_row(r) {
                        self.number(c);
                    }
                }
            }
            Err(e) => {
                self.byte(b'E');
                self.byte(match e {
                    Error::NoAvailRows => 1,
                    Error::GirthTooSmall => 2,
                    Error::NoMoreBacktrack => 3,
                    Error::NoMoreTrials => 4,
                });
            }
        }
    }
}

// Small deterministic generator for the pseudorandom configurations
// (splitmix64).
struct Lcg(u64);

impl Lcg {
    fn next(&mut self) -> u64 {
        self.0 = self.0.wrapping_add(0x9e37_79b9_7f4a_7c15);
        let mut z = self.0;
        z = (z ^ (z >> 30)).wrapping_mul(0xbf58_476d_1ce4_e5b9);
        z = (z ^ (z >> 27)).wrapping_mul(0x94d0_49bb_1331_11eb);
        z ^ (z >> 31)
    }

    fn below(&mut self, n: usize) -> usize {
        (self.next() % (n as u64)) as usize
    }

    fn between(&mut self, lo: usize, hi: usize) -> usize {
        lo + self.below(hi - lo + 1)
    }
}

fn check_matrix(conf: &Config, h: &SparseMatrix) {
    assert_eq!(h.num_rows(), conf.nrows, "{conf:?}");
    assert_eq!(h.num_cols(), conf.ncols, "{conf:?}");
    for c in 0..h.num_cols() {
        assert_eq!(h.col_weight(c), conf.wc, "column weight in {conf:?}");
        // the entries of a column are different rows
        let mut rows: Vec<usize> = h.iter_col(c).copied().collect();
        rows.sort_unstable();
        rows.dedup();
        assert_eq!(rows.len(), conf.wc, "repeated entries in {conf:?}");
        for r in rows {
            assert!(r < conf.nrows);
            assert!(h.contains(r, c));
            assert_eq!(h.iter_row(r).filter(|&&x| x == c).count(), 1);
        }
    }
    let weights: Vec<usize> = (0..h.num_rows()).map(|r| h.row_weight(r)).collect();
    assert_eq!(weights.iter().sum::<usize>(), conf.wc * conf.ncols);
    for &w in &weights {
        assert!(w <= conf.wr, "row weight in {conf:?}");
    }
    if let Some(g) = conf.min_girth {
        if let Some(girth) = h.girth() {
            assert!(girth >= g, "girth {girth} < {g} in {conf:?}");
        }
    } else if conf.fill_policy == FillPolicy::Uniform && !weights.is_empty() {
        let lo = weights.iter().min().unwrap();
        let hi = weights.iter().max().unwrap();
        assert!(hi - lo <= 1, "uniform row weights in {conf:?}");
    }
}

struct Tally {
    fingerprint: Fingerprint,
    runs: usize,
    successes: usize,
    out_of_backtrack: usize,
    out_of_girth_trials: usize,
}

impl Tally {
    fn new() -> Tally {
        Tally {
            fingerprint: Fingerprint::new(),
            runs: 0,
            successes: 0,
            out_of_backtrack: 0,
            out_of_girth_trials: 0,
        }
    }

    // Runs a configuration with a seed (twice), checks the outcome and
    // records it.
    fn run(&mut self, conf: &Config, seed: u64) -> Result<SparseMatrix, Error> {
        let outcome = conf.run(seed);
        assert_eq!(outcome, conf.run(seed), "not reproducible: {conf:?} {seed}");
        self.runs += 1;
        match &outcome {
            Ok(h) => {
                check_matrix(conf, h);
                self.successes += 1;
            }
            Err(Error::NoMoreBacktrack) => self.out_of_backtrack += 1,
            Err(Error::NoMoreTrials) => self.out_of_girth_trials += 1,
            Err(e) => panic!("{e:?} should not be returned to the user"),
        }
        self.fingerprint.outcome(&outcome);
        outcome
    }

    fn summary(&self) -> (usize, usize, usize, usize, u64) {
        (
            self.runs,
            self.successes,
            self.out_of_backtrack,
            self.out_of_girth_trials,
            self.fingerprint.0,
        )
    }
}

const POLICIES: [FillPolicy; 2] = [FillPolicy::Random, FillPolicy::Uniform];

#[test]
fn all_tiny_configurations() {
    with_timeout(1500, || {
        let backtracking = [(0, 0), (0, 3), (1, 2), (3, 5)];
        let girths = [
            (None, 0),
            (Some(1), 0),
            (Some(4), 3),
            (Some(5), 2),
            (Some(6), 10),
            (Some(8), 4),
        ];
        let mut tally = Tally::new();
        for nrows in 0..=5 {
            for ncols in 0..=6 {
                for wr in 0..=4 {
                    for wc in 0..=3 {
                        for fill_policy in POLICIES {
                            for (backtrack_cols, backtrack_trials) in backtracking {
                                for (min_girth, girth_trials) in girths {
                                    let conf = Config {
                                        nrows,
                                        ncols,
                                        wr,
                                        wc,
                                        backtrack_cols,
                                        backtrack_trials,
                                        min_girth,
                                        girth_trials,
                                        fill_policy,
                                    };
                                    for seed in [0, 1, 0xdead_beef_0000_0007] {
                                        let outcome = tally.run(&conf, seed);
                                        // things that are known in advance
                                        if ncols == 0 {
                                            assert!(outcome.is_ok());
                                        } else if wc > nrows || (wc > 0 && wr == 0) {
                                            assert_eq!(outcome, Err(Error::NoMoreBacktrack));
                                        } else if wc == 0 {
                                            assert!(outcome.is_ok());
                                        } else if ncols * wc > nrows * wr {
                                            assert!(outcome.is_err());
                                        }
                                    }
                                }
                            }
                        }
                    }
                }
            }
        }
        assert_eq!(
            tally.summary(),
            (GOLDEN_TINY.0, GOLDEN_TINY.1, GOLDEN_TINY.2, GOLDEN_TINY.3, GOLDEN_TINY.4)
        );
    });
}

fn random_conf(g: &mut Lcg, max_rows: usize) -> Config {
    let nrows = g.between(1, max_rows);
    let wc = g.between(1, 5.min(nrows));
    // rate between 1/4 and 3/4 or so, sometimes more columns than fit
    let ncols = g.between(nrows, 4 * nrows);
    let exact = (ncols * wc).div_ceil(nrows);
    let wr = match g.below(4) {
        0 => exact,
        1 => exact + 1,
        2 => exact + g.below(4),
        _ => exact.saturating_sub(1).max(1),
    };
    let (backtrack_cols, backtrack_trials) = match g.below(4) {
        0 => (0, 0),
        1 => (g.between(0, 3), g.between(0, 5)),
        2 => (g.between(1, 10), g.between(1, 30)),
        _ => (ncols + g.below(3), g.between(1, 4)),
    };
    let (min_girth, girth_trials) = match g.below(8) {
        0 | 1 => (None, g.below(3)),
        2 => (Some(g.between(1, 4)), g.below(4)),
        3 => (Some(4), g.between(0, 20)),
        4 => (Some(6), g.between(0, 60)),
        5 => (Some(6), g.between(20, 400)),
        6 => (Some(g.between(5, 9)), g.between(0, 100)),
        _ => (Some(g.between(8, 12)), g.between(0, 200)),
    };
    let fill_policy = POLICIES[g.below(2)];
    Config {
        nrows,
        ncols,
        wr,
        wc,
        backtrack_cols,
        backtrack_trials,
        min_girth,
        girth_trials,
        fill_policy,
    }
}

#[test]
fn pseudorandom_configurations() {
    with_timeout(1500, || {
        let mut g = Lcg(2024);
        let mut tally = Tally::new();
        for k in 0..4000 {
            let conf = random_conf(&mut g, if k % 10 == 0 { 60 } else { 24 });
            let seed = g.next();
            tally.run(&conf, seed);
            tally.run(&conf, seed ^ 1);
        }
        assert_eq!(
            tally.summary(),
            (GOLDEN_RANDOM.0, GOLDEN_RANDOM.1, GOLDEN_RANDOM.2, GOLDEN_RANDOM.3, GOLDEN_RANDOM.4)
        );
    });
}

#[test]
fn larger_codes() {
    with_timeout(1500, || {
        let mut tally = Tally::new();
        let base = Config {
            nrows: 100,
            ncols: 200,
            wr: 6,
            wc: 3,
            backtrack_cols: 10,
            backtrack_trials: 100,
            min_girth: Some(6),
            girth_trials: 2000,
            fill_policy: FillPolicy::Uniform,
        };
        let confs = [
            base.clone(),
            Config {
                fill_policy: FillPolicy::Random,
                ..base.clone()
            },
            Config {
                min_girth: None,
                ..base.clone()
            },
            Config {
                min_girth: None,
                fill_policy: FillPolicy::Random,
                backtrack_cols: 30,
                backtrack_trials: 1000,
                ..base.clone()
            },
            Config {
                nrows: 250,
                ncols: 500,
                min_girth: Some(8),
                girth_trials: 20000,
                ..base.clone()
            },
            Config {
                nrows: 60,
                ncols: 240,
                wr: 13,
                min_girth: Some(6),
                girth_trials: 5000,
                backtrack_cols: 5,
                backtrack_trials: 20,
                ..base.clone()
            },
            Config {
                nrows: 150,
                ncols: 200,
                wr: 6,
                wc: 4,
                min_girth: Some(6),
                girth_trials: 3000,
                backtrack_cols: 0,
                backtrack_trials: 0,
                fill_policy: FillPolicy::Random,
            },
            Config {
                nrows: 31,
                ncols: 93,
                wr: 10,
                wc: 3,
                min_girth: Some(5),
                girth_trials: 3000,
                backtrack_cols: 93,
                backtrack_trials: 3,
                fill_policy: FillPolicy::Uniform,
            },
        ];
        for conf in &confs {
            let mut alists = Vec::new();
            for seed in 0..6 {
                if let Ok(h) = tally.run(conf, seed) {
                    alists.push(h.alist());
                }
            }
            let n = alists.len();
            alists.sort();
            alists.dedup();
            assert_eq!(alists.len(), n, "two seeds gave the same matrix");
        }
        assert_eq!(
            tally.summary(),
            (GOLDEN_LARGER.0, GOLDEN_LARGER.1, GOLDEN_LARGER.2, GOLDEN_LARGER.3, GOLDEN_LARGER.4)
        );
    });
}

#[test]
fn seeds_explore_different_choices() {
    with_timeout(600, || {
        for fill_policy in POLICIES {
            for min_girth in [None, Some(4), Some(6)] {
                // (3, 6) regular, or (2, 4) regular when girth 6 is asked for
                let wc = if min_girth == Some(6) { 2 } else { 3 };
                let conf = Config {
                    nrows: 12,
                    ncols: 24,
                    wr: 2 * wc,
                    wc,
                    backtrack_cols: 4,
                    backtrack_trials: 50,
                    min_girth,
                    girth_trials: 500,
                    fill_policy,
                };
                let mut distinct = Vec::new();
                let mut successes = 0;
                for seed in 0..100 {
                    let a = conf.run(seed);
                    assert_eq!(a, conf.run(seed));
                    if let Ok(h) = a {
                        check_matrix(&conf, &h);
                        successes += 1;
                        let alist = h.alist();
                        if !distinct.contains(&alist) {
                            distinct.push(alist);
                        }
                    }
                }
                assert!(successes >= 10, "{conf:?}");
                assert_eq!(distinct.len(), successes, "{conf:?}");
            }
        }
    });
}

#[test]
fn search_agrees_with_run() {
    with_timeout(900, || {
        let mut g = Lcg(77);
        let mut found = 0;
        let mut not_found = 0;
        for _ in 0..600 {
            let conf = random_conf(&mut g, 16);
            let start = g.next() >> 1;
            let tries = g.below(12) as u64;
            match conf.search(start, tries) {
                Some((seed, h)) => {
                    assert!(seed >= start && seed - start < tries);
                    assert_eq!(conf.run(seed), Ok(h.clone()));
                    check_matrix(&conf, &h);
                    found += 1;
                }
                None => {
                    for seed in start..start + tries {
                        assert!(conf.run(seed).is_err());
                    }
                    not_found += 1;
                }
            }
        }
        assert!(found > 50 && not_found > 50, "{found} {not_found}");
    });
}

#[test]
fn known_matrix() {
    // The same (configuration, seed) as in the unit test of the crate.
    let conf = Config {
        nrows: 4,
        ncols: 8,
        wr: 4,
        wc: 2,
        backtrack_cols: 0,
        backtrack_trials: 0,
        min_girth: None,
        girth_trials: 0,
        fill_policy: FillPolicy::Random,
    };
    let expected = "8 4
2 4
2 2 2 2 2 2 2 2
4 4 4 4
1 3
2 4
2 3
1 4
1 4
1 4
2 3
2 3
1 4 5 6
2 3 7 8
1 3 7 8
2 4 5 6
";
    assert_eq!(conf.run(187).unwrap().alist(), expected);
}

// (runs, successes, failures by backtracking, failures by girth trials,
// fingerprint of all the outcomes), as recorded from the construction before
// any change.
const GOLDEN_TINY: (usize, usize, usize, usize, u64) =
    (120960, 68042, 47833, 5085, 15009375811977152843);
const GOLDEN_RANDOM: (usize, usize, usize, usize, u64) =
    (8000, 4070, 1299, 2631, 52668479878336860);
const GOLDEN_LARGER: (usize, usize, usize, usize, u64) =
    (48, 23, 0, 25, 5092633011694628890);
