// Demonstration for property C19: "The C interface is a faithful wrapper of
// the Rust encoder and decoder".
//
// The C entry points (`#[no_mangle] extern "C"` functions of the library) are
// called directly through FFI declarations and compared against
//  (a) the Rust encoder / decoders / puncturer of the public API, and
//  (b) small independent models written in this file (puncturing by
//      definition, H * c = 0 for the encoder, regular-language model for the
//      puncturing pattern syntax, ...).

#![allow(clippy::all)]
#![allow(dead_code)]

use ldpc_toolbox::{
    cli::ber::parse_puncturing_pattern,
    decoder::factory::{DecoderFactory, DecoderImplementation},
    encoder::Encoder,
    gf2::GF2,
    simulation::puncturing::Puncturer,
    sparse::SparseMatrix,
};
use ndarray::Array1;
use num_traits::{One, Zero};
use std::ffi::{CString, c_char, c_void};

unsafe extern "C" {
    fn ldpc_toolbox_decoder_ctor(
        alist_file_path: *const c_char,
        implementation: *const c_char,
        puncturing: *const c_char,
    ) -> *mut c_void;
    fn ldpc_toolbox_decoder_ctor_alist_string(
        alist: *const c_char,
        implementation: *const c_char,
        puncturing: *const c_char,
    ) -> *mut c_void;
    fn ldpc_toolbox_decoder_dtor(decoder: *mut c_void);
    fn ldpc_toolbox_decoder_decode_f64(
        decoder: *mut c_void,
        output: *mut u8,
        output_len: usize,
        llrs: *const f64,
        llrs_len: usize,
        max_iterations: u32,
    ) -> i32;
    fn ldpc_toolbox_decoder_decode_f32(
        decoder: *mut c_void,
        output: *mut u8,
        output_len: usize,
        llrs: *const f32,
        llrs_len: usize,
        max_iterations: u32,
    ) -> i32;
    fn ldpc_toolbox_encoder_ctor(
        alist_file_path: *const c_char,
        puncturing: *const c_char,
    ) -> *mut c_void;
    fn ldpc_toolbox_encoder_ctor_alist_string(
        alist: *const c_char,
        puncturing: *const c_char,
    ) -> *mut c_void;
    fn ldpc_toolbox_encoder_dtor(encoder: *mut c_void);
    fn ldpc_toolbox_encoder_encode(
        encoder: *mut c_void,
        output: *mut u8,
        output_len: usize,
        input: *const u8,
        input_len: usize,
    );
}

// ---------------------------------------------------------------------------
// Watchdog: the whole test binary is killed if it runs for too long.
// ---------------------------------------------------------------------------

fn watchdog() {
    static ONCE: std::sync::Once = std::sync::Once::new();
    ONCE.call_once(|| {
        std::thread::spawn(|| {
            std::thread::sleep(std::time::Duration::from_secs(900));
            eprintln!("seeded_demo: watchdog timeout");
            std::process::exit(3);
        });
    });
}

// ---------------------------------------------------------------------------
// Safe wrappers of the C interface
// ---------------------------------------------------------------------------

fn cstr(bytes: &[u8]) -> CString {
    CString::new(bytes.to_vec()).expect("no interior NUL in test strings")
}

struct CDecoder(*mut c_void);

impl CDecoder {
    fn from_string(alist: &[u8], imp: &[u8], punct: &[u8]) -> Option<CDecoder> {
        let (a, i, p) = (cstr(alist), cstr(imp), cstr(punct));
        let h = unsafe {
            ldpc_toolbox_decoder_ctor_alist_string(a.as_ptr(), i.as_ptr(), p.as_ptr())
        };
        if h.is_null() { None } else { Some(CDecoder(h)) }
    }

    fn from_file(path: &[u8], imp: &[u8], punct: &[u8]) -> Option<CDecoder> {
        let (a, i, p) = (cstr(path), cstr(imp), cstr(punct));
        let h = unsafe { ldpc_toolbox_decoder_ctor(a.as_ptr(), i.as_ptr(), p.as_ptr()) };
        if h.is_null() { None } else { Some(CDecoder(h)) }
    }

    fn decode_f64(&mut self, out_len: usize, llrs: &[f64], max_iter: u32) -> (i32, Vec<u8>) {
        // one guard byte after the output which must not be touched
        let mut out = vec![0xa5u8; out_len + 1];
        let r = unsafe {
            ldpc_toolbox_decoder_decode_f64(
                self.0,
                out.as_mut_ptr(),
                out_len,
                llrs.as_ptr(),
                llrs.len(),
                max_iter,
            )
        };
        assert_eq!(out[out_len], 0xa5, "decoder wrote past the output buffer");
        out.truncate(out_len);
        (r, out)
    }

    fn decode_f32(&mut self, out_len: usize, llrs: &[f32], max_iter: u32) -> (i32, Vec<u8>) {
        let mut out = vec![0xa5u8; out_len + 1];
        let r = unsafe {
            ldpc_toolbox_decoder_decode_f32(
                self.0,
                out.as_mut_ptr(),
                out_len,
                llrs.as_ptr(),
                llrs.len(),
                max_iter,
            )
        };
        assert_eq!(out[out_len], 0xa5, "decoder wrote past the output buffer");
        out.truncate(out_len);
        (r, out)
    }
}

impl Drop for CDecoder {
    fn drop(&mut self) {
        unsafe { ldpc_toolbox_decoder_dtor(self.0) }
    }
}

struct CEncoder(*mut c_void);

impl CEncoder {
    fn from_string(alist: &[u8], punct: &[u8]) -> Option<CEncoder> {
        let (a, p) = (cstr(alist), cstr(punct));
        let h = unsafe { ldpc_toolbox_encoder_ctor_alist_string(a.as_ptr(), p.as_ptr()) };
        if h.is_null() { None } else { Some(CEncoder(h)) }
    }

    fn from_file(path: &[u8], punct: &[u8]) -> Option<CEncoder> {
        let (a, p) = (cstr(path), cstr(punct));
        let h = unsafe { ldpc_toolbox_encoder_ctor(a.as_ptr(), p.as_ptr()) };
        if h.is_null() { None } else { Some(CEncoder(h)) }
    }

    fn encode(&mut self, out_len: usize, input: &[u8]) -> Vec<u8> {
        let mut out = vec![0xa5u8; out_len + 1];
        unsafe {
            ldpc_toolbox_encoder_encode(
                self.0,
                out.as_mut_ptr(),
                out_len,
                input.as_ptr(),
                input.len(),
            )
        };
        assert_eq!(out[out_len], 0xa5, "encoder wrote past the output buffer");
        out.truncate(out_len);
        out
    }
}

impl Drop for CEncoder {
    fn drop(&mut self) {
        unsafe { ldpc_toolbox_encoder_dtor(self.0) }
    }
}

// ---------------------------------------------------------------------------
// Deterministic pseudo random numbers (splitmix64)
// ---------------------------------------------------------------------------

struct Rng(u64);

impl Rng {
    fn next(&mut self) -> u64 {
        self.0 = self.0.wrapping_add(0x9e37_79b9_7f4a_7c15);
        let mut z = self.0;
        z = (z ^ (z >> 30)).wrapping_mul(0xbf58_476d_1ce4_e5b9);
        z = (z ^ (z >> 27)).wrapping_mul(0x94d0_49bb_1331_11eb);
        z ^ (z >> 31)
    }
    fn below(&mut self, n: usize) -> usize {
        (self.next() % (n as u64)) as usize
    }
    fn bit(&mut self) -> bool {
        self.next() & 1 == 1
    }
    fn unit(&mut self) -> f64 {
        (self.next() >> 11) as f64 / (1u64 << 53) as f64
    }
    // crude zero-mean noise (sum of uniforms)
    fn noise(&mut self) -> f64 {
        let mut s = 0.0;
        for _ in 0..6 {
            s += self.unit() - 0.5;
        }
        s * 1.4142
    }
}

// ---------------------------------------------------------------------------
// Independent models
// ---------------------------------------------------------------------------

const ALL_IMPLEMENTATIONS: [&str; 36] = [
    "Phif64",
    "Phif32",
    "Tanhf64",
    "Tanhf32",
    "Minstarapproxf64",
    "Minstarapproxf32",
    "Minstarapproxi8",
    "Minstarapproxi8Jones",
    "Minstarapproxi8PartialHardLimit",
    "Minstarapproxi8JonesPartialHardLimit",
    "Minstarapproxi8Deg1Clip",
    "Minstarapproxi8JonesDeg1Clip",
    "Minstarapproxi8PartialHardLimitDeg1Clip",
    "Minstarapproxi8JonesPartialHardLimitDeg1Clip",
    "Aminstarf64",
    "Aminstarf32",
    "Aminstari8",
    "Aminstari8Jones",
    "Aminstari8PartialHardLimit",
    "Aminstari8JonesPartialHardLimit",
    "Aminstari8Deg1Clip",
    "Aminstari8JonesDeg1Clip",
    "Aminstari8PartialHardLimitDeg1Clip",
    "Aminstari8JonesPartialHardLimitDeg1Clip",
    "HLPhif64",
    "HLPhif32",
    "HLTanhf64",
    "HLTanhf32",
    "HLMinstarapproxf64",
    "HLMinstarapproxf32",
    "HLMinstarapproxi8",
    "HLMinstarapproxi8PartialHardLimit",
    "HLAminstarf64",
    "HLAminstarf32",
    "HLAminstari8",
    "HLAminstari8PartialHardLimit",
];

/// The language of puncturing patterns: `[01](,[01])*`.
fn model_parse_pattern(s: &[u8]) -> Option<Vec<bool>> {
    if s.len() % 2 == 0 {
        return None;
    }
    let mut v = Vec::new();
    for (j, &b) in s.iter().enumerate() {
        if j % 2 == 0 {
            match b {
                b'0' => v.push(false),
                b'1' => v.push(true),
                _ => return None,
            }
        } else if b != b',' {
            return None;
        }
    }
    Some(v)
}

/// Puncturing by definition: the word is cut into pattern.len() equal blocks
/// and the blocks whose pattern entry is false are dropped.
fn model_puncture<T: Clone>(pattern: &[bool], word: &[T]) -> Option<Vec<T>> {
    if word.len() % pattern.len() != 0 {
        return None;
    }
    let b = word.len() / pattern.len();
    let mut out = Vec::new();
    for (j, x) in word.iter().enumerate() {
        if pattern[j / b] {
            out.push(x.clone());
        }
    }
    Some(out)
}

/// Depuncturing by definition (erasures are zeros).
fn model_depuncture<T: Clone + Default>(pattern: &[bool], rx: &[T]) -> Option<Vec<T>> {
    let trues = pattern.iter().filter(|&&b| b).count();
    assert!(trues > 0);
    if rx.len() % trues != 0 {
        return None;
    }
    let b = rx.len() / trues;
    let mut it = rx.iter();
    let mut out = Vec::new();
    for &keep in pattern {
        for _ in 0..b {
            if keep {
                out.push(it.next().unwrap().clone());
            } else {
                out.push(T::default());
            }
        }
    }
    assert!(it.next().is_none());
    Some(out)
}

fn to_gf2(bytes: &[u8]) -> Array1<GF2> {
    Array1::from_iter(
        bytes
            .iter()
            .map(|&b| if b == 1 { GF2::one() } else { GF2::zero() }),
    )
}

fn from_gf2(word: &Array1<GF2>) -> Vec<u8> {
    word.iter().map(|x| if x.is_one() { 1 } else { 0 }).collect()
}

/// Dense 0/1 copy of a sparse matrix.
fn dense(h: &SparseMatrix) -> Vec<Vec<u8>> {
    let mut d = vec![vec![0u8; h.num_cols()]; h.num_rows()];
    for (r, c) in h.iter_all() {
        d[r][c] = 1;
    }
    d
}

/// Independent systematic encoder: solves H1 p = H0 m by Gaussian elimination
/// on bytes. Returns None if H1 (the last num_rows columns) is singular.
fn model_encode(h: &SparseMatrix, message: &[u8]) -> Option<Vec<u8>> {
    let r = h.num_rows();
    let n = h.num_cols();
    let k = n - r;
    assert_eq!(message.len(), k);
    let d = dense(h);
    // augmented system [H1 | s], s = H0 m
    let mut a = vec![vec![0u8; r + 1]; r];
    for j in 0..r {
        for t in 0..r {
            a[j][t] = d[j][k + t];
        }
        let mut s = 0;
        for t in 0..k {
            s ^= d[j][t] & message[t];
        }
        a[j][r] = s;
    }
    for col in 0..r {
        let piv = (col..r).find(|&j| a[j][col] == 1)?;
        a.swap(col, piv);
        for j in 0..r {
            if j != col && a[j][col] == 1 {
                for t in 0..=r {
                    let x = a[col][t];
                    a[j][t] ^= x;
                }
            }
        }
    }
    let mut cw = message.to_vec();
    for j in 0..r {
        cw.push(a[j][r]);
    }
    Some(cw)
}

fn syndrome_is_zero(h: &SparseMatrix, word: &[u8]) -> bool {
    (0..h.num_rows()).all(|r| h.iter_row(r).fold(0u8, |acc, &c| acc ^ word[c]) == 0)
}

// ---------------------------------------------------------------------------
// Code generators
// ---------------------------------------------------------------------------

/// Random code whose last `rows` columns form an invertible matrix which is
/// not of staircase type (unless by coincidence).
fn random_dense_code(rng: &mut Rng, rows: usize, cols: usize) -> SparseMatrix {
    let k = cols - rows;
    // H1: identity scrambled by random row additions
    let mut h1 = vec![vec![0u8; rows]; rows];
    for j in 0..rows {
        h1[j][j] = 1;
    }
    for _ in 0..(3 * rows) {
        let a = rng.below(rows);
        let b = rng.below(rows);
        if a != b {
            for t in 0..rows {
                let x = h1[a][t];
                h1[b][t] ^= x;
            }
        }
    }
    let mut h = SparseMatrix::new(rows, cols);
    for j in 0..rows {
        for t in 0..rows {
            if h1[j][t] == 1 {
                h.insert(j, k + t);
            }
        }
    }
    // H0: every column gets at least one entry, every row at least one
    for c in 0..k {
        let w = 1 + rng.below(3.min(rows));
        for _ in 0..w {
            let r = rng.below(rows);
            if !h.contains(r, c) {
                h.insert(r, c);
            }
        }
    }
    if k > 0 {
        for r in 0..rows {
            if (0..k).all(|c| !h.contains(r, c)) {
                h.insert(r, rng.below(k));
            }
        }
    }
    h
}

/// Random staircase (repeat-accumulate) code.
fn random_staircase_code(rng: &mut Rng, rows: usize, cols: usize) -> SparseMatrix {
    let k = cols - rows;
    let mut h = SparseMatrix::new(rows, cols);
    for j in 0..rows {
        h.insert(j, k + j);
        if j > 0 {
            h.insert(j, k + j - 1);
        }
    }
    for c in 0..k {
        let w = 1 + rng.below(3.min(rows));
        for _ in 0..w {
            let r = rng.below(rows);
            if !h.contains(r, c) {
                h.insert(r, c);
            }
        }
    }
    h
}

/// Code whose last columns are singular (two equal rows in H1, or a zero row).
fn random_singular_code(rng: &mut Rng, rows: usize, cols: usize) -> SparseMatrix {
    assert!(rows >= 2);
    let good = random_dense_code(rng, rows, cols);
    let k = cols - rows;
    let d = dense(&good);
    let mut h = SparseMatrix::new(rows, cols);
    let a = rng.below(rows);
    let mut b = rng.below(rows);
    if a == b {
        b = (a + 1) % rows;
    }
    let zero_row = rng.bit();
    for j in 0..rows {
        for c in 0..cols {
            let v = if c >= k && j == b {
                if zero_row { 0 } else { d[a][c] }
            } else {
                d[j][c]
            };
            if v == 1 {
                h.insert(j, c);
            }
        }
    }
    h
}

// ---------------------------------------------------------------------------
// Temporary files
// ---------------------------------------------------------------------------

struct TempDir(std::path::PathBuf);

impl TempDir {
    fn new(tag: &str) -> TempDir {
        let mut p = std::env::temp_dir();
        p.push(format!("ldpc_c19_demo_{}_{}", tag, std::process::id()));
        let _ = std::fs::remove_dir_all(&p);
        std::fs::create_dir_all(&p).unwrap();
        TempDir(p)
    }
    fn file(&self, name: &str, contents: &[u8]) -> Vec<u8> {
        let mut p = self.0.clone();
        p.push(name);
        std::fs::write(&p, contents).unwrap();
        p.to_str().unwrap().as_bytes().to_vec()
    }
    fn path(&self, name: &str) -> Vec<u8> {
        let mut p = self.0.clone();
        p.push(name);
        p.to_str().unwrap().as_bytes().to_vec()
    }
}

impl Drop for TempDir {
    fn drop(&mut self) {
        let _ = std::fs::remove_dir_all(&self.0);
    }
}

// ---------------------------------------------------------------------------
// Reference computations with the Rust API
// ---------------------------------------------------------------------------

/// What the C decoder must return: (return code, whole decoded word).
fn rust_decode(
    h: &SparseMatrix,
    imp: &str,
    pattern: Option<&[bool]>,
    llrs: &[f64],
    max_iter: u32,
) -> (i32, Vec<u8>) {
    let imp: DecoderImplementation = imp.parse().unwrap();
    let mut dec = imp.build_decoder(h.clone());
    let full = match pattern {
        Some(p) => model_depuncture(p, llrs).unwrap(),
        None => llrs.to_vec(),
    };
    match dec.decode(&full, max_iter as usize) {
        Ok(o) => (o.iterations as i32, o.codeword),
        Err(o) => (-1, o.codeword),
    }
}

fn make_llrs(rng: &mut Rng, codeword: &[u8], kind: usize) -> Vec<f64> {
    let mut v: Vec<f64> = codeword
        .iter()
        .map(|&b| if b == 1 { -1.0 } else { 1.0 })
        .collect();
    match kind {
        // clean
        0 => {
            for x in v.iter_mut() {
                *x *= 1.3863;
            }
        }
        // mild noise
        1 => {
            for x in v.iter_mut() {
                *x = 2.0 * (*x + 0.6 * rng.noise());
            }
        }
        // heavy noise
        2 => {
            for x in v.iter_mut() {
                *x = 2.0 * (*x + 1.3 * rng.noise());
            }
        }
        // one or two sign flips, mixed magnitudes
        3 => {
            for x in v.iter_mut() {
                *x *= 0.25 + 8.0 * rng.unit();
            }
            let n = v.len();
            let j = rng.below(n);
            v[j] = -v[j];
            if rng.bit() {
                let j = rng.below(n);
                v[j] = -v[j];
            }
        }
        // erasures, large values, negative zero, subnormals
        // (no infinities or NaN: some of the Rust decoders panic on NaN
        // messages, which through the C interface would abort the process)
        4 => {
            for x in v.iter_mut() {
                *x = match rng.below(6) {
                    0 => 0.0,
                    1 => -0.0,
                    2 => *x * 1e4,
                    3 => *x * 1e-310,
                    _ => *x * 3.0,
                };
            }
        }
        // pure garbage
        _ => {
            for x in v.iter_mut() {
                *x = 20.0 * rng.noise();
            }
        }
    }
    v
}

struct TestCode {
    h: SparseMatrix,
    alist: String,
    staircase: bool,
}

fn test_codes() -> Vec<TestCode> {
    let mut rng = Rng(0xc19);
    let mut v = Vec::new();
    for &(rows, cols, stair) in &[
        (6usize, 12usize, false),
        (4, 12, true),
        (5, 10, false),
        (8, 24, true),
        (9, 12, false),
        (12, 24, false),
    ] {
        let h = if stair {
            random_staircase_code(&mut rng, rows, cols)
        } else {
            random_dense_code(&mut rng, rows, cols)
        };
        // alternate between the padded and the unpadded alist flavours
        let alist = if v.len() % 2 == 0 {
            h.alist()
        } else {
            h.alist_no_padding()
        };
        // The reference is the matrix as parsed from the text (the order of
        // the entries inside the sparse matrix matters for the floating
        // point decoders).
        let parsed = SparseMatrix::from_alist(&alist).unwrap();
        assert_eq!(dense(&parsed), dense(&h));
        let h = parsed;
        v.push(TestCode {
            h,
            alist,
            staircase: stair,
        });
    }
    v
}

const PATTERNS: [&str; 12] = [
    "",
    "1",
    "1,1",
    "1,0",
    "0,1",
    "1,1,0",
    "0,1,1",
    "1,0,1,1",
    "1,1,1,1,0,1",
    "0,1,0,0,1,0",
    "1,1,1,1,0",
    "0,0,1,0,0",
];

fn pattern_of(s: &str) -> Option<Vec<bool>> {
    if s.is_empty() {
        None
    } else {
        Some(model_parse_pattern(s.as_bytes()).unwrap())
    }
}

// ---------------------------------------------------------------------------
// Tests common to all demonstrations
// ---------------------------------------------------------------------------

#[test]
fn c_decoder_matches_rust_decoder() {
    watchdog();
    let mut rng = Rng(1);
    let codes = test_codes();
    let dir = TempDir::new("dec");
    let mut checked = 0usize;
    let mut outcomes = [0usize; 3]; // failures, zero iterations, some iterations
    for (ci, code) in codes.iter().enumerate() {
        let n = code.h.num_cols();
        let k = n - code.h.num_rows();
        let enc = Encoder::from_h(&code.h).unwrap();
        let path = dir.file(&format!("code{ci}.alist"), code.alist.as_bytes());
        for (ii, imp) in ALL_IMPLEMENTATIONS.iter().enumerate() {
            for (pi, pat) in PATTERNS.iter().enumerate() {
                let pattern = pattern_of(pat);
                if let Some(p) = &pattern {
                    if n % p.len() != 0 {
                        continue;
                    }
                }
                // spread the (expensive) full product thinly but
                // deterministically
                if (ci + ii + pi) % 3 != 0 && pi > 1 {
                    continue;
                }
                let from_file = (ci + ii + pi) % 2 == 0;
                let mut dec = if from_file {
                    CDecoder::from_file(&path, imp.as_bytes(), pat.as_bytes())
                } else {
                    CDecoder::from_string(code.alist.as_bytes(), imp.as_bytes(), pat.as_bytes())
                }
                .unwrap_or_else(|| panic!("constructor returned null for {imp} {pat:?}"));
                // a second handle on the same code which is used interleaved
                let mut dec2 =
                    CDecoder::from_string(code.alist.as_bytes(), imp.as_bytes(), pat.as_bytes())
                        .unwrap();
                let mut history: Vec<(Vec<f64>, u32, (i32, Vec<u8>))> = Vec::new();
                for kind in 0..6 {
                    let msg: Vec<u8> = (0..k).map(|_| rng.bit() as u8).collect();
                    let cw = from_gf2(&enc.encode(&to_gf2(&msg)));
                    let full = make_llrs(&mut rng, &cw, kind);
                    let rx = match &pattern {
                        Some(p) => model_puncture(p, &full).unwrap(),
                        None => full.clone(),
                    };
                    let max_iter = [0u32, 1, 2, 7, 25, 60][rng.below(6)];
                    let expected = rust_decode(&code.h, imp, pattern.as_deref(), &rx, max_iter);
                    assert!(expected.0 == -1 || (0..=max_iter as i32).contains(&expected.0));
                    match expected.0 {
                        -1 => outcomes[0] += 1,
                        0 => outcomes[1] += 1,
                        _ => outcomes[2] += 1,
                    }
                    assert_eq!(expected.1.len(), n);
                    for out_len in [n, k, 0, 1, n - 1] {
                        let got = dec.decode_f64(out_len, &rx, max_iter);
                        assert_eq!(got.0, expected.0, "{imp} {pat:?} kind {kind}");
                        assert_eq!(&got.1[..], &expected.1[..out_len], "{imp} {pat:?}");
                        checked += 1;
                    }
                    let got2 = dec2.decode_f64(n, &rx, max_iter);
                    assert_eq!(got2, expected);
                    history.push((rx, max_iter, expected));
                }
                // replay in another order: the calls are independent of
                // each other
                for idx in [3usize, 0, 5, 5, 1, 4, 2, 0] {
                    let (rx, max_iter, expected) = &history[idx];
                    assert_eq!(&dec.decode_f64(n, rx, *max_iter), expected);
                    assert_eq!(&dec2.decode_f64(n, rx, *max_iter), expected);
                }
                // f32 entry point: behaves as the f64 widening of the input
                for kind in 0..6 {
                    let msg: Vec<u8> = (0..k).map(|_| rng.bit() as u8).collect();
                    let cw = from_gf2(&enc.encode(&to_gf2(&msg)));
                    let full = make_llrs(&mut rng, &cw, kind);
                    let rx64 = match &pattern {
                        Some(p) => model_puncture(p, &full).unwrap(),
                        None => full,
                    };
                    let rx32: Vec<f32> = rx64.iter().map(|&x| x as f32).collect();
                    let widened: Vec<f64> = rx32.iter().map(|&x| f64::from(x)).collect();
                    let max_iter = [0u32, 1, 3, 30][rng.below(4)];
                    let expected =
                        rust_decode(&code.h, imp, pattern.as_deref(), &widened, max_iter);
                    let out_len = [n, k][rng.below(2)];
                    let got = dec.decode_f32(out_len, &rx32, max_iter);
                    assert_eq!(got.0, expected.0);
                    assert_eq!(&got.1[..], &expected.1[..out_len]);
                    // and the f64 entry point on the widened values agrees
                    let got = dec.decode_f64(out_len, &widened, max_iter);
                    assert_eq!(got.0, expected.0);
                    assert_eq!(&got.1[..], &expected.1[..out_len]);
                    checked += 2;
                }
            }
        }
    }
    assert!(checked > 10_000);
    // all the kinds of outcome have been seen many times
    assert!(outcomes.iter().all(|&c| c > 300), "{outcomes:?}");
}

#[test]
fn c_decoder_special_values() {
    watchdog();
    // unusual finite values go through the C interface unchanged
    let mut rng = Rng(77);
    let codes = test_codes();
    let code = &codes[0];
    let n = code.h.num_cols();
    for imp in ALL_IMPLEMENTATIONS.iter() {
        for pat in ["", "1,1,0", "0,1"] {
            let pattern = pattern_of(pat);
            let mut dec =
                CDecoder::from_string(code.alist.as_bytes(), imp.as_bytes(), pat.as_bytes())
                    .unwrap();
            let rx_len = match &pattern {
                Some(p) => n / p.len() * p.iter().filter(|&&b| b).count(),
                None => n,
            };
            for _ in 0..6 {
                let rx: Vec<f64> = (0..rx_len)
                    .map(|_| match rng.below(8) {
                        0 => -0.0,
                        1 => 1.0e5,
                        2 => -1.0e5,
                        3 => 5e-324,
                        4 => f64::MIN_POSITIVE,
                        5 => 0.1 + 0.2, // not representable in f32
                        _ => 4.0 * rng.noise(),
                    })
                    .collect();
                let expected = rust_decode(&code.h, imp, pattern.as_deref(), &rx, 5);
                assert_eq!(dec.decode_f64(n, &rx, 5), expected);
                let rx32: Vec<f32> = rx.iter().map(|&x| x as f32).collect();
                let widened: Vec<f64> = rx32.iter().map(|&x| f64::from(x)).collect();
                let expected = rust_decode(&code.h, imp, pattern.as_deref(), &widened, 5);
                assert_eq!(dec.decode_f32(n, &rx32, 5), expected);
            }
        }
    }
}

#[test]
fn c_encoder_matches_rust_encoder() {
    watchdog();
    let mut rng = Rng(2);
    let codes = test_codes();
    let dir = TempDir::new("enc");
    let mut checked = 0usize;
    for (ci, code) in codes.iter().enumerate() {
        let n = code.h.num_cols();
        let k = n - code.h.num_rows();
        let enc = Encoder::from_h(&code.h).unwrap();
        let path = dir.file(&format!("code{ci}.alist"), code.alist.as_bytes());
        let extra = ["0", "0,0", "0,0,0"];
        for (pi, pat) in PATTERNS.iter().chain(extra.iter()).enumerate() {
            let pattern = pattern_of(pat);
            if let Some(p) = &pattern {
                if n % p.len() != 0 {
                    continue;
                }
            }
            let mut c_enc = if (ci + pi) % 2 == 0 {
                CEncoder::from_file(&path, pat.as_bytes())
            } else {
                CEncoder::from_string(code.alist.as_bytes(), pat.as_bytes())
            }
            .unwrap();
            let mut c_enc2 = CEncoder::from_string(code.alist.as_bytes(), pat.as_bytes()).unwrap();
            let mut history = Vec::new();
            for t in 0..24 {
                let msg: Vec<u8> = (0..k)
                    .map(|_| match t {
                        0 => 0,
                        1 => 1,
                        // bytes other than 1 all mean "zero"
                        2 | 3 => [0u8, 1, 2, 255, 0x81, 3][rng.below(6)],
                        _ => rng.bit() as u8,
                    })
                    .collect();
                let normalised: Vec<u8> = msg.iter().map(|&b| (b == 1) as u8).collect();
                let cw = from_gf2(&enc.encode(&to_gf2(&msg)));
                // the Rust encoder is systematic and produces codewords
                assert_eq!(cw.len(), n);
                assert_eq!(&cw[..k], &normalised[..]);
                assert!(syndrome_is_zero(&code.h, &cw));
                assert_eq!(Some(&cw), model_encode(&code.h, &normalised).as_ref());
                let expected = match &pattern {
                    Some(p) => {
                        let e = model_puncture(p, &cw).unwrap();
                        // the Rust puncturer agrees with the model
                        let r = Puncturer::new(p).puncture(&Array1::from(cw.clone())).unwrap();
                        assert_eq!(r.to_vec(), e);
                        e
                    }
                    None => cw.clone(),
                };
                let got = c_enc.encode(expected.len(), &msg);
                assert_eq!(got, expected, "code {ci} pattern {pat:?}");
                assert_eq!(c_enc2.encode(expected.len(), &msg), expected);
                history.push((msg, expected));
                checked += 1;
            }
            for idx in [5usize, 0, 1, 1, 23, 7, 0, 12] {
                let (msg, expected) = &history[idx];
                assert_eq!(&c_enc.encode(expected.len(), msg), expected);
                assert_eq!(&c_enc2.encode(expected.len(), msg), expected);
            }
        }
    }
    assert!(checked > 1000);
}

const BAD_ALISTS: [&str; 12] = [
    "",
    "\n",
    "abc",
    "12",
    "12 x\n",
    "x 4\n",
    "-3 2\n",
    "4 2\n2 2\n",
    "4 2\n1 2\n1 1 1 1\n2 2\n1\n2\n1",
    "4 2\n1 2\n1 1 1 1\n2 2\n1\n2\n1\n3\n1 3\n2 4\n",
    "4 2\n1 2\n1 1 1 1\n2 2\n1\n2\nfoo\n2\n1 3\n2 4\n",
    "4 2\n1 2\n1 1 1 1\n2 2\n1\n2\n1\n-2\n1 3\n2 4\n",
];

const BAD_IMPLEMENTATIONS: [&str; 22] = [
    "",
    " ",
    "phif64",
    "PHIF64",
    "Phif64 ",
    " Phif64",
    "Phif64\n",
    "Phif",
    "Phif6",
    "Phif640",
    "Phif16",
    "Phii8",
    "Tanhi8",
    "HLPhii8",
    "HL",
    "HLHLPhif64",
    "HLAminstari8Jones",
    "HLMinstarapproxi8Deg1Clip",
    "Aminstari8Deg1ClipJones",
    "Aminstari8PartialHardLimitJones",
    "Aminstarf64Jones",
    "Minstarapproxi8JonesJones",
];

const BAD_PATTERNS: [&str; 20] = [
    ",", "1,", ",1", "1,,0", "2", "1,2", "1, 0", " 1", "1 ", "1,0,", "01", "10", "true", "1;0",
    "1.0", "1,0\n", "\n", "+1", "1,-0", "１",
];

#[test]
fn constructors_reject_bad_arguments() {
    watchdog();
    let codes = test_codes();
    let good = &codes[0];
    let dir = TempDir::new("ctor");
    let good_path = dir.file("good.alist", good.alist.as_bytes());
    let missing = dir.path("does_not_exist.alist");
    let directory = dir.0.to_str().unwrap().as_bytes().to_vec();

    // sanity: the good arguments are accepted
    assert!(CDecoder::from_string(good.alist.as_bytes(), b"Phif64", b"").is_some());
    assert!(CDecoder::from_file(&good_path, b"Phif64", b"1,1,0").is_some());
    assert!(CEncoder::from_string(good.alist.as_bytes(), b"").is_some());
    assert!(CEncoder::from_file(&good_path, b"1,0").is_some());

    // malformed alist text
    for (j, bad) in BAD_ALISTS.iter().enumerate() {
        assert!(SparseMatrix::from_alist(bad).is_err(), "bad alist {j}");
        assert!(CDecoder::from_string(bad.as_bytes(), b"Phif64", b"").is_none());
        assert!(CDecoder::from_string(bad.as_bytes(), b"HLAminstari8", b"1,0").is_none());
        assert!(CEncoder::from_string(bad.as_bytes(), b"").is_none());
        assert!(CEncoder::from_string(bad.as_bytes(), b"1,1").is_none());
        let p = dir.file(&format!("bad{j}.alist"), bad.as_bytes());
        assert!(CDecoder::from_file(&p, b"Phif64", b"").is_none());
        assert!(CEncoder::from_file(&p, b"").is_none());
    }
    // alist which is not UTF-8
    let mut non_utf8 = good.alist.as_bytes().to_vec();
    non_utf8[0] = 0xff;
    assert!(CDecoder::from_string(&non_utf8, b"Phif64", b"").is_none());
    assert!(CEncoder::from_string(&non_utf8, b"").is_none());

    // unknown implementation names
    for bad in BAD_IMPLEMENTATIONS.iter() {
        assert!(bad.parse::<DecoderImplementation>().is_err(), "{bad:?}");
        assert!(CDecoder::from_string(good.alist.as_bytes(), bad.as_bytes(), b"").is_none());
        assert!(CDecoder::from_string(good.alist.as_bytes(), bad.as_bytes(), b"1,1").is_none());
        assert!(CDecoder::from_file(&good_path, bad.as_bytes(), b"").is_none());
    }
    for bad in [&b"Phif64\xff"[..], b"\xffPhif64", b"Phi\xc3\xa9f64", b"\xc0\xafPhif64"] {
        assert!(CDecoder::from_string(good.alist.as_bytes(), bad, b"").is_none());
        assert!(CDecoder::from_file(&good_path, bad, b"").is_none());
    }

    // malformed puncturing patterns
    for bad in BAD_PATTERNS.iter() {
        assert!(parse_puncturing_pattern(bad).is_err(), "{bad:?}");
        assert!(
            CDecoder::from_string(good.alist.as_bytes(), b"Phif64", bad.as_bytes()).is_none(),
            "{bad:?}"
        );
        assert!(CDecoder::from_file(&good_path, b"Tanhf32", bad.as_bytes()).is_none());
        assert!(CEncoder::from_string(good.alist.as_bytes(), bad.as_bytes()).is_none());
        assert!(CEncoder::from_file(&good_path, bad.as_bytes()).is_none());
    }
    for bad in [&b"1,0\xff"[..], b"\xff", b"1\xff0", b"1,\xc3\xa9"] {
        assert!(CDecoder::from_string(good.alist.as_bytes(), b"Phif64", bad).is_none());
        assert!(CEncoder::from_string(good.alist.as_bytes(), bad).is_none());
    }

    // unreadable files
    for p in [&missing[..], &directory[..], b"", b"/", b"\xff\xfe/nowhere"] {
        assert!(CDecoder::from_file(p, b"Phif64", b"").is_none());
        assert!(CDecoder::from_file(p, b"Phif64", b"1,1").is_none());
        assert!(CEncoder::from_file(p, b"").is_none());
        assert!(CEncoder::from_file(p, b"1,1").is_none());
    }
    // a file which is not UTF-8
    let p = dir.file("latin1.alist", &non_utf8);
    assert!(CDecoder::from_file(&p, b"Phif64", b"").is_none());
    assert!(CEncoder::from_file(&p, b"").is_none());
    // the text constructor does not read files and vice versa
    assert!(CDecoder::from_string(&good_path, b"Phif64", b"").is_none());
    assert!(CEncoder::from_string(&good_path, b"").is_none());
    assert!(CDecoder::from_file(good.alist.as_bytes(), b"Phif64", b"").is_none());
    assert!(CEncoder::from_file(good.alist.as_bytes(), b"").is_none());

    // several things wrong at once
    assert!(CDecoder::from_string(b"abc", b"nope", b"1,,").is_none());
    assert!(CDecoder::from_file(&missing, b"nope", b"1,,").is_none());
    assert!(CEncoder::from_file(&missing, b"1,,").is_none());
}

#[test]
fn encoder_constructor_rejects_singular_codes() {
    watchdog();
    let mut rng = Rng(5);
    let dir = TempDir::new("sing");
    for t in 0..60 {
        let rows = 2 + rng.below(9);
        let cols = rows + 1 + rng.below(12);
        let h = random_singular_code(&mut rng, rows, cols);
        let alist = if t % 2 == 0 { h.alist() } else { h.alist_no_padding() };
        assert!(Encoder::from_h(&h).is_err());
        assert!(model_encode(&h, &vec![0; cols - rows]).is_none());
        assert!(CEncoder::from_string(alist.as_bytes(), b"").is_none());
        assert!(CEncoder::from_string(alist.as_bytes(), b"1").is_none());
        let p = dir.file(&format!("s{t}.alist"), alist.as_bytes());
        assert!(CEncoder::from_file(&p, b"").is_none());
        // ... but the decoder does not care
        assert!(CDecoder::from_string(alist.as_bytes(), b"Phif64", b"").is_some());
        assert!(CDecoder::from_file(&p, b"HLTanhf32", b"").is_some());
    }
}

#[test]
fn lossy_conversion_of_file_names() {
    watchdog();
    // The C strings are converted lossily: a path with an invalid byte names
    // the file in which that byte is U+FFFD.
    let codes = test_codes();
    let code = &codes[1];
    let dir = TempDir::new("lossy");
    let real = dir.file("a\u{fffd}b\u{fffd}.alist", code.alist.as_bytes());
    let _ = real;
    let mut raw = dir.0.to_str().unwrap().as_bytes().to_vec();
    raw.extend_from_slice(b"/a\xffb\xe2\x82.alist");
    let dec = CDecoder::from_file(&raw, b"Phif64", b"");
    let enc = CEncoder::from_file(&raw, b"");
    assert!(dec.is_some());
    assert!(enc.is_some());
    // three separate invalid bytes are three replacement characters
    let mut raw = dir.0.to_str().unwrap().as_bytes().to_vec();
    raw.extend_from_slice(b"/a\xffb\x80\x80.alist");
    assert!(CDecoder::from_file(&raw, b"Phif64", b"").is_none());
    assert!(CEncoder::from_file(&raw, b"").is_none());
    dir.file("a\u{fffd}b\u{fffd}\u{fffd}.alist", code.alist.as_bytes());
    assert!(CDecoder::from_file(&raw, b"Phif64", b"").is_some());
    assert!(CEncoder::from_file(&raw, b"").is_some());
    // valid multi-byte names are used as they are
    let p = dir.file("c\u{e9}\u{20ac}\u{1f600}.alist", code.alist.as_bytes());
    let mut dec = CDecoder::from_file(&p, b"Phif64", b"").unwrap();
    let n = code.h.num_cols();
    let llrs = vec![1.5; n];
    assert_eq!(dec.decode_f64(n, &llrs, 3), (0, vec![0; n]));
}

// ---------------------------------------------------------------------------
// Tests aimed at the puncturing code (pattern syntax, Puncturer)
// ---------------------------------------------------------------------------

fn strings_over(alphabet: &[char], max_len: usize) -> Vec<String> {
    let mut all = vec![String::new()];
    let mut last = vec![String::new()];
    for _ in 0..max_len {
        let mut next = Vec::with_capacity(last.len() * alphabet.len());
        for s in &last {
            for &c in alphabet {
                let mut t = s.clone();
                t.push(c);
                next.push(t);
            }
        }
        all.extend(next.iter().cloned());
        last = next;
    }
    all
}

#[test]
fn puncturing_pattern_language_is_exactly_as_specified() {
    watchdog();
    let codes = test_codes();
    let code = &codes[0]; // n = 12
    let n = code.h.num_cols();
    let mut accepted = 0;
    let mut c_checked = 0;
    let all = strings_over(&['0', '1', ',', ' ', '2', '\u{e9}'], 7);
    assert_eq!(all.len(), (6usize.pow(8) - 1) / 5);
    for (j, s) in all.iter().enumerate() {
        let model = model_parse_pattern(s.as_bytes());
        let got = parse_puncturing_pattern(s);
        assert_eq!(got.as_ref().ok(), model.as_ref(), "{s:?}");
        if model.is_some() {
            accepted += 1;
        }
        // The C constructors accept the same language, plus the empty
        // string, which means that there is no puncturing.
        if j % 61 == 0 || model.is_some() {
            let expect = model.is_some() || s.is_empty();
            let dec = CDecoder::from_string(code.alist.as_bytes(), b"Minstarapproxi8", s.as_bytes());
            let enc = CEncoder::from_string(code.alist.as_bytes(), s.as_bytes());
            assert_eq!(dec.is_some(), expect, "{s:?}");
            assert_eq!(enc.is_some(), expect, "{s:?}");
            c_checked += 1;
            // the accepted patterns behave as the pattern they spell
            if let (Some(p), Some(mut enc)) = (&model, enc) {
                if n % p.len() == 0 {
                    let k = n - code.h.num_rows();
                    let msg: Vec<u8> = (0..k).map(|t| ((t * 7 + j) % 3 == 0) as u8).collect();
                    let cw = model_encode(&code.h, &msg).unwrap();
                    let expected = model_puncture(p, &cw).unwrap();
                    assert_eq!(enc.encode(expected.len(), &msg), expected);
                }
            }
        }
    }
    // 2 + 4 + 8 + 16 patterns of 1, 2, 3 and 4 entries fit in 7 characters
    assert_eq!(accepted, 30);
    assert!(c_checked > 5000);
    // long patterns
    let long = vec!["1"; 5000].join(",");
    assert_eq!(parse_puncturing_pattern(&long), Ok(vec![true; 5000]));
    assert!(parse_puncturing_pattern(&format!("{long},")).is_err());
    assert!(parse_puncturing_pattern(&format!(",{long}")).is_err());
    assert!(parse_puncturing_pattern(&long.replacen("1,1", "11", 1)).is_err());
}

fn all_patterns(max_len: usize) -> Vec<Vec<bool>> {
    let mut v = Vec::new();
    for len in 1..=max_len {
        for bits in 0..(1u32 << len) {
            v.push((0..len).map(|j| bits >> j & 1 == 1).collect());
        }
    }
    v
}

#[test]
fn puncturer_agrees_with_the_definition() {
    watchdog();
    let mut rng = Rng(11);
    for pattern in all_patterns(9) {
        let p = Puncturer::new(&pattern);
        let trues = pattern.iter().filter(|&&b| b).count();
        let rate = p.rate();
        if trues == 0 {
            assert!(rate.is_infinite() && rate > 0.0);
        } else {
            assert_eq!(rate, pattern.len() as f64 / trues as f64);
        }
        for block in 0..4usize {
            let n = block * pattern.len();
            // puncturing of words of several element types
            let word: Vec<u8> = (0..n).map(|_| rng.below(256) as u8).collect();
            let expected = model_puncture(&pattern, &word).unwrap();
            assert_eq!(expected.len(), block * trues);
            let got = p.puncture(&Array1::from(word.clone())).unwrap();
            assert_eq!(got.to_vec(), expected);
            // a strided view as input
            let doubled: Vec<u8> = word.iter().flat_map(|&x| [x, !x]).collect();
            let doubled = Array1::from(doubled);
            let view = doubled.slice(ndarray::s![..;2]);
            assert_eq!(view.len(), n);
            assert_eq!(p.puncture(&view).unwrap().to_vec(), expected);
            // an element type which is only Clone
            let words: Vec<String> = word.iter().map(|x| format!("w{x}")).collect();
            let got = p.puncture(&Array1::from(words.clone())).unwrap();
            assert_eq!(got.to_vec(), model_puncture(&pattern, &words).unwrap());
            // GF(2) elements, as used by the encoder
            let bits: Vec<u8> = word.iter().map(|x| x & 1).collect();
            let got = p.puncture(&to_gf2(&bits)).unwrap();
            assert_eq!(from_gf2(&got), model_puncture(&pattern, &bits).unwrap());

            // depuncturing
            if trues > 0 {
                let m = block * trues;
                let rx: Vec<f64> = (0..m).map(|_| rng.noise() + 0.01).collect();
                let expected = model_depuncture(&pattern, &rx).unwrap();
                assert_eq!(expected.len(), n);
                let got = p.depuncture(&rx).unwrap();
                // bitwise comparison (0.0 erasures, not -0.0)
                assert_eq!(
                    got.iter().map(|x| x.to_bits()).collect::<Vec<_>>(),
                    expected.iter().map(|x| x.to_bits()).collect::<Vec<_>>()
                );
                let rx8: Vec<i8> = rx.iter().map(|&x| (x * 50.0) as i8).collect();
                assert_eq!(
                    p.depuncture(&rx8).unwrap(),
                    model_depuncture(&pattern, &rx8).unwrap()
                );
                // depuncturing undoes puncturing on the transmitted positions
                let back = p.puncture(&Array1::from(got)).unwrap();
                assert_eq!(back.to_vec(), rx);
            }
        }
        // lengths which are not multiples
        for n in 1..(3 * pattern.len()) {
            let word = Array1::from(vec![7u16; n]);
            let r = p.puncture(&word);
            if n % pattern.len() == 0 {
                assert!(r.is_ok());
            } else {
                assert_eq!(
                    r.unwrap_err(),
                    ldpc_toolbox::simulation::puncturing::Error::CodewordSizeNotDivisible
                );
            }
            if trues > 0 {
                let r = p.depuncture(&vec![1.0f32; n]);
                if n % trues == 0 {
                    assert_eq!(r.unwrap().len(), n / trues * pattern.len());
                } else {
                    assert_eq!(
                        r.unwrap_err(),
                        ldpc_toolbox::simulation::puncturing::Error::CodewordSizeNotDivisible
                    );
                }
            }
        }
        // a clone is as good as the original
        let q = p.clone();
        let word = Array1::from((0..2 * pattern.len()).collect::<Vec<usize>>());
        assert_eq!(q.puncture(&word).unwrap(), p.puncture(&word).unwrap());
    }
    assert_eq!(
        format!(
            "{}",
            ldpc_toolbox::simulation::puncturing::Error::CodewordSizeNotDivisible
        ),
        "codeword size not divisible by puncturing pattern length"
    );
}

#[test]
fn puncturer_misuse_panics_as_documented() {
    watchdog();
    let hook = std::panic::take_hook();
    std::panic::set_hook(Box::new(|_| {}));
    // empty pattern
    let r1 = std::panic::catch_unwind(|| Puncturer::new(&[]));
    // depuncturing for a pattern which transmits nothing divides by zero
    let r2 = std::panic::catch_unwind(|| Puncturer::new(&[false, false]).depuncture(&[1.0f64; 4]));
    let r3 = std::panic::catch_unwind(|| Puncturer::new(&[false]).depuncture::<f64>(&[]));
    std::panic::set_hook(hook);
    assert!(r1.is_err());
    assert!(r2.is_err());
    assert!(r3.is_err());
    // ... but puncturing with such a pattern gives the empty word
    let p = Puncturer::new(&[false, false, false]);
    assert_eq!(p.puncture(&Array1::from(vec![1u8; 9])).unwrap().len(), 0);
}

#[test]
fn c_interface_with_long_puncturing_patterns() {
    watchdog();
    let mut rng = Rng(12);
    for &(rows, cols, stair) in &[(12usize, 48usize, false), (16, 48, true), (20, 60, false)] {
        let h = if stair {
            random_staircase_code(&mut rng, rows, cols)
        } else {
            random_dense_code(&mut rng, rows, cols)
        };
        let alist = h.alist();
        let h = SparseMatrix::from_alist(&alist).unwrap();
        let k = cols - rows;
        for t in 0..40 {
            // a pattern whose length divides the codeword length
            let divisors: Vec<usize> = (1..=cols).filter(|d| cols % d == 0).collect();
            let len = divisors[rng.below(divisors.len())];
            let mut pattern: Vec<bool> = (0..len).map(|_| rng.below(4) != 0).collect();
            if t % 5 == 0 {
                // long runs
                let cut = rng.below(len + 1);
                for (j, b) in pattern.iter_mut().enumerate() {
                    *b = j < cut;
                }
            }
            let text = pattern
                .iter()
                .map(|&b| if b { "1" } else { "0" })
                .collect::<Vec<_>>()
                .join(",");
            assert_eq!(parse_puncturing_pattern(&text).unwrap(), pattern);
            let trues = pattern.iter().filter(|&&b| b).count();
            let block = cols / len;

            let mut enc = CEncoder::from_string(alist.as_bytes(), text.as_bytes()).unwrap();
            let msg: Vec<u8> = (0..k).map(|_| rng.bit() as u8).collect();
            let cw = model_encode(&h, &msg).unwrap();
            let tx = model_puncture(&pattern, &cw).unwrap();
            assert_eq!(tx.len(), trues * block);
            assert_eq!(enc.encode(tx.len(), &msg), tx);

            if trues == 0 {
                continue; // the decoder cannot be used with such a pattern
            }
            let imp = ALL_IMPLEMENTATIONS[rng.below(ALL_IMPLEMENTATIONS.len())];
            let mut dec =
                CDecoder::from_string(alist.as_bytes(), imp.as_bytes(), text.as_bytes()).unwrap();
            for kind in [0usize, 1, 3, 4] {
                let rx: Vec<f64> = make_llrs(&mut rng, &tx, kind);
                let expected = rust_decode(&h, imp, Some(&pattern), &rx, 20);
                let got = dec.decode_f64(k, &rx, 20);
                assert_eq!(got.0, expected.0);
                assert_eq!(&got.1[..], &expected.1[..k]);
                // the Rust puncturer gives the same depunctured LLRs as the
                // model used for the reference
                let a = Puncturer::new(&pattern).depuncture(&rx).unwrap();
                let b = model_depuncture(&pattern, &rx).unwrap();
                assert_eq!(
                    a.iter().map(|x| x.to_bits()).collect::<Vec<_>>(),
                    b.iter().map(|x| x.to_bits()).collect::<Vec<_>>()
                );
            }
        }
    }
}
