//! Demonstration that the BER chain hands the decoder correctly ordered,
//! correctly scaled LLRs.
//!
//! A probe decoder (plugged in through the public `DecoderFactory` trait) looks
//! at every frame that the BER simulation presents to the decoder and checks:
//!
//! * the frame has codeword length;
//! * the LLRs at the punctured positions are exactly zero and the others are
//!   not;
//! * (at very high Eb/N0) the signs of the LLRs, read in codeword bit order,
//!   form a codeword of the code, whose systematic part is the message that the
//!   simulator drew (the simulator itself compares the systematic part returned
//!   by the probe with the message, and the probe forces a known number of bit
//!   errors to make the simulation finish);
//! * (for codes with very few codewords, where the probe can tell the
//!   transmitted codeword at any SNR) the channel noise recovered from the LLRs
//!   is zero-mean, white, Gaussian and has the variance that corresponds to the
//!   requested Eb/N0 with the rate counted after puncturing and the bits per
//!   symbol of the modulation.
//!
//! Only the public API of `ldpc_toolbox` and `std` are used.

use ldpc_toolbox::{
    decoder::{DecoderOutput, LdpcDecoder, factory::DecoderFactory},
    rand::{Rng as SeededRng, SeedableRng},
    simulation::{
        ber::{Report, Reporter, Statistics},
        channel::{AwgnChannel, Channel},
        factory::{BerTestBuilder, Modulation},
        modulation::{Demodulator, Modulation as ModulationTrait, Psk8, Psk8Demodulator},
    },
    sparse::SparseMatrix,
};
use std::{
    fmt,
    sync::{
        Arc, Mutex,
        atomic::{AtomicUsize, Ordering},
        mpsc,
    },
    time::Duration,
};

/// Complex sample type of the 8PSK channel.
type Cplx = <Psk8 as ModulationTrait>::T;

const RUN_TIMEOUT: Duration = Duration::from_secs(300);

// ---------------------------------------------------------------------------
// Small deterministic PRNG for the test itself
// ---------------------------------------------------------------------------

struct TestRng(u64);

impl TestRng {
    fn next_u64(&mut self) -> u64 {
        // xorshift64*
        self.0 ^= self.0 >> 12;
        self.0 ^= self.0 << 25;
        self.0 ^= self.0 >> 27;
        self.0.wrapping_mul(0x2545F4914F6CDD1D)
    }

    fn below(&mut self, n: usize) -> usize {
        ((self.next_u64() >> 33) as usize) % n
    }

    fn uniform(&mut self) -> f64 {
        ((self.next_u64() >> 11) as f64 + 0.5) / (1u64 << 53) as f64
    }

    fn gauss(&mut self) -> f64 {
        let r = (-2.0 * self.uniform().ln()).sqrt();
        r * (2.0 * std::f64::consts::PI * self.uniform()).cos()
    }
}

// ---------------------------------------------------------------------------
// Codes
// ---------------------------------------------------------------------------

#[derive(Clone)]
struct Code {
    h: SparseMatrix,
    rows: Vec<Vec<usize>>,
    n_cw: usize,
    k: usize,
}

/// Builds H = [H0 H1] with H1 square and invertible. With `staircase` H1 is the
/// dual diagonal (fast encoder); otherwise H1 is lower triangular with some
/// extra ones (dense generator encoder).
fn make_code(n_cw: usize, k: usize, staircase: bool, col_weight: usize, seed: u64) -> Code {
    let m = n_cw - k;
    let mut rng = TestRng(seed);
    let mut h = SparseMatrix::new(m, n_cw);
    for c in 0..k {
        let mut placed = 0;
        while placed < col_weight.min(m) {
            let r = rng.below(m);
            if !h.contains(r, c) {
                h.insert(r, c);
                placed += 1;
            }
        }
    }
    for r in 0..m {
        h.insert(r, k + r);
        if r > 0 {
            h.insert(r, k + r - 1);
        }
        if !staircase && r >= 5 && r % 3 == 0 {
            h.insert(r, k + r - 5);
        }
    }
    let rows = (0..m)
        .map(|r| h.iter_row(r).copied().collect::<Vec<_>>())
        .collect();
    Code { h, rows, n_cw, k }
}

/// Fills in the bits of `c` at the positions `unknown` so that H c = 0, given
/// the remaining bits. Returns false if this is impossible or not unique.
fn solve_erasures(rows: &[Vec<usize>], c: &mut [u8], unknown: &[usize]) -> bool {
    let nu = unknown.len();
    if nu == 0 {
        return true;
    }
    let mut col_to_unknown = vec![usize::MAX; c.len()];
    for (j, &u) in unknown.iter().enumerate() {
        col_to_unknown[u] = j;
    }
    // augmented system, one Vec<u8> per row: nu coefficients and the rhs
    let mut a: Vec<Vec<u8>> = rows
        .iter()
        .map(|row| {
            let mut v = vec![0u8; nu + 1];
            for &col in row {
                let j = col_to_unknown[col];
                if j == usize::MAX {
                    v[nu] ^= c[col];
                } else {
                    v[j] ^= 1;
                }
            }
            v
        })
        .collect();
    let mut pivot_row = 0;
    let mut pivots = vec![usize::MAX; nu];
    for j in 0..nu {
        let Some(p) = (pivot_row..a.len()).find(|&r| a[r][j] == 1) else {
            return false; // free variable: not unique
        };
        a.swap(pivot_row, p);
        let pr = a[pivot_row].clone();
        for (r, row) in a.iter_mut().enumerate() {
            if r != pivot_row && row[j] == 1 {
                for (x, y) in row.iter_mut().zip(pr.iter()) {
                    *x ^= *y;
                }
            }
        }
        pivots[j] = pivot_row;
        pivot_row += 1;
    }
    // consistency of the remaining rows
    if a[pivot_row..].iter().any(|row| row[nu] == 1) {
        return false;
    }
    for j in 0..nu {
        c[unknown[j]] = a[pivots[j]][nu];
    }
    true
}

fn syndrome_ok(rows: &[Vec<usize>], c: &[u8]) -> bool {
    rows.iter()
        .all(|row| row.iter().fold(0u8, |acc, &col| acc ^ c[col]) == 0)
}

/// All the codewords of a (small) code.
fn all_codewords(code: &Code) -> Vec<Vec<u8>> {
    assert!(code.k <= 10);
    let parity: Vec<usize> = (code.k..code.n_cw).collect();
    (0..1usize << code.k)
        .map(|m| {
            let mut c = vec![0u8; code.n_cw];
            for (b, bit) in c.iter_mut().take(code.k).enumerate() {
                *bit = ((m >> b) & 1) as u8;
            }
            assert!(solve_erasures(&code.rows, &mut c, &parity));
            assert!(syndrome_ok(&code.rows, &c));
            c
        })
        .collect()
}

fn punctured_positions(n_cw: usize, pattern: Option<&[bool]>) -> Vec<bool> {
    match pattern {
        None => vec![false; n_cw],
        Some(p) => {
            assert_eq!(n_cw % p.len(), 0);
            let block = n_cw / p.len();
            (0..n_cw).map(|i| !p[i / block]).collect()
        }
    }
}

// ---------------------------------------------------------------------------
// Probe decoder
// ---------------------------------------------------------------------------

enum Mode {
    /// Very high SNR: the signs of the LLRs must be a codeword.
    Signs,
    /// Few codewords, BPSK: recover the noise from the LLRs.
    BpskNoise { sigma: f64, codewords: Vec<Vec<u8>> },
    /// Few codewords, 8PSK: gather LLR statistics.
    Psk8Stats { codewords: Vec<Vec<u8>> },
}

#[derive(Default, Clone, Debug)]
struct Acc {
    count: f64,
    sum_e: f64,
    sum_e2: f64,
    sum_e4: f64,
    sum_lag: f64,
    lag_count: f64,
    sum_yx: f64,
    sum_llr_s: f64,
    sum_llr2: f64,
    within_1: f64,
    within_2: f64,
    /// Number of frames in which each message bit was one (Signs mode).
    pos_ones: Vec<f64>,
    /// Number of frames in which each message bit was equal to the same bit
    /// of the previous frame seen by the same decoder (Signs mode).
    pos_repeats: Vec<f64>,
    msg_frames: f64,
    msg_repeat_frames: f64,
    adjacent_equal: f64,
    adjacent_count: f64,
}

#[derive(Clone, Copy, PartialEq, Eq, Debug)]
enum PanicMode {
    Never,
    /// The decoders built in even positions (0, 2, ...) panic.
    Even,
    All,
}

struct Probe {
    panic_mode: PanicMode,
    code: Code,
    punctured: Vec<bool>,
    unknown: Vec<usize>,
    mode: Mode,
    /// Number of frames (counted over all the decoders) that are returned
    /// intact before the probe starts to damage its output.
    clean_frames: usize,
    /// Number of systematic bits that are flipped in a damaged output.
    corrupt_bits: usize,
    frames: AtomicUsize,
    built: AtomicUsize,
    violations: Mutex<Vec<String>>,
    acc: Mutex<Acc>,
}

impl Probe {
    fn new(
        code: &Code,
        pattern: Option<&[bool]>,
        mode: Mode,
        clean_frames: usize,
        corrupt_bits: usize,
    ) -> Arc<Probe> {
        let punctured = punctured_positions(code.n_cw, pattern);
        let unknown = (0..code.n_cw).filter(|&i| punctured[i]).collect();
        Arc::new(Probe {
            panic_mode: PanicMode::Never,
            code: code.clone(),
            punctured,
            unknown,
            mode,
            clean_frames,
            corrupt_bits,
            frames: AtomicUsize::new(0),
            built: AtomicUsize::new(0),
            violations: Mutex::new(Vec::new()),
            acc: Mutex::new(Acc::default()),
        })
    }

    fn violate(&self, msg: String) {
        let mut v = self.violations.lock().unwrap_or_else(|e| e.into_inner());
        if v.len() < 10 {
            v.push(msg);
        }
    }

    fn violations(&self) -> Vec<String> {
        self.violations
            .lock()
            .unwrap_or_else(|e| e.into_inner())
            .clone()
    }

    fn frames(&self) -> usize {
        self.frames.load(Ordering::SeqCst)
    }

    fn acc(&self) -> Acc {
        self.acc.lock().unwrap_or_else(|e| e.into_inner()).clone()
    }

    fn ml_codeword<'a>(&self, codewords: &'a [Vec<u8>], llrs: &[f64]) -> &'a [u8] {
        let mut best = 0;
        let mut best_metric = f64::NEG_INFINITY;
        for (j, cw) in codewords.iter().enumerate() {
            let metric: f64 = cw
                .iter()
                .zip(llrs.iter())
                .map(|(&b, &l)| if b == 1 { -l } else { l })
                .sum();
            if metric > best_metric {
                best_metric = metric;
                best = j;
            }
        }
        &codewords[best]
    }
}

#[derive(Clone)]
struct ProbeFactory(Arc<Probe>);

impl fmt::Display for ProbeFactory {
    fn fmt(&self, f: &mut fmt::Formatter<'_>) -> fmt::Result {
        write!(f, "probe")
    }
}

impl DecoderFactory for ProbeFactory {
    fn build_decoder(&self, h: SparseMatrix) -> Box<dyn LdpcDecoder> {
        let position = self.0.built.fetch_add(1, Ordering::SeqCst);
        if h.num_rows() != self.0.code.h.num_rows() || h.num_cols() != self.0.code.h.num_cols() {
            self.0
                .violate("decoder built with a different matrix".to_string());
        }
        Box::new(ProbeDecoder(Arc::clone(&self.0), None, position))
    }
}

struct ProbeDecoder(Arc<Probe>, Option<Vec<u8>>, usize);

impl fmt::Debug for ProbeDecoder {
    fn fmt(&self, f: &mut fmt::Formatter<'_>) -> fmt::Result {
        write!(f, "ProbeDecoder")
    }
}

impl LdpcDecoder for ProbeDecoder {
    fn decode(
        &mut self,
        llrs: &[f64],
        _max_iterations: usize,
    ) -> Result<DecoderOutput, DecoderOutput> {
        let p = &*self.0;
        match p.panic_mode {
            PanicMode::Never => (),
            PanicMode::Even if self.2 % 2 == 1 => (),
            _ => panic!("the probe decoder panics on purpose"),
        }
        let idx = p.frames.fetch_add(1, Ordering::SeqCst);
        let n_cw = p.code.n_cw;
        if llrs.len() != n_cw {
            p.violate(format!(
                "frame of length {} instead of the codeword length {}",
                llrs.len(),
                n_cw
            ));
            return Err(DecoderOutput {
                codeword: vec![0; n_cw],
                iterations: 0,
            });
        }
        for (i, &l) in llrs.iter().enumerate() {
            if p.punctured[i] {
                if l != 0.0 {
                    p.violate(format!("punctured position {i} has LLR {l}"));
                }
            } else if !l.is_finite() || l == 0.0 {
                p.violate(format!("transmitted position {i} has LLR {l}"));
            }
        }
        let mut ok = true;
        let mut c: Vec<u8> = match &p.mode {
            Mode::Signs => {
                let mut c: Vec<u8> = llrs.iter().map(|&l| u8::from(l < 0.0)).collect();
                if !solve_erasures(&p.code.rows, &mut c, &p.unknown) {
                    p.violate(format!(
                        "frame {idx}: LLR signs are not consistent with any codeword"
                    ));
                    ok = false;
                } else if !syndrome_ok(&p.code.rows, &c) {
                    p.violate(format!("frame {idx}: LLR signs are not a codeword"));
                    ok = false;
                }
                {
                    let k = p.code.k;
                    let mut acc = p.acc.lock().unwrap_or_else(|e| e.into_inner());
                    acc.pos_ones.resize(k, 0.0);
                    acc.pos_repeats.resize(k, 0.0);
                    acc.msg_frames += 1.0;
                    for i in 0..k {
                        acc.pos_ones[i] += f64::from(c[i]);
                        if i + 1 < k {
                            acc.adjacent_count += 1.0;
                            if c[i] == c[i + 1] {
                                acc.adjacent_equal += 1.0;
                            }
                        }
                    }
                    if let Some(previous) = &self.1 {
                        acc.msg_repeat_frames += 1.0;
                        for i in 0..k {
                            if previous[i] == c[i] {
                                acc.pos_repeats[i] += 1.0;
                            }
                        }
                    }
                    self.1 = Some(c[..k].to_vec());
                }
                c
            }
            Mode::BpskNoise { sigma, codewords } => {
                let cw = p.ml_codeword(codewords, llrs);
                let to_sample = -0.5 * sigma * sigma;
                let mut local = Acc::default();
                let mut previous: Option<f64> = None;
                for i in 0..n_cw {
                    if p.punctured[i] {
                        continue;
                    }
                    let x = if cw[i] == 1 { 1.0 } else { -1.0 };
                    let y = llrs[i] * to_sample;
                    let e = y - x;
                    local.count += 1.0;
                    local.sum_e += e;
                    local.sum_e2 += e * e;
                    local.sum_e4 += e * e * e * e;
                    local.sum_yx += y * x;
                    if e.abs() < *sigma {
                        local.within_1 += 1.0;
                    }
                    if e.abs() < 2.0 * *sigma {
                        local.within_2 += 1.0;
                    }
                    if let Some(pe) = previous {
                        local.sum_lag += pe * e;
                        local.lag_count += 1.0;
                    }
                    previous = Some(e);
                }
                let mut acc = p.acc.lock().unwrap_or_else(|e| e.into_inner());
                acc.count += local.count;
                acc.sum_e += local.sum_e;
                acc.sum_e2 += local.sum_e2;
                acc.sum_e4 += local.sum_e4;
                acc.sum_yx += local.sum_yx;
                acc.within_1 += local.within_1;
                acc.within_2 += local.within_2;
                acc.sum_lag += local.sum_lag;
                acc.lag_count += local.lag_count;
                cw.to_vec()
            }
            Mode::Psk8Stats { codewords } => {
                let cw = p.ml_codeword(codewords, llrs);
                let mut local = Acc::default();
                for i in 0..n_cw {
                    if p.punctured[i] {
                        continue;
                    }
                    let s = if cw[i] == 1 { -1.0 } else { 1.0 };
                    local.count += 1.0;
                    local.sum_llr_s += llrs[i] * s;
                    local.sum_llr2 += llrs[i] * llrs[i];
                }
                let mut acc = p.acc.lock().unwrap_or_else(|e| e.into_inner());
                acc.count += local.count;
                acc.sum_llr_s += local.sum_llr_s;
                acc.sum_llr2 += local.sum_llr2;
                cw.to_vec()
            }
        };
        if idx >= p.clean_frames {
            for bit in c.iter_mut().take(p.corrupt_bits) {
                *bit ^= 1;
            }
        }
        let out = DecoderOutput {
            codeword: c,
            iterations: 1,
        };
        if ok { Ok(out) } else { Err(out) }
    }
}

// ---------------------------------------------------------------------------
// Running BER tests with a timeout
// ---------------------------------------------------------------------------

#[derive(Clone)]
struct Cfg {
    modulation: Modulation,
    pattern: Option<Vec<bool>>,
    interleaving: Option<isize>,
    max_frame_errors: u64,
    ebn0s_db: Vec<f32>,
    bch_max_errors: u64,
    reporter: Option<Reporter>,
}

impl Cfg {
    fn new(
        modulation: Modulation,
        pattern: Option<&[bool]>,
        interleaving: Option<isize>,
        ebn0_db: f32,
    ) -> Cfg {
        Cfg {
            modulation,
            pattern: pattern.map(|p| p.to_vec()),
            interleaving,
            max_frame_errors: 5,
            ebn0s_db: vec![ebn0_db],
            bch_max_errors: 0,
            reporter: None,
        }
    }

    fn describe(&self) -> String {
        format!(
            "{} puncturing {:?} interleaving {:?} Eb/N0 {:?}",
            self.modulation, self.pattern, self.interleaving, self.ebn0s_db
        )
    }
}

struct Outcome {
    n: usize,
    n_cw: usize,
    k: usize,
    rate: f64,
    result: Result<Vec<Statistics>, String>,
}

fn launch(cfg: &Cfg, probe: &Arc<Probe>) -> Outcome {
    let (tx, rx) = mpsc::channel();
    let cfg2 = cfg.clone();
    let probe2 = Arc::clone(probe);
    std::thread::spawn(move || {
        let test = BerTestBuilder {
            h: probe2.code.h.clone(),
            decoder_implementation: ProbeFactory(Arc::clone(&probe2)),
            modulation: cfg2.modulation,
            puncturing_pattern: cfg2.pattern.as_deref(),
            interleaving_columns: cfg2.interleaving,
            max_frame_errors: cfg2.max_frame_errors,
            max_iterations: 10,
            ebn0s_db: &cfg2.ebn0s_db,
            reporter: cfg2.reporter.clone(),
            bch_max_errors: cfg2.bch_max_errors,
        }
        .build();
        let test = match test {
            Ok(t) => t,
            Err(e) => {
                let _ = tx.send(Outcome {
                    n: 0,
                    n_cw: 0,
                    k: 0,
                    rate: 0.0,
                    result: Err(format!("build failed: {e}")),
                });
                return;
            }
        };
        let (n, n_cw, k, rate) = (test.n(), test.n_cw(), test.k(), test.rate());
        // A panic inside run() drops tx, which the receiver notices.
        let result = test.run().map_err(|e| e.to_string());
        let _ = tx.send(Outcome {
            n,
            n_cw,
            k,
            rate,
            result,
        });
    });
    match rx.recv_timeout(RUN_TIMEOUT) {
        Ok(o) => o,
        Err(mpsc::RecvTimeoutError::Timeout) => {
            panic!("BER test did not finish in time: {}", cfg.describe())
        }
        Err(mpsc::RecvTimeoutError::Disconnected) => Outcome {
            n: 0,
            n_cw: 0,
            k: 0,
            rate: 0.0,
            result: Err("BER test panicked in the calling thread".to_string()),
        },
    }
}

fn expected_n(n_cw: usize, pattern: Option<&[bool]>) -> usize {
    match pattern {
        None => n_cw,
        Some(p) => {
            let trues = p.iter().filter(|&&b| b).count();
            (n_cw as f64 / (p.len() as f64 / trues as f64)).round() as usize
        }
    }
}

fn expected_sigma(code: &Code, cfg: &Cfg, ebn0_db: f32) -> f64 {
    let n = expected_n(code.n_cw, cfg.pattern.as_deref());
    let rate = code.k as f64 / n as f64;
    let bps = match cfg.modulation {
        Modulation::Bpsk => 1.0,
        Modulation::Psk8 => 3.0,
    };
    let ebn0 = 10f64.powf(f64::from(ebn0_db) / 10.0);
    (1.0 / (2.0 * rate * bps * ebn0)).sqrt()
}

fn ebn0_db_for_esn0(code: &Code, cfg_mod: Modulation, pattern: Option<&[bool]>, esn0: f64) -> f32 {
    let n = expected_n(code.n_cw, pattern);
    let rate = code.k as f64 / n as f64;
    let bps = match cfg_mod {
        Modulation::Bpsk => 1.0,
        Modulation::Psk8 => 3.0,
    };
    (10.0 * (esn0 / (rate * bps)).log10()) as f32
}

fn check_sizes(code: &Code, cfg: &Cfg, o: &Outcome) {
    let n = expected_n(code.n_cw, cfg.pattern.as_deref());
    assert_eq!(o.n_cw, code.n_cw, "{}", cfg.describe());
    assert_eq!(o.k, code.k, "{}", cfg.describe());
    assert_eq!(o.n, n, "{}", cfg.describe());
    let rate = code.k as f64 / n as f64;
    assert!(
        (o.rate - rate).abs() <= 1e-12 * rate.abs() || (o.rate == rate),
        "rate {} instead of {} for {}",
        o.rate,
        rate,
        cfg.describe()
    );
}

/// Runs one high SNR configuration and checks everything about the signs.
fn check_signs(code: &Code, cfg: &Cfg, clean_frames: usize, corrupt_bits: usize) -> Statistics {
    let probe = Probe::new(
        code,
        cfg.pattern.as_deref(),
        Mode::Signs,
        clean_frames,
        corrupt_bits,
    );
    let o = launch(cfg, &probe);
    check_sizes(code, cfg, &o);
    let stats = match &o.result {
        Ok(s) => s.clone(),
        Err(e) => panic!("BER test failed ({e}) for {}", cfg.describe()),
    };
    assert!(
        probe.violations().is_empty(),
        "{:?} for {}",
        probe.violations(),
        cfg.describe()
    );
    assert_eq!(stats.len(), 1);
    let s = &stats[0];
    assert_eq!(s.ebn0_db, cfg.ebn0s_db[0]);
    assert!(s.num_frames as usize <= probe.frames());
    if cfg.bch_max_errors == 0 {
        // Every damaged frame has exactly corrupt_bits bit errors and the
        // intact ones have none: the systematic part of the codeword seen in
        // the LLR signs is the message.
        assert_eq!(s.ldpc.frame_errors, cfg.max_frame_errors, "{}", cfg.describe());
        assert_eq!(
            s.ldpc.bit_errors,
            cfg.max_frame_errors * corrupt_bits as u64,
            "{}",
            cfg.describe()
        );
        assert!(s.num_frames >= cfg.max_frame_errors);
        assert!(s.bch.is_none());
    }
    assert_eq!(s.false_decodes, s.ldpc.frame_errors);
    assert_eq!(s.total_iterations, s.num_frames);
    s.clone()
}

// ---------------------------------------------------------------------------
// Tests: ordering, signs, zeros, sizes
// ---------------------------------------------------------------------------

fn patterns_144() -> Vec<Option<Vec<bool>>> {
    let t = true;
    let f = false;
    vec![
        None,
        Some(vec![t, t, t, f]),
        Some(vec![t, f, t, t]),
        Some(vec![f, t, t, t, t, t]),
        Some(vec![t, t, t, t, t, f, t, f]),
        Some(vec![t]),
        Some(vec![t, t, t]),
    ]
}

fn sweep_signs(modulation: Modulation, staircase: bool, interleavings: &[Option<isize>]) {
    let code = make_code(144, 72, staircase, 3, 0x1234_5678_9abc_def1);
    for pattern in patterns_144() {
        // the erased positions must be recoverable by the probe
        let punct = punctured_positions(144, pattern.as_deref());
        let unknown: Vec<usize> = (0..144).filter(|&i| punct[i]).collect();
        let mut zero = vec![0u8; 144];
        assert!(solve_erasures(&code.rows, &mut zero, &unknown));
        for &interleaving in interleavings {
            let cfg = Cfg::new(modulation, pattern.as_deref(), interleaving, 45.0);
            check_signs(&code, &cfg, 25, 1);
        }
    }
}

#[test]
fn signs_bpsk_staircase() {
    sweep_signs(
        Modulation::Bpsk,
        true,
        &[
            None,
            Some(1),
            Some(-1),
            Some(2),
            Some(3),
            Some(-3),
            Some(-4),
            Some(6),
            Some(12),
            Some(-12),
        ],
    );
}

#[test]
fn signs_bpsk_dense() {
    sweep_signs(Modulation::Bpsk, false, &[None, Some(3), Some(-3), Some(4)]);
}

#[test]
fn signs_psk8_staircase() {
    sweep_signs(
        Modulation::Psk8,
        true,
        &[
            None,
            Some(1),
            Some(-1),
            Some(2),
            Some(3),
            Some(-3),
            Some(-4),
            Some(6),
            Some(-12),
        ],
    );
}

#[test]
fn signs_psk8_dense() {
    sweep_signs(Modulation::Psk8, false, &[None, Some(3), Some(-3), Some(-6)]);
}

#[test]
fn signs_full_length_interleaver_and_tiny_codes() {
    // interleaver with as many columns as transmitted bits
    let code = make_code(144, 72, true, 3, 77);
    let t = true;
    let f = false;
    for (pattern, cols) in [
        (None, 144isize),
        (None, -144),
        (Some(vec![t, t, t, f]), 108),
        (Some(vec![t, t, t, f]), -108),
        (Some(vec![t, t, t, f]), 54),
    ] {
        for modulation in [Modulation::Bpsk, Modulation::Psk8] {
            let cfg = Cfg::new(modulation, pattern.as_deref(), Some(cols), 45.0);
            check_signs(&code, &cfg, 10, 1);
        }
    }
    // a very small code: k = 1, n = 3 (one 8PSK symbol per frame)
    let code = make_code(3, 1, true, 2, 5);
    for modulation in [Modulation::Bpsk, Modulation::Psk8] {
        for interleaving in [None, Some(3), Some(-3), Some(1)] {
            let cfg = Cfg::new(modulation, None, interleaving, 45.0);
            check_signs(&code, &cfg, 50, 1);
        }
    }
    // k = 2, n = 6, everything but the last parity bit is sent (BPSK only,
    // since 5 bits are not a whole number of 8PSK symbols)
    let code = make_code(6, 2, false, 2, 9);
    let pattern = vec![t, t, t, t, t, f];
    for interleaving in [None, Some(5), Some(-5), Some(1)] {
        let cfg = Cfg::new(Modulation::Bpsk, Some(&pattern), interleaving, 45.0);
        check_signs(&code, &cfg, 50, 2);
    }
}

#[test]
fn several_ebn0_with_reporter_and_bch() {
    let code = make_code(144, 72, true, 3, 31);
    let t = true;
    let f = false;
    let pattern = vec![t, t, t, f];
    for modulation in [Modulation::Bpsk, Modulation::Psk8] {
        // several Eb/N0 in one run, with a reporter
        let (tx, rx) = mpsc::channel();
        let ebn0s = vec![40.0f32, 45.0, 42.5, 50.0];
        let mut cfg = Cfg::new(modulation, Some(&pattern), Some(-3), 0.0);
        cfg.ebn0s_db = ebn0s.clone();
        cfg.max_frame_errors = 3;
        cfg.reporter = Some(Reporter {
            tx,
            interval: Duration::from_millis(1),
        });
        // all the frames are damaged: each Eb/N0 finishes after 3 frames
        let probe = Probe::new(&code, Some(&pattern), Mode::Signs, 0, 2);
        let o = launch(&cfg, &probe);
        cfg.reporter = None; // drop our copy of the sender
        check_sizes(&code, &cfg, &o);
        let stats = o.result.expect("BER test failed");
        assert!(probe.violations().is_empty(), "{:?}", probe.violations());
        assert_eq!(stats.len(), ebn0s.len());
        for (s, &e) in stats.iter().zip(ebn0s.iter()) {
            assert_eq!(s.ebn0_db, e);
            assert_eq!(s.num_frames, 3);
            assert_eq!(s.ldpc.frame_errors, 3);
            assert_eq!(s.ldpc.bit_errors, 6);
            assert_eq!(s.ldpc.ber, 6.0 / (3.0 * 72.0));
            assert_eq!(s.ldpc.fer, 1.0);
        }
        let mut reports = Vec::new();
        while let Ok(r) = rx.recv_timeout(Duration::from_secs(10)) {
            let finished = r == Report::Finished;
            reports.push(r);
            if finished {
                break;
            }
        }
        assert_eq!(reports.last(), Some(&Report::Finished));
        // the final report of each Eb/N0 is there, in order
        let mut next = 0;
        for r in &reports {
            if let Report::Statistics(s) = r {
                if next < ebn0s.len() && s.ebn0_db == ebn0s[next] && s.num_frames == 3 {
                    next += 1;
                }
            }
        }
        assert_eq!(next, ebn0s.len());

        // BCH outer code: frames with at most 2 bit errors are fine
        let mut cfg = Cfg::new(modulation, Some(&pattern), Some(3), 45.0);
        cfg.bch_max_errors = 2;
        cfg.max_frame_errors = 4;
        let s = check_signs(&code, &cfg, 20, 3);
        let bch = s.bch.expect("no BCH statistics");
        assert_eq!(bch.frame_errors, 4);
        assert_eq!(bch.bit_errors, 12);
        assert_eq!(s.ldpc.frame_errors, 4);
        assert_eq!(s.ldpc.bit_errors, 12);
        let mut cfg = Cfg::new(modulation, Some(&pattern), Some(3), 45.0);
        cfg.bch_max_errors = 2;
        cfg.max_frame_errors = 0;
        let probe = Probe::new(&code, Some(&pattern), Mode::Signs, 0, 2);
        let o = launch(&cfg, &probe);
        let stats = o.result.expect("BER test failed");
        assert_eq!(stats.len(), 1);
        assert_eq!(stats[0].num_frames, 0);
        assert!(probe.violations().is_empty(), "{:?}", probe.violations());
    }
}

#[test]
fn message_bits_are_uniform_and_independent() {
    // k = 72 takes more than one 64-bit word; k = 64 exactly one; k = 1 a
    // single bit
    for (n_cw, k, frames) in [(144usize, 72usize, 4000usize), (96, 64, 3000), (3, 1, 20000)] {
        let code = make_code(n_cw, k, true, 3.min(n_cw - k), 4242);
        let mut cfg = Cfg::new(Modulation::Bpsk, None, None, 45.0);
        cfg.max_frame_errors = 5;
        let probe = Probe::new(&code, None, Mode::Signs, frames, 1);
        let o = launch(&cfg, &probe);
        check_sizes(&code, &cfg, &o);
        let stats = o.result.expect("BER test failed");
        assert!(probe.violations().is_empty(), "{:?}", probe.violations());
        assert_eq!(stats[0].ldpc.bit_errors, 5);
        let a = probe.acc();
        let f = a.msg_frames;
        assert!(f >= frames as f64);
        for i in 0..k {
            let ones = a.pos_ones[i] / f;
            assert!(
                (ones - 0.5).abs() < 6.0 * 0.5 / f.sqrt(),
                "message bit {i} of {k} is one with frequency {ones}"
            );
            let repeats = a.pos_repeats[i] / a.msg_repeat_frames;
            assert!(
                (repeats - 0.5).abs() < 6.0 * 0.5 / a.msg_repeat_frames.sqrt(),
                "message bit {i} of {k} repeats with frequency {repeats}"
            );
        }
        let total_ones: f64 = a.pos_ones.iter().sum::<f64>() / (f * k as f64);
        assert!((total_ones - 0.5).abs() < 6.0 * 0.5 / (f * k as f64).sqrt());
        if a.adjacent_count > 0.0 {
            let eq = a.adjacent_equal / a.adjacent_count;
            assert!(
                (eq - 0.5).abs() < 6.0 * 0.5 / a.adjacent_count.sqrt(),
                "adjacent message bits are equal with frequency {eq}"
            );
        }
    }
}

// ---------------------------------------------------------------------------
// Tests: faults
// ---------------------------------------------------------------------------

#[test]
fn faults_never_reach_the_decoder() {
    let code = make_code(144, 72, true, 3, 99);
    let t = true;
    let f = false;
    let cases: Vec<(Modulation, Option<Vec<bool>>, Option<isize>)> = vec![
        // codeword length not divisible by the pattern length
        (Modulation::Bpsk, Some(vec![t, t, t, f, t]), None),
        (Modulation::Psk8, Some(vec![t, t, t, f, t, t, f]), Some(3)),
        // transmitted length not divisible by the interleaver columns
        (Modulation::Bpsk, None, Some(5)),
        (Modulation::Bpsk, Some(vec![t, t, t, f]), Some(-7)),
        (Modulation::Psk8, Some(vec![t, t, t, f]), Some(5)),
        // zero interleaver columns
        (Modulation::Bpsk, None, Some(0)),
        // everything punctured
        (Modulation::Bpsk, Some(vec![f, f]), None),
        (Modulation::Psk8, Some(vec![f]), None),
        // not a whole number of 8PSK symbols
        (
            Modulation::Psk8,
            Some(vec![t; 100].into_iter().chain([f; 44]).collect()),
            None,
        ),
    ];
    for (modulation, pattern, interleaving) in cases {
        let cfg = Cfg::new(modulation, None, interleaving, 45.0);
        let cfg = Cfg { pattern, ..cfg };
        let probe = Arc::new(Probe {
            panic_mode: PanicMode::Never,
            code: code.clone(),
            punctured: vec![false; 144],
            unknown: Vec::new(),
            mode: Mode::Signs,
            clean_frames: 0,
            corrupt_bits: 1,
            frames: AtomicUsize::new(0),
            built: AtomicUsize::new(0),
            violations: Mutex::new(Vec::new()),
            acc: Mutex::new(Acc::default()),
        });
        let o = launch(&cfg, &probe);
        assert!(
            o.result.is_err(),
            "BER test did not fail for {}",
            cfg.describe()
        );
        assert_eq!(
            probe.frames(),
            0,
            "a frame reached the decoder for {}",
            cfg.describe()
        );
    }
    // sizes reported for patterns that do not divide the codeword
    let cfg = Cfg::new(Modulation::Bpsk, Some(&[t, t, t, f, f]), None, 45.0);
    let probe = Probe::new(&code, None, Mode::Signs, 0, 1);
    let o = launch(&cfg, &probe);
    assert_eq!((o.n, o.n_cw, o.k), (86, 144, 72));
    assert_eq!(o.rate, 72.0 / 86.0);
    assert!(o.result.is_err());
    assert_eq!(probe.frames(), 0);
}

#[test]
fn reported_sizes() {
    let t = true;
    let f = false;
    let mut rng = TestRng(123_456_789);
    let mut patterns: Vec<Vec<bool>> = vec![
        vec![t],
        vec![f],
        vec![f, f, f],
        vec![t, f],
        vec![f, t],
        vec![t, t, t, f],
        vec![t, t, f, t, f],
        vec![t, t, t, f, t, t, f],
        vec![t; 144],
        vec![t; 145],
    ];
    for _ in 0..60 {
        let len = 1 + rng.below(20);
        patterns.push((0..len).map(|_| rng.below(3) != 0).collect());
    }
    for (n_cw, k) in [(144usize, 72usize), (48, 6), (3, 1), (7, 3), (60, 59), (12, 11)] {
        let code = make_code(n_cw, k, n_cw % 2 == 0, 2.min(n_cw - k), 11);
        for modulation in [Modulation::Bpsk, Modulation::Psk8] {
            for pattern in std::iter::once(None).chain(patterns.iter().map(Some)) {
                let probe = Probe {
                    panic_mode: PanicMode::Never,
                    code: code.clone(),
                    punctured: vec![false; n_cw],
                    unknown: Vec::new(),
                    mode: Mode::Signs,
                    clean_frames: 0,
                    corrupt_bits: 1,
                    frames: AtomicUsize::new(0),
                    built: AtomicUsize::new(0),
                    violations: Mutex::new(Vec::new()),
                    acc: Mutex::new(Acc::default()),
                };
                let test = BerTestBuilder {
                    h: code.h.clone(),
                    decoder_implementation: ProbeFactory(Arc::new(probe)),
                    modulation,
                    puncturing_pattern: pattern.map(|p| &p[..]),
                    interleaving_columns: Some(-3),
                    max_frame_errors: 1,
                    max_iterations: 1,
                    ebn0s_db: &[1.0, f32::INFINITY, f32::NEG_INFINITY, f32::NAN],
                    reporter: None,
                    bch_max_errors: 0,
                }
                .build()
                .expect("could not define the BER test");
                let n = expected_n(n_cw, pattern.map(|p| &p[..]));
                if let Some(p) = pattern {
                    if n_cw % p.len() == 0 {
                        assert_eq!(n, n_cw / p.len() * p.iter().filter(|&&b| b).count());
                    }
                }
                assert_eq!(test.n_cw(), n_cw);
                assert_eq!(test.k(), k);
                assert_eq!(test.n(), n, "{n_cw} {pattern:?}");
                let rate = k as f64 / n as f64;
                assert!(
                    test.rate() == rate || (rate.is_nan() && test.rate().is_nan()),
                    "{n_cw} {k} {pattern:?}"
                );
            }
        }
    }
}

#[test]
fn workers_that_die_and_exact_frame_counts() {
    let code = make_code(144, 72, true, 3, 2718);
    let t = true;
    let f = false;
    let pattern = vec![t, t, t, f];
    let manual = |panic_mode: PanicMode, clean_frames: usize| {
        Arc::new(Probe {
            panic_mode,
            code: code.clone(),
            punctured: punctured_positions(144, Some(&pattern)),
            unknown: (108..144).collect(),
            mode: Mode::Signs,
            clean_frames,
            corrupt_bits: 1,
            frames: AtomicUsize::new(0),
            built: AtomicUsize::new(0),
            violations: Mutex::new(Vec::new()),
            acc: Mutex::new(Acc::default()),
        })
    };
    for modulation in [Modulation::Bpsk, Modulation::Psk8] {
        // all the decoders panic: the test fails, nothing hangs
        let cfg = Cfg::new(modulation, Some(&pattern), Some(3), 45.0);
        let probe = manual(PanicMode::All, 10);
        let o = launch(&cfg, &probe);
        assert!(o.result.is_err());
        assert_eq!(probe.frames(), 0);

        // some of the decoders panic: the others carry on until the frame
        // errors are collected (and what they are given is right), then the
        // test fails
        let probe = manual(PanicMode::Even, 200);
        let o = launch(&cfg, &probe);
        assert!(o.result.is_err());
        assert!(probe.violations().is_empty(), "{:?}", probe.violations());
        if probe.built.load(Ordering::SeqCst) > 1 {
            assert!(probe.frames() >= 205);
        } else {
            assert_eq!(probe.frames(), 0);
        }

        // the receiver of the reports goes away: the calling thread panics and
        // the workers do not keep running forever
        let (tx, rx) = mpsc::channel();
        drop(rx);
        let mut cfg2 = cfg.clone();
        cfg2.reporter = Some(Reporter {
            tx,
            interval: Duration::from_millis(0),
        });
        let probe = manual(PanicMode::Never, usize::MAX);
        let o = launch(&cfg2, &probe);
        assert!(o.result.is_err());
        assert!(probe.violations().is_empty(), "{:?}", probe.violations());
        let mut previous = probe.frames();
        let mut stable = false;
        for _ in 0..100 {
            std::thread::sleep(Duration::from_millis(200));
            let now = probe.frames();
            if now == previous {
                stable = true;
                break;
            }
            previous = now;
        }
        assert!(stable, "the workers are still running");

        // the number of frames counted is exact: every frame is damaged
        for max_frame_errors in [1u64, 2, 7, 33] {
            let mut cfg = Cfg::new(modulation, Some(&pattern), Some(-3), 45.0);
            cfg.max_frame_errors = max_frame_errors;
            let probe = manual(PanicMode::Never, 0);
            let o = launch(&cfg, &probe);
            let stats = o.result.expect("BER test failed");
            assert!(probe.violations().is_empty(), "{:?}", probe.violations());
            assert_eq!(stats[0].num_frames, max_frame_errors);
            assert_eq!(stats[0].ldpc.frame_errors, max_frame_errors);
            assert_eq!(stats[0].ldpc.bit_errors, max_frame_errors);
            assert_eq!(stats[0].total_iterations, max_frame_errors);
            assert!(probe.frames() as u64 >= max_frame_errors);
        }
    }
    // many short runs one after the other
    let mut cfg = Cfg::new(Modulation::Bpsk, Some(&pattern), Some(4), 45.0);
    cfg.max_frame_errors = 1;
    cfg.ebn0s_db = vec![45.0; 40];
    let probe = manual(PanicMode::Never, 0);
    let o = launch(&cfg, &probe);
    let stats = o.result.expect("BER test failed");
    assert!(probe.violations().is_empty(), "{:?}", probe.violations());
    assert_eq!(stats.len(), 40);
    for s in &stats {
        assert_eq!(s.num_frames, 1);
        assert_eq!(s.ldpc.bit_errors, 1);
    }
}

// ---------------------------------------------------------------------------
// Tests: noise level, through the BER test
// ---------------------------------------------------------------------------

fn small_code() -> (Code, Vec<Vec<u8>>) {
    let code = make_code(48, 6, true, 17, 0xfeed_beef);
    let codewords = all_codewords(&code);
    assert_eq!(codewords.len(), 64);
    (code, codewords)
}

fn min_distance(codewords: &[Vec<u8>], punctured: &[bool]) -> usize {
    codewords
        .iter()
        .skip(1)
        .map(|c| {
            c.iter()
                .zip(punctured.iter())
                .filter(|&(&b, &p)| b == 1 && !p)
                .count()
        })
        .min()
        .unwrap()
}

#[test]
fn bpsk_noise_matches_ebn0() {
    let (code, codewords) = small_code();
    let t = true;
    let f = false;
    let cases: Vec<(Option<Vec<bool>>, Option<isize>, f64)> = vec![
        (None, None, 1.0),
        (Some(vec![t, t, t, f]), Some(3), 1.0),
        (Some(vec![t, t, f, t, t, f, t, f]), Some(-5), 1.5),
        (Some(vec![t, f]), Some(2), 2.0),
    ];
    for (pattern, interleaving, esn0) in cases {
        let punct = punctured_positions(code.n_cw, pattern.as_deref());
        let dmin = min_distance(&codewords, &punct);
        println!("pattern {pattern:?}: minimum distance {dmin}");
        // the probe tells the transmitted codeword apart reliably
        assert!(dmin as f64 * 2.0 * esn0 >= 24.0);
        let ebn0_db = ebn0_db_for_esn0(&code, Modulation::Bpsk, pattern.as_deref(), esn0);
        let mut cfg = Cfg::new(Modulation::Bpsk, pattern.as_deref(), interleaving, ebn0_db);
        cfg.max_frame_errors = 40;
        let sigma = expected_sigma(&code, &cfg, ebn0_db);
        assert!((sigma * sigma - 0.5 / esn0).abs() < 1e-5);
        let frames = 4000;
        let probe = Probe::new(
            &code,
            pattern.as_deref(),
            Mode::BpskNoise {
                sigma,
                codewords: codewords.clone(),
            },
            frames,
            1,
        );
        let o = launch(&cfg, &probe);
        check_sizes(&code, &cfg, &o);
        o.result.as_ref().expect("BER test failed");
        assert!(probe.violations().is_empty(), "{:?}", probe.violations());
        let a = probe.acc();
        let n = a.count;
        assert!(n >= (frames * expected_n(48, pattern.as_deref())) as f64);
        let mean = a.sum_e / n;
        let var = a.sum_e2 / n;
        let kurt = (a.sum_e4 / n) / (var * var);
        let lag = a.sum_lag / a.lag_count / var;
        let gain = a.sum_yx / n;
        let d = cfg.describe();
        let s2 = sigma * sigma;
        assert!(mean.abs() < 7.0 * sigma / n.sqrt(), "mean {mean} {d}");
        assert!(
            (var / s2 - 1.0).abs() < 7.0 * (2.0 / n).sqrt(),
            "variance {var} instead of {s2} {d}"
        );
        assert!((kurt - 3.0).abs() < 7.0 * (96.0 / n).sqrt(), "kurtosis {kurt} {d}");
        assert!(lag.abs() < 7.0 / a.lag_count.sqrt(), "lag correlation {lag} {d}");
        assert!((gain - 1.0).abs() < 7.0 * sigma / n.sqrt(), "gain {gain} {d}");
        let w1 = a.within_1 / n;
        let w2 = a.within_2 / n;
        assert!((w1 - 0.682_689_5).abs() < 7.0 * 0.47 / n.sqrt(), "within 1 sigma {w1} {d}");
        assert!((w2 - 0.954_499_7).abs() < 7.0 * 0.21 / n.sqrt(), "within 2 sigma {w2} {d}");
        // the statistics reported by the simulator are about the same frames
        let s = &o.result.as_ref().unwrap()[0];
        assert_eq!(s.ldpc.frame_errors, 40);
    }
}

/// Gray-coded DVB-S2 8PSK constellation, indexed by 4 b0 + 2 b1 + b2.
fn psk8_point(label: usize) -> (f64, f64) {
    let a = 0.5f64.sqrt();
    match label {
        0b000 => (a, a),
        0b100 => (0.0, 1.0),
        0b110 => (-a, a),
        0b010 => (-1.0, 0.0),
        0b011 => (-a, -a),
        0b111 => (0.0, -1.0),
        0b101 => (a, -a),
        0b001 => (1.0, 0.0),
        _ => unreachable!(),
    }
}

/// Reference LLR statistics for 8PSK in AWGN with the given sigma, computed
/// with the test's own noise and the library demodulator.
fn psk8_reference(sigma: f64, symbols: usize) -> (f64, f64) {
    let mut rng = TestRng(0x9e37_79b9_7f4a_7c15);
    let demod = Psk8Demodulator::new(sigma);
    let mut sum_llr_s = 0.0;
    let mut sum_llr2 = 0.0;
    let mut count = 0.0;
    let block = 1000;
    let mut done = 0;
    while done < symbols {
        let mut labels = Vec::with_capacity(block);
        let mut syms: Vec<Cplx> = Vec::with_capacity(block);
        for _ in 0..block {
            let label = rng.below(8);
            let (re, im) = psk8_point(label);
            let mut c = Cplx::default();
            c.re = re + sigma * rng.gauss();
            c.im = im + sigma * rng.gauss();
            labels.push(label);
            syms.push(c);
        }
        let llrs = demod.demodulate(&syms);
        assert_eq!(llrs.len(), 3 * block);
        for (j, &label) in labels.iter().enumerate() {
            for b in 0..3 {
                let bit = (label >> (2 - b)) & 1;
                let s = if bit == 1 { -1.0 } else { 1.0 };
                let l = llrs[3 * j + b];
                sum_llr_s += l * s;
                sum_llr2 += l * l;
                count += 1.0;
            }
        }
        done += block;
    }
    (sum_llr_s / count, sum_llr2 / count)
}

#[test]
fn psk8_llr_statistics_match_ebn0() {
    let (code, codewords) = small_code();
    let t = true;
    let f = false;
    let cases: Vec<(Option<Vec<bool>>, Option<isize>, f64)> = vec![
        (None, None, 5.0),
        (Some(vec![t, t, t, f]), Some(3), 6.0),
        (Some(vec![t, t, t, f]), Some(-3), 9.0),
        (Some(vec![t, f]), Some(2), 10.0),
    ];
    for (pattern, interleaving, esn0) in cases {
        let ebn0_db = ebn0_db_for_esn0(&code, Modulation::Psk8, pattern.as_deref(), esn0);
        let mut cfg = Cfg::new(Modulation::Psk8, pattern.as_deref(), interleaving, ebn0_db);
        cfg.max_frame_errors = 40;
        let sigma = expected_sigma(&code, &cfg, ebn0_db);
        assert!((sigma * sigma - 0.5 / esn0).abs() < 1e-5);
        let frames = 4000;
        let probe = Probe::new(
            &code,
            pattern.as_deref(),
            Mode::Psk8Stats {
                codewords: codewords.clone(),
            },
            frames,
            1,
        );
        let o = launch(&cfg, &probe);
        check_sizes(&code, &cfg, &o);
        o.result.as_ref().expect("BER test failed");
        assert!(probe.violations().is_empty(), "{:?}", probe.violations());
        let a = probe.acc();
        assert!(a.count >= (frames * expected_n(48, pattern.as_deref())) as f64);
        let mean = a.sum_llr_s / a.count;
        let power = a.sum_llr2 / a.count;
        let (ref_mean, ref_power) = psk8_reference(sigma, 150_000);
        let d = cfg.describe();
        assert!(
            (mean / ref_mean - 1.0).abs() < 0.04,
            "mean LLR {mean} instead of {ref_mean} {d}"
        );
        assert!(
            (power / ref_power - 1.0).abs() < 0.06,
            "LLR power {power} instead of {ref_power} {d}"
        );
    }
}

// ---------------------------------------------------------------------------
// Tests: the channel on its own (seeded, so fully deterministic)
// ---------------------------------------------------------------------------

struct Moments {
    n: f64,
    s1: f64,
    s2: f64,
    s4: f64,
    within_1: f64,
    within_2: f64,
    beyond_3: f64,
}

impl Moments {
    fn new() -> Moments {
        Moments {
            n: 0.0,
            s1: 0.0,
            s2: 0.0,
            s4: 0.0,
            within_1: 0.0,
            within_2: 0.0,
            beyond_3: 0.0,
        }
    }

    fn add(&mut self, e: f64, sigma: f64) {
        self.n += 1.0;
        self.s1 += e;
        self.s2 += e * e;
        self.s4 += e * e * e * e;
        if e.abs() < sigma {
            self.within_1 += 1.0;
        }
        if e.abs() < 2.0 * sigma {
            self.within_2 += 1.0;
        }
        if e.abs() > 3.0 * sigma {
            self.beyond_3 += 1.0;
        }
    }

    fn check(&self, sigma: f64, what: &str) {
        let n = self.n;
        let mean = self.s1 / n;
        let var = self.s2 / n;
        let kurt = (self.s4 / n) / (var * var);
        assert!(mean.abs() < 6.0 * sigma / n.sqrt(), "{what}: mean {mean}");
        assert!(
            (var / (sigma * sigma) - 1.0).abs() < 6.0 * (2.0 / n).sqrt(),
            "{what}: variance {var}"
        );
        assert!(
            (kurt - 3.0).abs() < 6.0 * (96.0 / n).sqrt(),
            "{what}: kurtosis {kurt}"
        );
        let w1 = self.within_1 / n;
        let w2 = self.within_2 / n;
        let b3 = self.beyond_3 / n;
        assert!((w1 - 0.682_689_5).abs() < 6.0 * 0.47 / n.sqrt(), "{what}: {w1}");
        assert!((w2 - 0.954_499_7).abs() < 6.0 * 0.21 / n.sqrt(), "{what}: {w2}");
        assert!((b3 - 0.002_699_8).abs() < 6.0 * 0.052 / n.sqrt(), "{what}: {b3}");
    }
}

fn check_corr(sum: f64, count: f64, sigma: f64, what: &str) {
    let corr = sum / count / (sigma * sigma);
    assert!(corr.abs() < 6.0 / count.sqrt(), "{what}: correlation {corr}");
}

#[test]
fn awgn_channel_real() {
    let mut rng = SeededRng::seed_from_u64(2024);
    for &sigma in &[0.05, 1.0, 3.5] {
        let channel = AwgnChannel::new(sigma);
        for &len in &[1usize, 2, 3, 7, 64, 1001] {
            let frames = 150_000 / len + 2;
            let mut m = Moments::new();
            let (mut lag_sum, mut lag_count) = (0.0, 0.0);
            let (mut lag2_sum, mut lag2_count) = (0.0, 0.0);
            let (mut edge_sum, mut edge_count) = (0.0, 0.0);
            let mut last_of_previous: Option<f64> = None;
            for _ in 0..frames {
                let original: Vec<f64> = (0..len)
                    .map(|i| if i % 3 == 0 { 1.0 } else { -1.0 })
                    .collect();
                let mut symbols = original.clone();
                channel.add_noise(&mut rng, &mut symbols);
                assert_eq!(symbols.len(), len);
                let e: Vec<f64> = symbols
                    .iter()
                    .zip(original.iter())
                    .map(|(a, b)| a - b)
                    .collect();
                for (i, &x) in e.iter().enumerate() {
                    m.add(x, sigma);
                    if i + 1 < len {
                        lag_sum += x * e[i + 1];
                        lag_count += 1.0;
                    }
                    if i + 2 < len {
                        lag2_sum += x * e[i + 2];
                        lag2_count += 1.0;
                    }
                }
                if let Some(p) = last_of_previous {
                    edge_sum += p * e[0];
                    edge_count += 1.0;
                }
                last_of_previous = Some(e[len - 1]);
            }
            // the subtraction above has rounding errors relative to sigma of
            // at most about 1e-14, far below the tolerances
            let what = format!("real sigma {sigma} len {len}");
            m.check(sigma, &what);
            if lag_count > 0.0 {
                check_corr(lag_sum, lag_count, sigma, &what);
            }
            if lag2_count > 0.0 {
                check_corr(lag2_sum, lag2_count, sigma, &what);
            }
            check_corr(edge_sum, edge_count, sigma, &what);
        }
    }
    // no noise at all
    let channel = AwgnChannel::new(0.0);
    for len in [0usize, 1, 2, 5, 128] {
        let original: Vec<f64> = (0..len).map(|i| i as f64 - 2.5).collect();
        let mut symbols = original.clone();
        channel.add_noise(&mut rng, &mut symbols);
        assert_eq!(symbols, original);
    }
    // empty frame
    let channel = AwgnChannel::new(1.0);
    let mut symbols: Vec<f64> = Vec::new();
    channel.add_noise(&mut rng, &mut symbols);
    assert!(symbols.is_empty());
}

#[test]
fn awgn_channel_complex() {
    let mut rng = SeededRng::seed_from_u64(4202);
    for &sigma in &[0.05, 1.0, 3.5] {
        let channel = AwgnChannel::new(sigma);
        for &len in &[1usize, 2, 3, 16, 333] {
            let frames = 100_000 / len + 2;
            let mut mre = Moments::new();
            let mut mim = Moments::new();
            let (mut cross_sum, mut cross_count) = (0.0, 0.0);
            let (mut cross_next_sum, mut cross_next_count) = (0.0, 0.0);
            let (mut cross_prev_sum, mut cross_prev_count) = (0.0, 0.0);
            let (mut lag_re_sum, mut lag_im_sum, mut lag_count) = (0.0, 0.0, 0.0);
            for _ in 0..frames {
                let original: Vec<Cplx> = (0..len)
                    .map(|i| {
                        let (re, im) = psk8_point(i % 8);
                        let mut c = Cplx::default();
                        c.re = re;
                        c.im = im;
                        c
                    })
                    .collect();
                let mut symbols = original.clone();
                channel.add_noise(&mut rng, &mut symbols);
                assert_eq!(symbols.len(), len);
                let e: Vec<(f64, f64)> = symbols
                    .iter()
                    .zip(original.iter())
                    .map(|(a, b)| (a.re - b.re, a.im - b.im))
                    .collect();
                for (i, &(re, im)) in e.iter().enumerate() {
                    mre.add(re, sigma);
                    mim.add(im, sigma);
                    cross_sum += re * im;
                    cross_count += 1.0;
                    if i + 1 < len {
                        cross_next_sum += re * e[i + 1].1;
                        cross_next_count += 1.0;
                        cross_prev_sum += im * e[i + 1].0;
                        cross_prev_count += 1.0;
                        lag_re_sum += re * e[i + 1].0;
                        lag_im_sum += im * e[i + 1].1;
                        lag_count += 1.0;
                    }
                }
            }
            let what = format!("complex sigma {sigma} len {len}");
            mre.check(sigma, &format!("{what} re"));
            mim.check(sigma, &format!("{what} im"));
            check_corr(cross_sum, cross_count, sigma, &what);
            if lag_count > 0.0 {
                check_corr(cross_next_sum, cross_next_count, sigma, &what);
                check_corr(cross_prev_sum, cross_prev_count, sigma, &what);
                check_corr(lag_re_sum, lag_count, sigma, &what);
                check_corr(lag_im_sum, lag_count, sigma, &what);
            }
        }
    }
    let channel = AwgnChannel::new(0.0);
    for len in [0usize, 1, 4, 9] {
        let original: Vec<Cplx> = (0..len)
            .map(|i| {
                let mut c = Cplx::default();
                c.re = i as f64;
                c.im = -(i as f64) + 0.5;
                c
            })
            .collect();
        let mut symbols = original.clone();
        channel.add_noise(&mut rng, &mut symbols);
        assert_eq!(symbols, original);
    }
}
