#!/bin/sh
# Demonstration for property C20 (ber subcommand, reporting path).
#
# usage: demo.sh <checkout>   (binary at <checkout>/target/debug/ldpc-toolbox)
#
# The ber subcommand must write result files that consist of the parameter
# preamble, the optional section title, the table header and exactly one result
# line per requested Eb/N0 (in order), whose numbers satisfy the statistics
# identities (BER = bit errors / (k * frames), FER = frame errors / frames,
# enough frame errors collected, ...). With a BCH decoder the LDPC-only file and
# the LDPC+BCH file must describe the same frames. The table left on the
# terminal after all the line rewriting must be the table of the result file.
# Failures give a non-zero exit status with a message, never a panic.

set -u

ROOT=${1:?usage: demo.sh <checkout>}
BIN=$ROOT/target/debug/ldpc-toolbox
[ -x "$BIN" ] || { echo "FAIL: no binary at $BIN" >&2; exit 1; }

W=$(mktemp -d "${TMPDIR:-/tmp}/c20ber.XXXXXX") || exit 1
trap 'rm -rf "$W"' EXIT
trap 'exit 1' INT TERM HUP

fail() {
    echo "FAIL: $*" >&2
    exit 1
}

if command -v timeout >/dev/null 2>&1; then
    limited() {
        _t=$1
        shift
        timeout -s KILL "$_t" "$@"
    }
else
    limited() {
        _t=$1
        shift
        "$@" &
        _pid=$!
        (sleep "$_t"; kill -9 "$_pid" 2>/dev/null) >/dev/null 2>&1 &
        _wd=$!
        wait "$_pid"
        _rc=$?
        kill "$_wd" 2>/dev/null
        return $_rc
    }
fi

ESC=$(printf '\033')
CR=$(printf '\r')

# ---------------------------------------------------------------------------
# check.awk: verifies a result file.
#
# variables: kind (plain, bch or ldpc), min, max, step, points (list of the
# expected Eb/N0 column separated by spaces), fe (frame errors), modulation,
# alist, punct, inter (empty when not given), k, ncw, n, decoder, maxiter,
# bchmax (0 without BCH)
cat > "$W/check.awk" <<'EOF'
function expect(text) {
    ln++;
    if (lines[ln] != text) {
        printf "line %d is \"%s\", expected \"%s\"\n", ln, lines[ln], text;
        bad = 1; exit 1
    }
}
function close_to(shown, exact,    tol) {
    if (exact == 0) return shown == 0;
    tol = exact * 0.006;
    return shown >= exact - tol && shown <= exact + tol;
}
function trim(x) { gsub(/^ +| +$/, "", x); return x }
{ lines[NR] = $0 }
END {
    total = NR; ln = 0;
    expect("BER TEST PARAMETERS");
    expect("-------------------");
    expect("Simulation:");
    expect(sprintf(" - Minimum Eb/N0: %.2f dB", min));
    expect(sprintf(" - Maximum Eb/N0: %.2f dB", max));
    expect(sprintf(" - Eb/N0 step: %.2f dB", step));
    expect(" - Number of frame errors: " fe);
    expect("Channel:");
    expect(" - Modulation: " modulation);
    expect("LDPC code:");
    expect(" - alist: " alist);
    if (punct != "") expect(" - Puncturing pattern: " punct);
    if (inter != "") expect(" - Interleaving columns: " inter);
    expect(" - Information bits (k): " k);
    expect(" - Codeword size (N_cw): " ncw);
    expect(" - Frame size (N): " n);
    expect(sprintf(" - Code rate: %.3f", k / n));
    expect("LDPC decoder:");
    expect(" - Implementation: " decoder);
    expect(" - Maximum iterations: " maxiter);
    if (bchmax > 0) {
        expect("BCH decoder:");
        expect(" - Maximum bit errors correctable: " bchmax);
    }
    expect("");
    if (kind == "bch") { expect(""); expect("LDPC+BCH results"); expect(""); }
    if (kind == "ldpc") { expect(""); expect("LDPC-only results"); expect(""); }
    expect("  Eb/N0 |   Frames | Bit errs | Frame er | False de |     BER |     FER | Avg iter | Avg corr | Throughp | Elapsed");
    expect("--------|----------|----------|----------|----------|---------|---------|----------|----------|----------|----------");
    np = split(points, pt, " ");
    if (total != ln + np) {
        printf "%d result lines, expected %d\n", total - ln, np; exit 1
    }
    for (i = 1; i <= np; i++) {
        row = lines[ln + i];
        nf = split(row, f, "|");
        if (nf != 11) { printf "row \"%s\" has %d fields\n", row, nf; exit 1 }
        # widths
        if (length(f[1]) != 8 || length(f[2]) < 10 || length(f[6]) != 9 || length(f[7]) != 9) {
            printf "row \"%s\" is badly formatted\n", row; exit 1
        }
        for (j = 1; j <= 11; j++) f[j] = trim(f[j]);
        if (f[1] != pt[i]) { printf "row %d is for Eb/N0 %s, expected %s\n", i, f[1], pt[i]; exit 1 }
        frames = f[2] + 0; biterr = f[3] + 0; frameerr = f[4] + 0; falsedec = f[5] + 0;
        ber = f[6] + 0; fer = f[7] + 0;
        if (f[2] !~ /^[0-9]+$/ || f[3] !~ /^[0-9]+$/ || f[4] !~ /^[0-9]+$/ || f[5] !~ /^[0-9]+$/) {
            printf "row \"%s\": counters are not integers\n", row; exit 1
        }
        if (frameerr < fe) { printf "row \"%s\": only %d frame errors\n", row, frameerr; exit 1 }
        # the test stops at the requested number of frame errors (of the
        # LDPC+BCH combination when there is a BCH decoder)
        if (kind != "ldpc" && frameerr != fe) { printf "row \"%s\": too many frame errors\n", row; exit 1 }
        if (frames < frameerr) { printf "row \"%s\": more frame errors than frames\n", row; exit 1 }
        if (biterr < frameerr) { printf "row \"%s\": fewer bit errors than frame errors\n", row; exit 1 }
        if (biterr > frameerr * k) { printf "row \"%s\": too many bit errors\n", row; exit 1 }
        if (kind == "bch" && biterr < frameerr * (bchmax + 1)) {
            printf "row \"%s\": BCH frame errors with correctable error counts\n", row; exit 1
        }
        if (falsedec > frames) { printf "row \"%s\": false decodes\n", row; exit 1 }
        if (!close_to(ber, biterr / (k * frames))) { printf "row \"%s\": BER identity fails\n", row; exit 1 }
        if (!close_to(fer, frameerr / frames)) { printf "row \"%s\": FER identity fails\n", row; exit 1 }
        if (f[6] !~ /^[0-9]\.[0-9][0-9]e-?[0-9]+$/ || f[7] !~ /^[0-9]\.[0-9][0-9]e-?[0-9]+$/) {
            printf "row \"%s\": rate format\n", row; exit 1
        }
        if (f[8] !~ /^[0-9]+\.[0-9]$/ || f[8] + 0 > maxiter || f[8] + 0 <= 0) {
            printf "row \"%s\": average iterations\n", row; exit 1
        }
        if (frames == frameerr) {
            if (f[9] != "NaN") { printf "row \"%s\": average over no frames\n", row; exit 1 }
        } else if (f[9] !~ /^[0-9]+\.[0-9]$/ || f[9] + 0 > maxiter) {
            printf "row \"%s\": average iterations of correct frames\n", row; exit 1
        }
        if (f[10] !~ /^([0-9]+\.[0-9][0-9][0-9]|inf)$/) { printf "row \"%s\": throughput\n", row; exit 1 }
        if (f[11] !~ /^[0-9]+[a-z]+( [0-9]+[a-z]+)*$/) { printf "row \"%s\": elapsed time\n", row; exit 1 }
    }
    printf "%d result lines verified\n", np;
}
EOF

# pair.awk: the LDPC-only rows and the LDPC+BCH rows describe the same frames
cat > "$W/pair.awk" <<'EOF'
FNR == 1 { fileno++ }
/^ *-?[0-9]+\.[0-9][0-9] \|/ {
    split($0, f, "|");
    if (fileno == 1) { nb++; for (j = 1; j <= 11; j++) b[nb, j] = f[j]; }
    else { nl++; for (j = 1; j <= 11; j++) l[nl, j] = f[j]; }
}
END {
    if (nb != nl || nb == 0) { print "different number of rows"; exit 1 }
    for (i = 1; i <= nb; i++) {
        # same Eb/N0, frames, false decodes, average iterations, throughput, elapsed
        if (b[i, 1] != l[i, 1] || b[i, 2] != l[i, 2] || b[i, 5] != l[i, 5] || b[i, 8] != l[i, 8] \
            || b[i, 10] != l[i, 10] || b[i, 11] != l[i, 11]) {
            printf "row %d differs between the LDPC+BCH and LDPC-only files\n", i; exit 1
        }
        if (b[i, 3] + 0 > l[i, 3] + 0 || b[i, 4] + 0 > l[i, 4] + 0) {
            printf "row %d: BCH makes things worse\n", i; exit 1
        }
    }
    printf "%d row pairs verified\n", nb;
}
EOF

# screen.awk: replays the terminal output (line rewriting) and prints the
# table rows that are left on the screen
cat > "$W/screen.awk" <<'EOF'
{
    line = $0;
    while (index(line, "@UP@") == 1) {
        if (count < 1) { print "cursor moved above the first line"; exit 1 }
        count--;
        line = substr(line, 5);
    }
    if (index(line, "@UP@") > 0) { print "cursor movement in the middle of a line"; exit 1 }
    screen[++count] = line;
}
END {
    for (i = 1; i <= count; i++) if (screen[i] ~ /^ *-?[0-9]+\.[0-9][0-9] \|/) print screen[i];
}
EOF

rows_of() {
    grep -E '^ *-?[0-9]+\.[0-9][0-9] \|' "$1"
}

# run_ber NAME args...: runs ber with stdout to $W/NAME.out, must succeed
run_ber() {
    _n=$1
    shift
    limited 300 "$BIN" ber "$@" > "$W/$_n.out" 2> "$W/$_n.err"
    _rc=$?
    [ $_rc -eq 0 ] || { cat "$W/$_n.err" >&2; fail "ber $* exited with $_rc"; }
    if [ -s "$W/$_n.err" ]; then cat "$W/$_n.err" >&2; fail "ber $* wrote to stderr"; fi
    return 0
}

# check_screen NAME FILE: the terminal shows the preamble and the table of FILE
check_screen() {
    sed -e "s/$ESC\[1A$CR$ESC\[2K/@UP@/g" -e "s/$ESC\[?25[lh]//g" "$W/$1.out" > "$W/$1.scr"
    if grep -q "$ESC" "$W/$1.scr"; then fail "$1: unexpected escape sequence on the terminal"; fi
    awk -f "$W/screen.awk" "$W/$1.scr" > "$W/$1.tab" || { cat "$W/$1.tab" >&2; fail "$1: terminal replay"; }
    rows_of "$2" > "$W/$1.rows"
    cmp -s "$W/$1.tab" "$W/$1.rows" || fail "$1: the table on the terminal is not the table of the result file"
    head -n 3 "$W/$1.scr" > "$W/$1.h1"
    head -n 3 "$2" > "$W/$1.h2"
    cmp -s "$W/$1.h1" "$W/$1.h2" || fail "$1: preamble on the terminal"
}

must_error() {
    _d=$1
    shift
    limited 300 "$@" > "$W/stdout" 2> "$W/stderr"
    _rc=$?
    [ $_rc -ne 0 ] || fail "$_d: exit status 0"
    [ $_rc -lt 100 ] || fail "$_d: exit status $_rc (panic, signal or timeout)"
    [ -s "$W/stderr" ] || fail "$_d: no message"
    grep -q panicked "$W/stderr" && fail "$_d: panic"
    return 0
}

# ---------------------------------------------------------------------------
# Codes

"$BIN" peg 150 600 3 5 > "$W/peg600.alist" || fail "peg"
"$BIN" systematic "$W/peg600.alist" > "$W/mid.alist" || fail "systematic"   # n = 600, k = 450
"$BIN" peg 4 8 3 0 > "$W/peg8.alist" || fail "peg"
"$BIN" systematic "$W/peg8.alist" > "$W/small.alist" || fail "systematic"   # n = 8, k = 4
A=$W/mid.alist

# ---------------------------------------------------------------------------
# 1. plain run, several Eb/N0, the last ones long enough for progress updates

run_ber t1 "$A" --min-ebn0 1.5 --max-ebn0 3.6 --step-ebn0 0.5 --frame-errors 25 --max-iter 20 \
    --output-file "$W/t1.txt"
awk -v kind=plain -v min=1.5 -v max=3.6 -v step=0.5 -v points="1.50 2.00 2.50 3.00 3.50" -v fe=25 \
    -v modulation=BPSK -v alist="$A" -v punct= -v inter= -v k=450 -v ncw=600 -v n=600 \
    -v decoder=Phif64 -v maxiter=20 -v bchmax=0 -f "$W/check.awk" "$W/t1.txt" > "$W/verdict" \
    || { cat "$W/verdict" >&2; fail "t1 result file"; }
check_screen t1 "$W/t1.txt"
grep -q "@UP@" "$W/t1.scr" || echo "note: no progress update was shown in t1" >&2

# 2. a single Eb/N0 (negative, maximum below minimum plus step), no result file
run_ber t2 "$A" --min-ebn0=-1.25 --max-ebn0=-1.0 --step-ebn0 0.5 --frame-errors 10 --max-iter 5
sed -e "s/$ESC\[1A$CR$ESC\[2K/@UP@/g" -e "s/$ESC\[?25[lh]//g" "$W/t2.out" > "$W/t2.scr"
awk -f "$W/screen.awk" "$W/t2.scr" > "$W/t2.tab" || fail "t2: terminal replay"
[ "$(wc -l < "$W/t2.tab")" -eq 1 ] || fail "t2: expected one result line on the terminal"
grep -q '^  -1.25 |' "$W/t2.tab" || fail "t2: wrong Eb/N0"

# 3. the same with a result file; --output-file-ldpc is ignored without BCH
run_ber t3 "$A" --min-ebn0=-1.25 --max-ebn0=-1.0 --step-ebn0 0.5 --frame-errors 10 --max-iter 5 \
    --output-file "$W/t3.txt" --output-file-ldpc "$W/t3l.txt"
awk -v kind=plain -v min=-1.25 -v max=-1.0 -v step=0.5 -v points="-1.25" -v fe=10 \
    -v modulation=BPSK -v alist="$A" -v punct= -v inter= -v k=450 -v ncw=600 -v n=600 \
    -v decoder=Phif64 -v maxiter=5 -v bchmax=0 -f "$W/check.awk" "$W/t3.txt" > "$W/verdict" \
    || { cat "$W/verdict" >&2; fail "t3 result file"; }
check_screen t3 "$W/t3.txt"
[ -e "$W/t3l.txt" ] && fail "t3: LDPC-only file created without BCH"

# 4. BCH with both files, puncturing, interleaving, 8PSK, another decoder
run_ber t4 "$A" --min-ebn0 0 --max-ebn0 3.0 --step-ebn0 0.75 --frame-errors 12 --max-iter 15 \
    --bch-max-errors 3 --puncturing 1,1,1,1,1,0,1,1,1,1 --interleaving=-3 --modulation PSK8 --decoder Minstarapproxf32 \
    --output-file "$W/t4.txt" --output-file-ldpc "$W/t4l.txt"
for kind in bch ldpc; do
    if [ $kind = bch ]; then f=$W/t4.txt; else f=$W/t4l.txt; fi
    awk -v kind=$kind -v min=0 -v max=3.0 -v step=0.75 -v points="0.00 0.75 1.50 2.25 3.00" -v fe=12 \
        -v modulation=8PSK -v alist="$A" -v punct=1,1,1,1,1,0,1,1,1,1 -v inter=-3 -v k=450 -v ncw=600 -v n=540 \
        -v decoder=Minstarapproxf32 -v maxiter=15 -v bchmax=3 -f "$W/check.awk" "$f" > "$W/verdict" \
        || { cat "$W/verdict" >&2; fail "t4 $kind result file"; }
done
awk -f "$W/pair.awk" "$W/t4.txt" "$W/t4l.txt" > "$W/verdict" || { cat "$W/verdict" >&2; fail "t4 pair"; }
check_screen t4 "$W/t4.txt"

# 5. BCH with only the LDPC-only file, and with only the main file
run_ber t5 "$A" --min-ebn0 0.5 --max-ebn0 1.0 --step-ebn0 0.25 --frame-errors 8 --max-iter 10 \
    --bch-max-errors 2 --output-file-ldpc "$W/t5l.txt"
awk -v kind=ldpc -v min=0.5 -v max=1.0 -v step=0.25 -v points="0.50 0.75 1.00" -v fe=8 \
    -v modulation=BPSK -v alist="$A" -v punct= -v inter= -v k=450 -v ncw=600 -v n=600 \
    -v decoder=Phif64 -v maxiter=10 -v bchmax=2 -f "$W/check.awk" "$W/t5l.txt" > "$W/verdict" \
    || { cat "$W/verdict" >&2; fail "t5 result file"; }
run_ber t6 "$A" --min-ebn0 0.5 --max-ebn0 1.0 --step-ebn0 0.25 --frame-errors 8 --max-iter 10 \
    --bch-max-errors 2 --output-file "$W/t6.txt"
awk -v kind=bch -v min=0.5 -v max=1.0 -v step=0.25 -v points="0.50 0.75 1.00" -v fe=8 \
    -v modulation=BPSK -v alist="$A" -v punct= -v inter= -v k=450 -v ncw=600 -v n=600 \
    -v decoder=Phif64 -v maxiter=10 -v bchmax=2 -f "$W/check.awk" "$W/t6.txt" > "$W/verdict" \
    || { cat "$W/verdict" >&2; fail "t6 result file"; }
check_screen t6 "$W/t6.txt"

# 6. many Eb/N0 on a tiny code (each one takes almost no time, so that the
# reports arrive in quick succession); existing result files are replaced
i=0
while [ $i -lt 400 ]; do echo "old contents old contents old contents old contents"; i=$((i + 1)); done > "$W/t7.txt"
pts=""
i=0
while [ $i -le 40 ]; do
    pts="$pts $(awk -v i=$i 'BEGIN { printf "%.2f", -5 + i * 0.25 }')"
    i=$((i + 1))
done
pts=${pts# }
run_ber t7 "$W/small.alist" --min-ebn0=-5 --max-ebn0 5 --step-ebn0 0.25 --frame-errors 3 --max-iter 4 \
    --output-file "$W/t7.txt"
awk -v kind=plain -v min=-5 -v max=5 -v step=0.25 -v points="$pts" -v fe=3 \
    -v modulation=BPSK -v alist="$W/small.alist" -v punct= -v inter= -v k=4 -v ncw=8 -v n=8 \
    -v decoder=Phif64 -v maxiter=4 -v bchmax=0 -f "$W/check.awk" "$W/t7.txt" > "$W/verdict" \
    || { cat "$W/verdict" >&2; fail "t7 result file"; }
grep -q '^41 result lines' "$W/verdict" || fail "t7: expected 41 result lines"
check_screen t7 "$W/t7.txt"

# 7. the two result files may be the same kind of run repeated: results differ
# in the random numbers only, never in the layout
run_ber t8 "$W/small.alist" --min-ebn0 1 --max-ebn0 2 --step-ebn0 1 --frame-errors 5 --max-iter 4 \
    --bch-max-errors 1 --output-file "$W/t8.txt" --output-file-ldpc "$W/t8l.txt"
awk -f "$W/pair.awk" "$W/t8.txt" "$W/t8l.txt" > "$W/verdict" || { cat "$W/verdict" >&2; fail "t8 pair"; }
[ "$(wc -l < "$W/t8.txt")" -eq "$(wc -l < "$W/t8l.txt")" ] || fail "t8: layouts differ"

# ---------------------------------------------------------------------------
# Failures

"$BIN" peg 4 4 2 0 > "$W/singular.alist" || fail "peg"
must_error "missing alist" "$BIN" ber "$W/none.alist" --min-ebn0 0 --max-ebn0 0 --step-ebn0 1
must_error "garbage alist" "$BIN" ber "$0" --min-ebn0 0 --max-ebn0 0 --step-ebn0 1
must_error "singular matrix" "$BIN" ber "$W/singular.alist" --min-ebn0 0 --max-ebn0 0 --step-ebn0 1 \
    --output-file "$W/e1.txt"
for p in "" "2" "1,,0" "1,0," "x"; do
    must_error "puncturing pattern '$p'" "$BIN" ber "$A" --min-ebn0 0 --max-ebn0 0 --step-ebn0 1 "--puncturing=$p"
done
must_error "result file in a missing directory" "$BIN" ber "$A" --min-ebn0 0 --max-ebn0 0 --step-ebn0 1 \
    --output-file "$W/nodir/r.txt"
must_error "LDPC-only result file in a missing directory" "$BIN" ber "$A" --min-ebn0 0 --max-ebn0 0 \
    --step-ebn0 1 --bch-max-errors 1 --output-file "$W/e2.txt" --output-file-ldpc "$W/nodir/r.txt"
must_error "result file is a directory" "$BIN" ber "$A" --min-ebn0 0 --max-ebn0 0 --step-ebn0 1 \
    --output-file "$W"
must_error "unknown decoder" "$BIN" ber "$A" --min-ebn0 0 --max-ebn0 0 --step-ebn0 1 --decoder Nothing
must_error "unknown modulation" "$BIN" ber "$A" --min-ebn0 0 --max-ebn0 0 --step-ebn0 1 --modulation QPSK
must_error "missing Eb/N0 range" "$BIN" ber "$A"
if [ -c /dev/full ] && [ -w /dev/full ]; then
    must_error "result file on a full device" "$BIN" ber "$A" --min-ebn0=-2 --max-ebn0=-2 --step-ebn0 1 \
        --frame-errors 2 --max-iter 2 --output-file /dev/full
    must_error "LDPC-only result file on a full device" "$BIN" ber "$A" --min-ebn0=-2 --max-ebn0=-2 \
        --step-ebn0 1 --frame-errors 2 --max-iter 2 --bch-max-errors 1 --output-file "$W/e3.txt" \
        --output-file-ldpc /dev/full
fi

echo "C20 ber demonstration: all checks passed"
exit 0
