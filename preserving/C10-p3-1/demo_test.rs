// Demonstration for property C10: "A decoder object carries no state from one
// frame to the next".
//
// For every one of the 36 decoder implementations, for several parity check
// matrices (regular, irregular, with unprotected bits, with no checks at all,
// empty, and degenerate ones on which some arithmetics panic) and for several
// deterministic pseudo-random call histories (mixing noiseless frames,
// decodable frames, undecodable frames, huge and tiny magnitudes, exact
// repeats of earlier frames and every kind of iteration limit including 0),
// each call on the one reused decoder object must return exactly what a
// freshly built decoder returns for the same arguments.
//
// Only the public API of the crate and std are used. The whole run is done in
// a helper thread and guarded by a timeout.

use ldpc_toolbox::decoder::arithmetic::{
    Aminstarf32, Aminstari8, Aminstari8JonesPartialHardLimitDeg1Clip, Minstarapproxf64,
    Minstarapproxi8, Minstarapproxi8Jones, Phif32, Phif64, Tanhf64,
};
use ldpc_toolbox::decoder::factory::{DecoderFactory, DecoderImplementation};
use ldpc_toolbox::decoder::{DecoderOutput, LdpcDecoder, flooding, horizontal_layered};
use ldpc_toolbox::sparse::SparseMatrix;
use std::panic::{AssertUnwindSafe, catch_unwind};
use std::sync::mpsc;
use std::time::Duration;

const IMPLEMENTATIONS: [&str; 36] = [
    "Phif64",
    "Phif32",
    "Tanhf64",
    "Tanhf32",
    "Minstarapproxf64",
    "Minstarapproxf32",
    "Minstarapproxi8",
    "Minstarapproxi8Jones",
    "Minstarapproxi8PartialHardLimit",
    "Minstarapproxi8JonesPartialHardLimit",
    "Minstarapproxi8Deg1Clip",
    "Minstarapproxi8JonesDeg1Clip",
    "Minstarapproxi8PartialHardLimitDeg1Clip",
    "Minstarapproxi8JonesPartialHardLimitDeg1Clip",
    "Aminstarf64",
    "Aminstarf32",
    "Aminstari8",
    "Aminstari8Jones",
    "Aminstari8PartialHardLimit",
    "Aminstari8JonesPartialHardLimit",
    "Aminstari8Deg1Clip",
    "Aminstari8JonesDeg1Clip",
    "Aminstari8PartialHardLimitDeg1Clip",
    "Aminstari8JonesPartialHardLimitDeg1Clip",
    "HLPhif64",
    "HLPhif32",
    "HLTanhf64",
    "HLTanhf32",
    "HLMinstarapproxf64",
    "HLMinstarapproxf32",
    "HLMinstarapproxi8",
    "HLMinstarapproxi8PartialHardLimit",
    "HLAminstarf64",
    "HLAminstarf32",
    "HLAminstari8",
    "HLAminstari8PartialHardLimit",
];

const LIMITS: [usize; 10] = [0, 1, 2, 3, 0, 5, 10, 1, 50, 200];

// ---------------------------------------------------------------------------
// Deterministic pseudo-random numbers (splitmix64)
// ---------------------------------------------------------------------------

struct Rng(u64);

impl Rng {
    fn next(&mut self) -> u64 {
        self.0 = self.0.wrapping_add(0x9E37_79B9_7F4A_7C15);
        let mut z = self.0;
        z = (z ^ (z >> 30)).wrapping_mul(0xBF58_476D_1CE4_E5B9);
        z = (z ^ (z >> 27)).wrapping_mul(0x94D0_49BB_1331_11EB);
        z ^ (z >> 31)
    }

    fn below(&mut self, n: usize) -> usize {
        (self.next() % (n as u64)) as usize
    }

    // uniform in [0, 1)
    fn unit(&mut self) -> f64 {
        (self.next() >> 11) as f64 / (1u64 << 53) as f64
    }
}

// ---------------------------------------------------------------------------
// Parity check matrices
// ---------------------------------------------------------------------------

// Example 2.5 in Sarah J. Johnson - Iterative Error Correction
fn johnson() -> SparseMatrix {
    let mut h = SparseMatrix::new(4, 6);
    h.insert_row(0, [0, 1, 3].iter());
    h.insert_row(1, [1, 2, 4].iter());
    h.insert_row(2, [0, 4, 5].iter());
    h.insert_row(3, [2, 3, 5].iter());
    h
}

// (3, 6)-regular quasi-cyclic code, n = 24
fn regular() -> SparseMatrix {
    let m = 12;
    let mut h = SparseMatrix::new(m, 2 * m);
    let shifts = [[0, 1, 3], [0, 2, 7]];
    for r in 0..m {
        for (b, s) in shifts.iter().enumerate() {
            for &k in s.iter() {
                h.insert(r, b * m + (r + k) % m);
            }
        }
    }
    h
}

// Irregular: row weights from 2 to 7, column weights from 0 (two unprotected
// bits) to 5; columns inserted in a scrambled order so that the adjacency
// lists are not sorted.
fn irregular() -> SparseMatrix {
    let mut h = SparseMatrix::new(7, 16);
    let rows: [&[usize]; 7] = [
        &[13, 0],
        &[5, 1, 0],
        &[2, 9, 0, 7],
        &[11, 3, 0, 5, 1],
        &[4, 0, 12, 2, 9, 7],
        &[10, 6, 5, 3, 1, 2, 13],
        &[6, 4],
    ];
    for (r, cols) in rows.iter().enumerate() {
        h.insert_row(r, cols.iter());
    }
    // columns 8, 14 and 15 are left empty
    h
}

// A matrix with a check node of degree 1 and a check node of degree 0. The
// min* family of arithmetics panics on these ("only one variable message
// connected to check node", "var_messages is empty"); the phi and tanh rules
// do not. Either way a reused decoder must do what a fresh one does.
fn degenerate() -> SparseMatrix {
    let mut h = SparseMatrix::new(5, 7);
    h.insert_row(0, [0, 1, 2].iter());
    h.insert_row(1, [2, 3, 4].iter());
    h.insert_row(2, [5].iter());
    // row 3 is empty
    h.insert_row(4, [4, 6, 0].iter());
    h
}

fn matrices() -> Vec<(&'static str, SparseMatrix)> {
    vec![
        ("johnson", johnson()),
        ("regular", regular()),
        ("irregular", irregular()),
        ("degenerate", degenerate()),
        ("no_checks", SparseMatrix::new(0, 5)),
        ("no_bits", SparseMatrix::new(3, 0)),
        ("empty", SparseMatrix::new(0, 0)),
    ]
}

// ---------------------------------------------------------------------------
// Frames
// ---------------------------------------------------------------------------

fn magnitude(rng: &mut Rng) -> f64 {
    match rng.below(8) {
        0 => 1e30,
        1 => 1e-3 * rng.unit(),
        2 => 0.05 + 0.1 * rng.unit(),
        3 => 15.0 + 10.0 * rng.unit(),
        4 => 1e6 * rng.unit(),
        _ => 0.3 + 4.0 * rng.unit(),
    }
}

fn frame(rng: &mut Rng, n: usize, kind: usize) -> Vec<f64> {
    let mut llrs: Vec<f64> = match kind {
        // all-zeros codeword without noise: success with zero iterations
        0 => (0..n).map(|_| magnitude(rng) + 1e-2).collect(),
        // all-zeros codeword, moderate magnitudes
        1 | 2 => (0..n).map(|_| 1.0 + 3.0 * rng.unit()).collect(),
        // random signs, assorted magnitudes (1e30 included): mostly failures
        3 => (0..n)
            .map(|_| {
                let m = magnitude(rng);
                if rng.below(2) == 0 { m } else { -m }
            })
            .collect(),
        // huge magnitudes only
        4 => (0..n)
            .map(|_| if rng.below(3) == 0 { -1e30 } else { 1e30 })
            .collect(),
        // erasures and nearly-erasures (these quantize to 0 for the 8-bit
        // arithmetics, so the hard decision of the quantized LLR differs
        // from the hard decision on the input)
        5 => (0..n)
            .map(|_| match rng.below(5) {
                0 => 0.0,
                1 => -0.0,
                2 => 0.01,
                3 => -0.01,
                _ => 0.06,
            })
            .collect(),
        // strong wrong bits among weak right ones
        _ => (0..n)
            .map(|_| {
                if rng.below(6) == 0 {
                    -1e30
                } else {
                    0.2 + rng.unit()
                }
            })
            .collect(),
    };
    match kind {
        1 if n > 0 => {
            // one wrong bit
            let j = rng.below(n);
            llrs[j] = -llrs[j];
        }
        2 if n > 0 => {
            // a few wrong bits
            for _ in 0..1 + n / 6 {
                let j = rng.below(n);
                llrs[j] = -(0.2 + rng.unit());
            }
        }
        _ => (),
    }
    llrs
}

// ---------------------------------------------------------------------------
// Outcomes
// ---------------------------------------------------------------------------

#[derive(Debug, Clone, PartialEq, Eq)]
enum Outcome {
    Success(DecoderOutput),
    Failure(DecoderOutput),
    Panicked,
}

fn call<D: LdpcDecoder + ?Sized>(decoder: &mut D, llrs: &[f64], limit: usize) -> Outcome {
    match catch_unwind(AssertUnwindSafe(|| decoder.decode(llrs, limit))) {
        Ok(Ok(out)) => Outcome::Success(out),
        Ok(Err(out)) => Outcome::Failure(out),
        Err(_) => Outcome::Panicked,
    }
}

fn sanity(outcome: &Outcome, n: usize, limit: usize, context: &str) {
    match outcome {
        Outcome::Success(out) => {
            assert_eq!(out.codeword.len(), n, "{context}");
            assert!(out.iterations <= limit, "{context}");
            assert!(out.codeword.iter().all(|&b| b <= 1), "{context}");
        }
        Outcome::Failure(out) => {
            assert_eq!(out.codeword.len(), n, "{context}");
            assert_eq!(out.iterations, limit, "{context}");
            assert!(out.codeword.iter().all(|&b| b <= 1), "{context}");
        }
        Outcome::Panicked => (),
    }
}

#[derive(Default)]
struct Stats {
    calls: u64,
    successes_without_iterations: u64,
    successes_with_iterations: u64,
    failures: u64,
    failures_at_zero: u64,
    panics: u64,
    digest: u64,
}

impl Stats {
    fn record(&mut self, outcome: &Outcome) {
        self.calls += 1;
        let (tag, out) = match outcome {
            Outcome::Success(out) if out.iterations == 0 => {
                self.successes_without_iterations += 1;
                (1u64, Some(out))
            }
            Outcome::Success(out) => {
                self.successes_with_iterations += 1;
                (2, Some(out))
            }
            Outcome::Failure(out) => {
                self.failures += 1;
                if out.iterations == 0 {
                    self.failures_at_zero += 1;
                }
                (3, Some(out))
            }
            Outcome::Panicked => {
                self.panics += 1;
                (4, None)
            }
        };
        let mut mix = |x: u64| {
            self.digest = (self.digest ^ x).wrapping_mul(0x0000_0100_0000_01B3);
        };
        mix(tag);
        if let Some(out) = out {
            mix(out.iterations as u64);
            for &b in &out.codeword {
                mix(u64::from(b));
            }
        }
    }
}

// ---------------------------------------------------------------------------
// The check itself
// ---------------------------------------------------------------------------

// One call history on one reused decoder, every call compared with a decoder
// built for that call only.
fn history<R, F>(
    reused: &mut R,
    mut fresh: F,
    n: usize,
    seed: u64,
    length: usize,
    context: &str,
    stats: &mut Stats,
) where
    R: LdpcDecoder + ?Sized,
    F: FnMut() -> Box<dyn LdpcDecoder>,
{
    let mut rng = Rng(seed);
    let mut past: Vec<(Vec<f64>, usize)> = Vec::new();
    for step in 0..length {
        let (llrs, limit) = match rng.below(6) {
            // exact repeat of an earlier call
            0 if !past.is_empty() => past[rng.below(past.len())].clone(),
            // an earlier frame with another limit
            1 if !past.is_empty() => {
                let (llrs, _) = past[rng.below(past.len())].clone();
                (llrs, LIMITS[rng.below(LIMITS.len())])
            }
            _ => {
                let kind = rng.below(7);
                (frame(&mut rng, n, kind), LIMITS[rng.below(LIMITS.len())])
            }
        };
        let context = format!("{context}, seed {seed}, step {step}, limit {limit}, llrs {llrs:?}");
        let got = call(reused, &llrs, limit);
        let expected = call(fresh().as_mut(), &llrs, limit);
        assert_eq!(
            got, expected,
            "reused decoder differs from fresh: {context}"
        );
        sanity(&got, n, limit, &context);
        stats.record(&got);
        past.push((llrs, limit));
    }
}

fn all_implementations(stats: &mut Stats) {
    for name in IMPLEMENTATIONS.iter() {
        let implementation: DecoderImplementation = name.parse().unwrap();
        assert_eq!(&implementation.to_string(), name);
        for (hname, h) in matrices() {
            let n = h.num_cols();
            for seed in 0..4u64 {
                let mut reused = implementation.build_decoder(h.clone());
                history(
                    reused.as_mut(),
                    || implementation.build_decoder(h.clone()),
                    n,
                    1000 * seed + 17,
                    24,
                    &format!("{name} on {hname}"),
                    stats,
                );
            }
        }
    }
}

// A long run of failures followed by easy frames and zero-iteration calls:
// whatever the failures left in the decoder must not show.
fn failures_then_easy(stats: &mut Stats) {
    let h = regular();
    let n = h.num_cols();
    for name in IMPLEMENTATIONS.iter() {
        let implementation: DecoderImplementation = name.parse().unwrap();
        let mut reused = implementation.build_decoder(h.clone());
        let mut rng = Rng(0xC10);
        let mut script: Vec<(Vec<f64>, usize)> = Vec::new();
        for j in 0..6 {
            script.push((frame(&mut rng, n, 3 + j % 2), [7, 1, 25][j % 3]));
        }
        let noisy = frame(&mut rng, n, 3);
        let easy = frame(&mut rng, n, 1);
        let clean = frame(&mut rng, n, 0);
        let weak = frame(&mut rng, n, 5);
        for limit in [0, 1, 0, 30] {
            script.push((noisy.clone(), limit));
            script.push((easy.clone(), limit));
            script.push((weak.clone(), limit));
            script.push((clean.clone(), limit));
        }
        for (step, (llrs, limit)) in script.iter().enumerate() {
            let got = call(reused.as_mut(), llrs, *limit);
            let expected = call(
                implementation.build_decoder(h.clone()).as_mut(),
                llrs,
                *limit,
            );
            let context = format!("{name}, scripted step {step}, limit {limit}, llrs {llrs:?}");
            assert_eq!(
                got, expected,
                "reused decoder differs from fresh: {context}"
            );
            sanity(&got, n, *limit, &context);
            stats.record(&got);
        }
    }
}

// Not-a-number and infinite LLRs make some arithmetics panic in the middle of
// an iteration (and leave their stores half written). A caller that catches
// the panic and goes on using the decoder must still get fresh results.
fn survives_panics(stats: &mut Stats) {
    let h = regular();
    let n = h.num_cols();
    for name in IMPLEMENTATIONS.iter() {
        let implementation: DecoderImplementation = name.parse().unwrap();
        let mut reused = implementation.build_decoder(h.clone());
        let mut rng = Rng(0xBAD);
        for step in 0..16 {
            let mut llrs = frame(&mut rng, n, 1 + step % 4);
            if step % 2 == 0 {
                for j in 0..n {
                    match rng.below(5) {
                        0 => llrs[j] = f64::NAN,
                        1 => llrs[j] = f64::INFINITY,
                        2 => llrs[j] = f64::NEG_INFINITY,
                        _ => (),
                    }
                }
            }
            let limit = [3, 10, 0, 1][step % 4];
            let got = call(reused.as_mut(), &llrs, limit);
            let expected = call(
                implementation.build_decoder(h.clone()).as_mut(),
                &llrs,
                limit,
            );
            let context = format!("{name}, panic step {step}, limit {limit}, llrs {llrs:?}");
            assert_eq!(
                got, expected,
                "reused decoder differs from fresh: {context}"
            );
            sanity(&got, n, limit, &context);
            stats.record(&got);
        }
        // a frame of the wrong length is refused by fresh and reused alike,
        // and refusing it does not change the decoder
        let short = vec![1.0; n - 1];
        assert_eq!(call(reused.as_mut(), &short, 5), Outcome::Panicked);
        assert_eq!(
            call(implementation.build_decoder(h.clone()).as_mut(), &short, 5),
            Outcome::Panicked
        );
        let llrs = frame(&mut rng, n, 2);
        let got = call(reused.as_mut(), &llrs, 20);
        let expected = call(implementation.build_decoder(h.clone()).as_mut(), &llrs, 20);
        assert_eq!(got, expected, "{name}: after a refused frame");
        stats.record(&got);
    }
}

// Decoders built directly from the generic types (not through the factory),
// and clones of used decoders.
fn direct_and_clones(stats: &mut Stats) {
    macro_rules! direct {
        ($module:ident, $arith:ty, $h:expr, $seed:expr) => {{
            let h: SparseMatrix = $h;
            let n = h.num_cols();
            let mut reused = $module::Decoder::new(h.clone(), <$arith>::new());
            let context = format!("{}::Decoder<{}>", stringify!($module), stringify!($arith));
            history(
                &mut reused,
                || Box::new($module::Decoder::new(h.clone(), <$arith>::new())),
                n,
                $seed,
                20,
                &context,
                stats,
            );
            // a clone of a used decoder is as good as new as well
            let mut cloned = reused.clone();
            history(
                &mut cloned,
                || Box::new($module::Decoder::new(h.clone(), <$arith>::new())),
                n,
                $seed + 1,
                12,
                &format!("clone of {context}"),
                stats,
            );
            history(
                &mut reused,
                || Box::new($module::Decoder::new(h.clone(), <$arith>::new())),
                n,
                $seed + 2,
                12,
                &format!("{context} after being cloned"),
                stats,
            );
        }};
    }
    direct!(flooding, Phif64, regular(), 1);
    direct!(flooding, Phif32, irregular(), 2);
    direct!(flooding, Tanhf64, regular(), 3);
    direct!(flooding, Minstarapproxf64, irregular(), 4);
    direct!(flooding, Minstarapproxi8, regular(), 5);
    direct!(flooding, Minstarapproxi8Jones, irregular(), 6);
    direct!(flooding, Aminstarf32, regular(), 7);
    direct!(flooding, Aminstari8, irregular(), 8);
    direct!(
        flooding,
        Aminstari8JonesPartialHardLimitDeg1Clip,
        irregular(),
        9
    );
    direct!(horizontal_layered, Phif64, irregular(), 10);
    direct!(horizontal_layered, Tanhf64, regular(), 11);
    direct!(horizontal_layered, Minstarapproxf64, regular(), 12);
    direct!(horizontal_layered, Minstarapproxi8, irregular(), 13);
    direct!(horizontal_layered, Aminstarf32, irregular(), 14);
    direct!(horizontal_layered, Aminstari8, regular(), 15);
    // a decoder type that the factory does not offer
    direct!(horizontal_layered, Minstarapproxi8Jones, regular(), 16);
    direct!(
        horizontal_layered,
        Aminstari8JonesPartialHardLimitDeg1Clip,
        johnson(),
        17
    );
}

// Known answers (example 2.23 in Sarah J. Johnson - Iterative Error
// Correction), asked in between other frames of a used decoder.
fn known_answers() {
    let good = [0u8, 0, 1, 0, 1, 1];
    let to_llrs = |bits: &[u8]| -> Vec<f64> {
        bits.iter()
            .map(|&b| if b == 0 { 1.3863 } else { -1.3863 })
            .collect()
    };
    for name in IMPLEMENTATIONS.iter() {
        let implementation: DecoderImplementation = name.parse().unwrap();
        let mut decoder = implementation.build_decoder(johnson());
        let mut rng = Rng(23);
        for j in 0..good.len() {
            // some failure first
            let junk = frame(&mut rng, 6, 3);
            let _ = call(decoder.as_mut(), &junk, j);
            let mut bad = good;
            bad[j] ^= 1;
            let out = decoder.decode(&to_llrs(&bad), 100).unwrap();
            assert_eq!(out.codeword, good, "{name}");
            // (one iteration for most arithmetics, two for some 8-bit ones)
            assert!(out.iterations == 1 || out.iterations == 2, "{name}");
            let fresh = implementation
                .build_decoder(johnson())
                .decode(&to_llrs(&bad), 100)
                .unwrap();
            assert_eq!(out, fresh, "{name}");
            let out = decoder.decode(&to_llrs(&good), 100).unwrap();
            assert_eq!(out.codeword, good, "{name}");
            assert_eq!(out.iterations, 0, "{name}");
            // zero iterations allowed: hard decision on the input comes back
            let out = decoder.decode(&to_llrs(&bad), 0).unwrap_err();
            assert_eq!(out.codeword, bad, "{name}");
            assert_eq!(out.iterations, 0, "{name}");
        }
    }
}

fn run() -> Stats {
    let mut stats = Stats::default();
    all_implementations(&mut stats);
    failures_then_easy(&mut stats);
    survives_panics(&mut stats);
    direct_and_clones(&mut stats);
    known_answers();
    stats
}

#[test]
fn reused_decoder_equals_fresh_decoder() {
    // the expected panics would otherwise flood the output
    std::panic::set_hook(Box::new(|_| ()));
    let (tx, rx) = mpsc::channel();
    std::thread::spawn(move || {
        let result = catch_unwind(AssertUnwindSafe(run));
        let _ = tx.send(result.map_err(|e| {
            e.downcast_ref::<String>()
                .cloned()
                .or_else(|| e.downcast_ref::<&str>().map(|s| s.to_string()))
                .unwrap_or_else(|| String::from("unknown panic"))
        }));
    });
    let result = rx.recv_timeout(Duration::from_secs(600));
    let _ = std::panic::take_hook();
    match result {
        Ok(Ok(stats)) => {
            println!(
                "calls {} (success at 0: {}, success after iterating: {}, failures: {} \
                 of which at limit 0: {}, panics: {}), digest {:016x}",
                stats.calls,
                stats.successes_without_iterations,
                stats.successes_with_iterations,
                stats.failures,
                stats.failures_at_zero,
                stats.panics,
                stats.digest
            );
            // the histories must have visited every kind of outcome
            assert!(stats.successes_without_iterations > 100);
            assert!(stats.successes_with_iterations > 100);
            assert!(stats.failures > 100);
            assert!(stats.failures_at_zero > 100);
            assert!(stats.panics > 10);
        }
        Ok(Err(message)) => panic!("property violated: {message}"),
        Err(_) => panic!("timeout"),
    }
}
