// Demonstration for property C19: the C interface is a faithful wrapper of the
// Rust encoder and decoder.
//
// The C entry points (`#[no_mangle] extern "C"`) are linked from the crate's
// rlib and compared against references built only from the crate's public
// Rust API and std:
//  * decoder: `DecoderImplementation::build_decoder(..).decode(..)` on LLRs
//    depunctured by the test itself (and cross-checked with `Puncturer`);
//  * encoder: the unique systematic codeword obtained with a GF(2) solver
//    written in this file, punctured by the test itself;
//  * constructors: null / non-null predicted from `SparseMatrix::from_alist`,
//    `str::parse::<DecoderImplementation>`, a local puncturing-pattern parser
//    and `Encoder::from_h`.
//
// Everything is deterministic (own xorshift generator) and runs under a
// watchdog so that it can never hang forever.

use ldpc_toolbox::decoder::LdpcDecoder;
use ldpc_toolbox::decoder::factory::{DecoderFactory, DecoderImplementation};
use ldpc_toolbox::encoder::Encoder;
use ldpc_toolbox::simulation::puncturing::Puncturer;
use ldpc_toolbox::sparse::SparseMatrix;
use std::ffi::{CString, c_char, c_void};
use std::path::PathBuf;
use std::sync::mpsc;
use std::time::Duration;

unsafe extern "C" {
    fn ldpc_toolbox_decoder_ctor(
        alist_file_path: *const c_char,
        implementation: *const c_char,
        puncturing: *const c_char,
    ) -> *mut c_void;
    fn ldpc_toolbox_decoder_ctor_alist_string(
        alist: *const c_char,
        implementation: *const c_char,
        puncturing: *const c_char,
    ) -> *mut c_void;
    fn ldpc_toolbox_decoder_dtor(decoder: *mut c_void);
    fn ldpc_toolbox_decoder_decode_f64(
        decoder: *mut c_void,
        output: *mut u8,
        output_len: usize,
        llrs: *const f64,
        llrs_len: usize,
        max_iterations: u32,
    ) -> i32;
    fn ldpc_toolbox_decoder_decode_f32(
        decoder: *mut c_void,
        output: *mut u8,
        output_len: usize,
        llrs: *const f32,
        llrs_len: usize,
        max_iterations: u32,
    ) -> i32;
    fn ldpc_toolbox_encoder_ctor(
        alist_file_path: *const c_char,
        puncturing: *const c_char,
    ) -> *mut c_void;
    fn ldpc_toolbox_encoder_ctor_alist_string(
        alist: *const c_char,
        puncturing: *const c_char,
    ) -> *mut c_void;
    fn ldpc_toolbox_encoder_dtor(encoder: *mut c_void);
    fn ldpc_toolbox_encoder_encode(
        encoder: *mut c_void,
        output: *mut u8,
        output_len: usize,
        input: *const u8,
        input_len: usize,
    );
}

const WATCHDOG: Duration = Duration::from_secs(900);

fn with_watchdog<F: FnOnce() + Send + 'static>(name: &'static str, f: F) {
    let (tx, rx) = mpsc::channel();
    let handle = std::thread::Builder::new()
        .name(name.to_string())
        .stack_size(16 << 20)
        .spawn(move || {
            f();
            let _ = tx.send(());
        })
        .unwrap();
    match rx.recv_timeout(WATCHDOG) {
        Ok(()) => handle.join().unwrap(),
        Err(mpsc::RecvTimeoutError::Disconnected) => {
            // the worker panicked: propagate
            if let Err(e) = handle.join() {
                std::panic::resume_unwind(e);
            }
            panic!("{name}: worker finished without reporting");
        }
        Err(mpsc::RecvTimeoutError::Timeout) => panic!("{name}: watchdog timeout"),
    }
}

// ---------------------------------------------------------------- utilities

struct Rng(u64);

impl Rng {
    fn new(seed: u64) -> Rng {
        Rng(seed.wrapping_mul(0x9E37_79B9_7F4A_7C15) | 1)
    }
    fn next(&mut self) -> u64 {
        let mut x = self.0;
        x ^= x >> 12;
        x ^= x << 25;
        x ^= x >> 27;
        self.0 = x;
        x.wrapping_mul(0x2545_F491_4F6C_DD1D)
    }
    fn below(&mut self, n: usize) -> usize {
        (self.next() % (n as u64)) as usize
    }
    fn unit(&mut self) -> f64 {
        ((self.next() >> 11) as f64 + 0.5) / (1u64 << 53) as f64
    }
    fn gauss(&mut self) -> f64 {
        let u = self.unit();
        let v = self.unit();
        (-2.0 * u.ln()).sqrt() * (2.0 * std::f64::consts::PI * v).cos()
    }
}

fn cstr(bytes: &[u8]) -> CString {
    CString::new(bytes.to_vec()).unwrap()
}

const IMPLEMENTATIONS: &[&str] = &[
    "Phif64",
    "Phif32",
    "Tanhf64",
    "Tanhf32",
    "Minstarapproxf64",
    "Minstarapproxf32",
    "Minstarapproxi8",
    "Minstarapproxi8Jones",
    "Minstarapproxi8PartialHardLimit",
    "Minstarapproxi8JonesPartialHardLimit",
    "Minstarapproxi8Deg1Clip",
    "Minstarapproxi8JonesDeg1Clip",
    "Minstarapproxi8PartialHardLimitDeg1Clip",
    "Minstarapproxi8JonesPartialHardLimitDeg1Clip",
    "Aminstarf64",
    "Aminstarf32",
    "Aminstari8",
    "Aminstari8Jones",
    "Aminstari8PartialHardLimit",
    "Aminstari8JonesPartialHardLimit",
    "Aminstari8Deg1Clip",
    "Aminstari8JonesDeg1Clip",
    "Aminstari8PartialHardLimitDeg1Clip",
    "Aminstari8JonesPartialHardLimitDeg1Clip",
    "HLPhif64",
    "HLPhif32",
    "HLTanhf64",
    "HLTanhf32",
    "HLMinstarapproxf64",
    "HLMinstarapproxf32",
    "HLMinstarapproxi8",
    "HLMinstarapproxi8PartialHardLimit",
    "HLAminstarf64",
    "HLAminstarf32",
    "HLAminstari8",
    "HLAminstari8PartialHardLimit",
];

/// Local reimplementation of the puncturing pattern syntax ("1,1,0,1").
/// `Ok(None)` for the empty string (no puncturing).
fn ref_pattern(bytes: &[u8]) -> Result<Option<Vec<bool>>, ()> {
    if bytes.is_empty() {
        return Ok(None);
    }
    let mut v = Vec::new();
    for tok in bytes.split(|&b| b == b',') {
        match tok {
            b"0" => v.push(false),
            b"1" => v.push(true),
            _ => return Err(()),
        }
    }
    Ok(Some(v))
}

fn ref_depuncture(pattern: &[bool], llrs: &[f64]) -> Vec<f64> {
    let trues = pattern.iter().filter(|&&b| b).count();
    assert!(trues > 0 && llrs.len() % trues == 0);
    let block = llrs.len() / trues;
    let mut out = Vec::with_capacity(pattern.len() * block);
    let mut j = 0;
    for &keep in pattern {
        if keep {
            out.extend_from_slice(&llrs[j * block..(j + 1) * block]);
            j += 1;
        } else {
            out.extend(std::iter::repeat(0.0).take(block));
        }
    }
    // cross-check with the crate's own puncturer
    let other = Puncturer::new(pattern).depuncture(llrs).unwrap();
    assert_eq!(out.len(), other.len());
    for (a, b) in out.iter().zip(other.iter()) {
        assert_eq!(a.to_bits(), b.to_bits());
    }
    out
}

fn ref_puncture(pattern: &[bool], word: &[u8]) -> Vec<u8> {
    assert!(word.len() % pattern.len() == 0);
    let block = word.len() / pattern.len();
    let mut out = Vec::new();
    for (k, &keep) in pattern.iter().enumerate() {
        if keep {
            out.extend_from_slice(&word[k * block..(k + 1) * block]);
        }
    }
    out
}

/// The unique codeword whose first k symbols are the message, or None if the
/// square matrix formed by the last columns of H is singular.
fn ref_systematic(h: &SparseMatrix, message: &[u8]) -> Option<Vec<u8>> {
    let m = h.num_rows();
    let n = h.num_cols();
    assert!(n >= m);
    let k = n - m;
    assert_eq!(message.len(), k);
    // augmented matrix [H1 | H0 * message], m x (m + 1)
    let mut a = vec![vec![0u8; m + 1]; m];
    for (row, col) in h.iter_all() {
        if col >= k {
            a[row][col - k] ^= 1;
        } else {
            a[row][m] ^= message[col] & 1;
        }
    }
    for c in 0..m {
        let pivot = (c..m).find(|&r| a[r][c] == 1)?;
        a.swap(c, pivot);
        let pivot_row = a[c].clone();
        for (r, row) in a.iter_mut().enumerate() {
            if r != c && row[c] == 1 {
                for (x, y) in row.iter_mut().zip(pivot_row.iter()) {
                    *x ^= *y;
                }
            }
        }
    }
    let mut word = message.to_vec();
    word.extend((0..m).map(|r| a[r][m]));
    // sanity: all parity checks hold
    for r in 0..m {
        let s: u8 = h.iter_row(r).map(|&c| word[c]).fold(0, |x, y| x ^ y);
        assert_eq!(s, 0);
    }
    Some(word)
}

// ----------------------------------------------------------------- matrices

/// The order in which the ones are stored inside a `SparseMatrix` influences
/// the order of floating point operations in the decoders, so every reference
/// matrix is brought to the storage order that parsing its alist produces.
fn normalise(h: &SparseMatrix) -> SparseMatrix {
    let parsed = SparseMatrix::from_alist(&h.alist()).unwrap();
    assert_eq!(parsed.alist(), h.alist());
    parsed
}

/// H = [H0 | staircase], (n-k) x n.
fn staircase_h(rng: &mut Rng, n: usize, k: usize) -> SparseMatrix {
    let m = n - k;
    let mut h = SparseMatrix::new(m, n);
    for c in 0..k {
        for _ in 0..3 {
            h.insert(rng.below(m), c);
        }
    }
    for j in 0..m {
        h.insert(j, k + j);
        if j > 0 {
            h.insert(j, k + j - 1);
        }
    }
    normalise(&h)
}

/// H = [H0 | L] with L unit lower triangular (invertible) and not a staircase.
fn dense_h(rng: &mut Rng, n: usize, k: usize) -> SparseMatrix {
    let m = n - k;
    let mut h = SparseMatrix::new(m, n);
    for c in 0..k {
        for _ in 0..3 {
            h.insert(rng.below(m), c);
        }
    }
    for j in 0..m {
        h.insert(j, k + j);
        if j >= 2 {
            h.insert(j, k + rng.below(j - 1));
        }
    }
    if m >= 3 {
        h.insert(m - 1, k);
    }
    normalise(&h)
}

/// As dense_h but with two equal columns in the square part (singular).
fn singular_h(rng: &mut Rng, n: usize, k: usize) -> SparseMatrix {
    let m = n - k;
    let base = dense_h(rng, n, k);
    let mut h = SparseMatrix::new(m, n);
    for (r, c) in base.iter_all() {
        if c != n - 1 {
            h.insert(r, c);
        }
    }
    let twin: Vec<usize> = base.iter_col(n - 2).copied().collect();
    for r in twin {
        h.insert(r, n - 1);
    }
    normalise(&h)
}

fn noisy_llrs(rng: &mut Rng, word: &[u8], sigma: f64) -> Vec<f64> {
    word.iter()
        .map(|&b| {
            let x = if b == 1 { -1.0 } else { 1.0 };
            2.0 * (x + sigma * rng.gauss()) / (sigma * sigma)
        })
        .collect()
}

fn random_message(rng: &mut Rng, k: usize) -> Vec<u8> {
    (0..k).map(|_| (rng.next() & 1) as u8).collect()
}

// ------------------------------------------------------------ decoder checks

struct CDecoder(*mut c_void);

impl CDecoder {
    fn from_string(alist: &[u8], implementation: &[u8], puncturing: &[u8]) -> Option<CDecoder> {
        let (a, i, p) = (cstr(alist), cstr(implementation), cstr(puncturing));
        let ptr =
            unsafe { ldpc_toolbox_decoder_ctor_alist_string(a.as_ptr(), i.as_ptr(), p.as_ptr()) };
        // the argument strings are dropped here: the handle must not borrow them
        drop((a, i, p));
        if ptr.is_null() { None } else { Some(CDecoder(ptr)) }
    }
    fn from_file(path: &[u8], implementation: &[u8], puncturing: &[u8]) -> Option<CDecoder> {
        let (a, i, p) = (cstr(path), cstr(implementation), cstr(puncturing));
        let ptr = unsafe { ldpc_toolbox_decoder_ctor(a.as_ptr(), i.as_ptr(), p.as_ptr()) };
        drop((a, i, p));
        if ptr.is_null() { None } else { Some(CDecoder(ptr)) }
    }
    /// Returns (return code, output bytes); checks that nothing is written
    /// beyond `out_len`.
    fn decode_f64(&mut self, llrs: &[f64], out_len: usize, max_iter: u32) -> (i32, Vec<u8>) {
        let mut out = vec![0xA5u8; out_len + 16];
        let llrs_copy = llrs.to_vec();
        let ret = unsafe {
            ldpc_toolbox_decoder_decode_f64(
                self.0,
                out.as_mut_ptr(),
                out_len,
                llrs_copy.as_ptr(),
                llrs_copy.len(),
                max_iter,
            )
        };
        assert!(out[out_len..].iter().all(|&b| b == 0xA5), "write past output_len");
        for (a, b) in llrs.iter().zip(llrs_copy.iter()) {
            assert_eq!(a.to_bits(), b.to_bits(), "input LLRs modified");
        }
        out.truncate(out_len);
        (ret, out)
    }
    fn decode_f32(&mut self, llrs: &[f32], out_len: usize, max_iter: u32) -> (i32, Vec<u8>) {
        let mut out = vec![0x5Au8; out_len + 16];
        let llrs_copy = llrs.to_vec();
        let ret = unsafe {
            ldpc_toolbox_decoder_decode_f32(
                self.0,
                out.as_mut_ptr(),
                out_len,
                llrs_copy.as_ptr(),
                llrs_copy.len(),
                max_iter,
            )
        };
        assert!(out[out_len..].iter().all(|&b| b == 0x5A), "write past output_len");
        for (a, b) in llrs.iter().zip(llrs_copy.iter()) {
            assert_eq!(a.to_bits(), b.to_bits(), "input LLRs modified");
        }
        out.truncate(out_len);
        (ret, out)
    }
}

impl Drop for CDecoder {
    fn drop(&mut self) {
        unsafe { ldpc_toolbox_decoder_dtor(self.0) };
    }
}

fn ref_decoder(h: &SparseMatrix, implementation: &str) -> Box<dyn LdpcDecoder> {
    implementation
        .parse::<DecoderImplementation>()
        .unwrap()
        .build_decoder(h.clone())
}

fn ref_decode(
    dec: &mut Box<dyn LdpcDecoder>,
    pattern: Option<&[bool]>,
    llrs: &[f64],
    max_iter: u32,
) -> (i32, Vec<u8>) {
    let depunctured = match pattern {
        Some(p) => ref_depuncture(p, llrs),
        None => llrs.to_vec(),
    };
    match dec.decode(&depunctured, max_iter as usize) {
        Ok(o) => (o.iterations as i32, o.codeword),
        Err(o) => (-1, o.codeword),
    }
}

/// A C handle together with a Rust decoder that sees the same call sequence.
struct Pair {
    c: CDecoder,
    twin: Box<dyn LdpcDecoder>,
    h: SparseMatrix,
    implementation: &'static str,
    pattern: Option<Vec<bool>>,
}

impl Pair {
    /// Some arithmetics reject some inputs (NaN, or infinities that turn into
    /// NaN) by panicking inside the Rust decoder. Such inputs are outside the
    /// property; they are detected with a throw-away decoder and skipped.
    fn in_scope(&self, llrs: &[f64], max_iter: u32) -> bool {
        let (h, implementation, pattern) = (&self.h, self.implementation, &self.pattern);
        std::panic::catch_unwind(std::panic::AssertUnwindSafe(|| {
            let mut fresh = ref_decoder(h, implementation);
            ref_decode(&mut fresh, pattern.as_deref(), llrs, max_iter);
        }))
        .is_ok()
    }
    fn check_f64(&mut self, llrs: &[f64], out_len: usize, max_iter: u32) -> i32 {
        if !self.in_scope(llrs, max_iter) {
            return 0;
        }
        let (ret, out) = self.c.decode_f64(llrs, out_len, max_iter);
        let (eret, eword) = ref_decode(&mut self.twin, self.pattern.as_deref(), llrs, max_iter);
        assert_eq!(ret, eret, "{} return code", self.implementation);
        assert_eq!(&out[..], &eword[..out_len], "{} output", self.implementation);
        if max_iter > 0 {
            // independence of calls: a fresh decoder gives the same answer
            let mut fresh = ref_decoder(&self.h, self.implementation);
            let (fret, fword) = ref_decode(&mut fresh, self.pattern.as_deref(), llrs, max_iter);
            assert_eq!(ret, fret);
            assert_eq!(&out[..], &fword[..out_len]);
        }
        ret
    }
    fn check_f32(&mut self, llrs: &[f32], out_len: usize, max_iter: u32) -> i32 {
        let wide: Vec<f64> = llrs.iter().map(|&x| x as f64).collect();
        if !self.in_scope(&wide, max_iter) {
            return 0;
        }
        let (ret, out) = self.c.decode_f32(llrs, out_len, max_iter);
        let (eret, eword) = ref_decode(&mut self.twin, self.pattern.as_deref(), &wide, max_iter);
        assert_eq!(ret, eret, "{} return code (f32)", self.implementation);
        assert_eq!(&out[..], &eword[..out_len], "{} output (f32)", self.implementation);
        ret
    }
}

fn make_pair(h: &SparseMatrix, implementation: &'static str, puncturing: &str) -> Pair {
    let c = CDecoder::from_string(
        h.alist().as_bytes(),
        implementation.as_bytes(),
        puncturing.as_bytes(),
    )
    .expect("valid arguments must give a decoder");
    Pair {
        c,
        twin: ref_decoder(h, implementation),
        h: h.clone(),
        implementation,
        pattern: ref_pattern(puncturing.as_bytes()).unwrap(),
    }
}

fn special_f32(rng: &mut Rng, len: usize) -> Vec<f32> {
    const SPECIAL: [f32; 12] = [
        0.0,
        -0.0,
        f32::MIN_POSITIVE,
        -f32::MIN_POSITIVE,
        1.0e-45,
        -1.0e-45,
        f32::MAX,
        f32::MIN,
        f32::INFINITY,
        f32::NEG_INFINITY,
        0.1,
        -16777217.0,
    ];
    (0..len)
        .map(|_| {
            if rng.below(3) == 0 {
                SPECIAL[rng.below(SPECIAL.len())]
            } else {
                (rng.gauss() * 3.0) as f32
            }
        })
        .collect()
}

fn exercise_decoder(h: &SparseMatrix, seed: u64, patterns: &[&str]) {
    exercise_decoder_with(h, seed, patterns, IMPLEMENTATIONS);
}

fn exercise_decoder_with(
    h: &SparseMatrix,
    seed: u64,
    patterns: &[&str],
    implementations: &[&'static str],
) {
    let n = h.num_cols();
    let k = n - h.num_rows();
    let mut rng = Rng::new(seed);
    let mut outcomes = [0usize; 3]; // zero iterations, positive, failure
    for &implementation in implementations {
        for &puncturing in patterns {
            let mut pair = make_pair(h, implementation, puncturing);
            let pattern = pair.pattern.clone();
            let tx_len = match &pattern {
                Some(p) => n / p.len() * p.iter().filter(|&&b| b).count(),
                None => n,
            };
            let transmit = |word: &[u8]| match &pattern {
                Some(p) => ref_puncture(p, word),
                None => word.to_vec(),
            };
            let mut first: Option<(Vec<f64>, i32, Vec<u8>)> = None;
            for round in 0..7 {
                let message = random_message(&mut rng, k);
                let word = ref_systematic(h, &message).unwrap();
                let sigma = [0.3, 0.7, 0.9, 1.2, 2.5, 0.05, 0.8][round];
                let llrs = noisy_llrs(&mut rng, &transmit(&word), sigma);
                assert_eq!(llrs.len(), tx_len);
                let max_iter = [25, 1, 50, 3, 10, 200, 2][round];
                let out_len = match round {
                    0 => n,
                    1 => 0,
                    2 => k,
                    3 => 1,
                    _ => rng.below(n + 1),
                };
                let ret = pair.check_f64(&llrs, out_len, max_iter);
                outcomes[if ret == 0 {
                    0
                } else if ret > 0 {
                    1
                } else {
                    2
                }] += 1;
                if round == 0 {
                    let (r, o) = pair.c.decode_f64(&llrs, n, max_iter);
                    pair.twin.decode(
                        &match &pattern {
                            Some(p) => ref_depuncture(p, &llrs),
                            None => llrs.clone(),
                        },
                        max_iter as usize,
                    )
                    .ok();
                    first = Some((llrs.clone(), r, o));
                }
                // the same data as f32
                let narrow: Vec<f32> = llrs.iter().map(|&x| x as f32).collect();
                pair.check_f32(&narrow, rng.below(n + 1), max_iter);
                // special values
                let special = special_f32(&mut rng, tx_len);
                pair.check_f32(&special, n, 4);
                let special64: Vec<f64> = special
                    .iter()
                    .map(|&x| if x == 0.1 { f64::NAN } else { x as f64 * 1.0e30 })
                    .collect();
                pair.check_f64(&special64, n, 4);
            }
            // NaN through the f32 path
            let mut with_nan = special_f32(&mut rng, tx_len);
            if !with_nan.is_empty() {
                with_nan[0] = f32::NAN;
                let last = with_nan.len() - 1;
                with_nan[last] = -f32::NAN;
            }
            pair.check_f32(&with_nan, n, 3);
            // all-zero LLRs (erasures) and an exact codeword with zero iterations
            pair.check_f64(&vec![0.0; tx_len], n, 5);
            pair.check_f64(&vec![4.0; tx_len], n, 0);
            pair.check_f32(&vec![4.0; tx_len], k, 0);
            // repeating the very first input reproduces the very first answer
            let (llrs, r, o) = first.unwrap();
            let (r2, o2) = pair.c.decode_f64(&llrs, n, 25);
            pair.twin
                .decode(
                    &match &pattern {
                        Some(p) => ref_depuncture(p, &llrs),
                        None => llrs.clone(),
                    },
                    25,
                )
                .ok();
            assert_eq!((r, o), (r2, o2));
        }
    }
    assert!(outcomes.iter().all(|&c| c > 0), "outcomes not all covered: {outcomes:?}");
}

// ------------------------------------------------------------ encoder checks

struct CEncoder(*mut c_void);

impl CEncoder {
    fn from_string(alist: &[u8], puncturing: &[u8]) -> Option<CEncoder> {
        let (a, p) = (cstr(alist), cstr(puncturing));
        let ptr = unsafe { ldpc_toolbox_encoder_ctor_alist_string(a.as_ptr(), p.as_ptr()) };
        drop((a, p));
        if ptr.is_null() { None } else { Some(CEncoder(ptr)) }
    }
    fn from_file(path: &[u8], puncturing: &[u8]) -> Option<CEncoder> {
        let (a, p) = (cstr(path), cstr(puncturing));
        let ptr = unsafe { ldpc_toolbox_encoder_ctor(a.as_ptr(), p.as_ptr()) };
        drop((a, p));
        if ptr.is_null() { None } else { Some(CEncoder(ptr)) }
    }
    fn encode(&self, input: &[u8], out_len: usize) -> Vec<u8> {
        let mut out = vec![0xC3u8; out_len + 16];
        let input_copy = input.to_vec();
        unsafe {
            ldpc_toolbox_encoder_encode(
                self.0,
                out.as_mut_ptr(),
                out_len,
                input_copy.as_ptr(),
                input_copy.len(),
            )
        };
        assert!(out[out_len..].iter().all(|&b| b == 0xC3), "write past output_len");
        assert_eq!(input, &input_copy[..], "input modified");
        out.truncate(out_len);
        out
    }
}

impl Drop for CEncoder {
    fn drop(&mut self) {
        unsafe { ldpc_toolbox_encoder_dtor(self.0) };
    }
}

fn check_encode(enc: &CEncoder, h: &SparseMatrix, pattern: Option<&[bool]>, input: &[u8]) {
    let message: Vec<u8> = input.iter().map(|&b| u8::from(b == 1)).collect();
    let word = ref_systematic(h, &message).unwrap();
    let expected = match pattern {
        Some(p) => ref_puncture(p, &word),
        None => word,
    };
    let got = enc.encode(input, expected.len());
    assert_eq!(got, expected);
}

fn exercise_encoder(h: &SparseMatrix, seed: u64, patterns: &[&str]) {
    let n = h.num_cols();
    let k = n - h.num_rows();
    let mut rng = Rng::new(seed);
    assert!(Encoder::from_h(h).is_ok());
    for &puncturing in patterns {
        let pattern = ref_pattern(puncturing.as_bytes()).unwrap();
        let enc = CEncoder::from_string(h.alist().as_bytes(), puncturing.as_bytes())
            .expect("valid arguments must give an encoder");
        let mut first: Option<(Vec<u8>, Vec<u8>)> = None;
        for round in 0..12 {
            let input: Vec<u8> = match round {
                0 => vec![0; k],
                1 => vec![1; k],
                2 => (0..k).map(|j| [0u8, 1, 2, 255, 3, 1, 128, 0][j % 8]).collect(),
                3 => (0..k).map(|j| u8::from(j == k - 1)).collect(),
                _ => (0..k)
                    .map(|_| {
                        let r = rng.next();
                        if r % 5 == 0 { (r >> 8) as u8 } else { (r >> 8) as u8 & 1 }
                    })
                    .collect(),
            };
            check_encode(&enc, h, pattern.as_deref(), &input);
            if first.is_none() {
                let message: Vec<u8> = input.iter().map(|&b| u8::from(b == 1)).collect();
                let word = ref_systematic(h, &message).unwrap();
                let expected = match &pattern {
                    Some(p) => ref_puncture(p, &word),
                    None => word,
                };
                first = Some((input.clone(), expected));
            }
        }
        let (input, expected) = first.unwrap();
        assert_eq!(enc.encode(&input, expected.len()), expected);
    }
}

// --------------------------------------------------------------------- tests

#[test]
fn decoder_matches_rust_decoder() {
    with_watchdog("decoder_matches_rust_decoder", || {
        let mut rng = Rng::new(1);
        let h = staircase_h(&mut rng, 24, 12);
        exercise_decoder(&h, 11, &["", "1", "1,1,1,0", "0,1,1,1,1,1", "1,0,1", "1,1"]);
        let h = dense_h(&mut rng, 30, 18);
        exercise_decoder(&h, 12, &["", "1,1,0,1,1", "0,1", "1,1,1,1,1,1,1,1,1,0"]);
        // a pattern as long as the codeword (block size one)
        let h = dense_h(&mut rng, 8, 4);
        exercise_decoder(&h, 13, &["1,1,1,1,0,1,1,0", "1,1,1,1,1,1,1,1"]);
    });
}

#[test]
fn decoder_with_longer_blocks() {
    // block sizes of 17, 34, 85 and 170 LLRs, and a block size of one with a
    // pattern of 170 elements
    with_watchdog("decoder_with_longer_blocks", || {
        let mut rng = Rng::new(6);
        let h = staircase_h(&mut rng, 170, 85);
        let long_pattern: Vec<&str> = (0..170)
            .map(|j| if j % 7 == 3 || j == 169 { "0" } else { "1" })
            .collect();
        let long_pattern = long_pattern.join(",");
        exercise_decoder_with(
            &h,
            61,
            &["", "1,0,1,1,1,1,1,1,1,1", "1,1,1,1,0", "1,1", "0,1", "1", &long_pattern],
            &["Phif64", "Minstarapproxf32", "Aminstari8Jones", "HLTanhf32", "HLMinstarapproxi8"],
        );
    });
}

#[test]
fn encoder_with_longer_blocks() {
    with_watchdog("encoder_with_longer_blocks", || {
        let mut rng = Rng::new(7);
        let long_pattern: Vec<&str> = (0..170)
            .map(|j| if j % 5 == 1 || j == 0 { "0" } else { "1" })
            .collect();
        let long_pattern = long_pattern.join(",");
        let patterns =
            ["", "1,0,1,1,1,1,1,1,1,1", "0,1,1,1,0", "1,1", "0,1", "1,0", "1", &long_pattern];
        let h = staircase_h(&mut rng, 170, 85);
        exercise_encoder(&h, 71, &patterns);
        let h = dense_h(&mut rng, 170, 85);
        exercise_encoder(&h, 72, &patterns);
        let h = dense_h(&mut rng, 170, 33);
        exercise_encoder(&h, 73, &patterns);
        // no message bits at all: the codeword is the all-zero parity
        let h = dense_h(&mut rng, 10, 0);
        exercise_encoder(&h, 74, &["", "1,0", "0,1,1,1,0"]);
    });
}

#[test]
fn encoder_matches_systematic_codeword() {
    with_watchdog("encoder_matches_systematic_codeword", || {
        let mut rng = Rng::new(2);
        let patterns = ["", "1", "1,1,1,0", "0,1,1,1,1,1", "1,0,1", "0,0,1", "1,1"];
        let h = staircase_h(&mut rng, 24, 12);
        exercise_encoder(&h, 21, &patterns);
        let h = dense_h(&mut rng, 24, 12);
        exercise_encoder(&h, 22, &patterns);
        let h = dense_h(&mut rng, 36, 30);
        exercise_encoder(&h, 23, &patterns);
        let h = staircase_h(&mut rng, 300, 180);
        exercise_encoder(&h, 24, &["", "1,1,1,1,0", "0,1,1"]);
        // a pattern as long as the codeword (block size one)
        let h = dense_h(&mut rng, 8, 4);
        exercise_encoder(&h, 25, &["1,0,1,1,0,1,1,0", "1,1,1,1,1,1,1,1", "0,0,0,0,0,0,0,1"]);
        // the all-punctured pattern produces an empty output
        let enc = CEncoder::from_string(h.alist().as_bytes(), b"0,0").unwrap();
        assert_eq!(enc.encode(&[1, 0, 1, 1], 0), Vec::<u8>::new());
    });
}

fn expected_decoder(alist_text: Option<&str>, implementation: &[u8], puncturing: &[u8]) -> bool {
    let Some(text) = alist_text else {
        return false;
    };
    SparseMatrix::from_alist(text).is_ok()
        && std::str::from_utf8(implementation)
            .ok()
            .and_then(|s| s.parse::<DecoderImplementation>().ok())
            .is_some()
        && ref_pattern(puncturing).is_ok()
}

fn expected_encoder(alist_text: Option<&str>, puncturing: &[u8]) -> bool {
    let Some(text) = alist_text else {
        return false;
    };
    let Ok(h) = SparseMatrix::from_alist(text) else {
        return false;
    };
    if ref_pattern(puncturing).is_err() {
        return false;
    }
    assert!(h.num_cols() >= h.num_rows() && h.num_rows() > 0, "test matrix out of scope");
    let ok = Encoder::from_h(&h).is_ok();
    assert_eq!(ok, ref_systematic(&h, &vec![0; h.num_cols() - h.num_rows()]).is_some());
    ok
}

const BAD_PATTERNS: &[&[u8]] = &[
    b",", b"1,", b",1", b"2", b"1;0", b" 1", b"1 ", b"1,1,x", b"1 ,0", b"1,,0", b"10", b"01",
    b"true", b"1,0\n", b"\xff", b"1,\xc3\xa9", b"1,0,\xf0\x9f", b"-1", b"+1", b"0x1",
];

const BAD_IMPLEMENTATIONS: &[&[u8]] = &[
    b"", b"phif64", b"Phif64 ", b" Phif64", b"Phif64\n", b"\xffPhif64", b"Phif64\xff", b"HLPhif6",
    b"Phif", b"Phif64,Phif32", b"hlphif64", b"Phif128", b"Ph\xc3\xa9f64",
];

fn alist_string_cases(h: &SparseMatrix) -> Vec<Vec<u8>> {
    let good = h.alist();
    let lines: Vec<&str> = good.split('\n').collect();
    let n = h.num_cols();
    let mut cases: Vec<Vec<u8>> = Vec::new();
    let mut push = |s: String| cases.push(s.into_bytes());
    push(good.clone());
    push(h.alist_no_padding());
    push(good.replace('\n', "\r\n"));
    push(good.trim_end_matches('\n').to_string());
    push(format!("{good}\n\n\n"));
    push(format!("{good}this is ignored\nso is this \u{e9}\u{1f600}\n"));
    push(good.replace(' ', "\t  "));
    push(good.replace(' ', " \u{a0}\u{2003}")); // unicode white space separates too
    // only the lines up to the last column are needed
    push(lines[..4 + n].join("\n"));
    push(lines[..4 + n - 1].join("\n")); // one column line short
    push(lines[..4 + n - 1].join("\n") + "\n"); // last column line empty: still valid
    push(lines[..3].join("\n"));
    push(lines[..1].join("\n"));
    // the three skipped lines may hold anything
    push(format!(
        "{}\nany thing\n\u{fffd}\u{fffd}\n-1 x\n{}",
        lines[0],
        lines[4..].join("\n")
    ));
    // first line variants
    let rest = lines[1..].join("\n");
    push(format!("  {}  extra tokens 7\n{rest}", lines[0]));
    push(format!("+{}\n{rest}", lines[0]));
    push(format!("{}\n{rest}", lines[0].replace(' ', " +")));
    push(format!("-{}\n{rest}", lines[0]));
    push(format!("{}\n{rest}", lines[0].replace(' ', ".0 ")));
    push(format!("{}\n{rest}", lines[0].split(' ').next().unwrap()));
    push(format!("\n{good}"));
    push(format!("x {}\n{rest}", lines[0]));
    push(format!("99999999999999999999999999 3\n{rest}"));
    push(String::new());
    push(String::from("\n"));
    push(String::from(" "));
    push(String::from("0 0"));
    push(String::from("0 0\n"));
    push(String::from("0"));
    // column line variants
    let mutate = |idx: usize, new: String| {
        let mut l: Vec<String> = lines.iter().map(|s| s.to_string()).collect();
        l[idx] = new;
        l.join("\n")
    };
    push(mutate(4, format!("{} ", h.num_rows() + 1)));
    push(mutate(4, format!("{}", h.num_rows())));
    push(mutate(5, String::from("0 0 0")));
    push(mutate(5, String::from("1 1 1 1")));
    push(mutate(6, String::from("2 -1")));
    push(mutate(6, String::from("2 +1")));
    push(mutate(6, String::from("2 1.5")));
    push(mutate(6, String::from("2,1")));
    push(mutate(4 + n - 1, String::from("1 a")));
    push(mutate(4 + n - 1, String::from("18446744073709551616")));
    push(mutate(4 + n - 1, String::from("18446744073709551615")));
    push(mutate(4 + n, String::from("rows are never looked at")));
    // invalid UTF-8 is replaced by U+FFFD by the string constructors
    let mut raw = good.clone().into_bytes();
    raw.extend_from_slice(b"\xff\xfe trailing garbage");
    cases.push(raw);
    let mut raw = format!("{}\n", lines[0]).into_bytes();
    raw.extend_from_slice(b"\xc3\xff\n");
    raw.extend_from_slice(lines[2..].join("\n").as_bytes());
    cases.push(raw);
    let mut raw = mutate(5, String::from("1 ")).into_bytes();
    let pos = raw.iter().position(|&b| b == b'\n').unwrap();
    raw.insert(pos, 0xF0);
    cases.push(raw);
    let mut raw = lines[..4].join("\n").into_bytes();
    raw.extend_from_slice(b"\n1\xe2\x82 2\n");
    raw.extend_from_slice(lines[5..].join("\n").as_bytes());
    cases.push(raw);
    cases
}

#[test]
fn constructors_from_strings() {
    with_watchdog("constructors_from_strings", || {
        let mut rng = Rng::new(3);
        let good = dense_h(&mut rng, 12, 6);
        let singular = singular_h(&mut rng, 12, 6);
        assert!(Encoder::from_h(&singular).is_err());
        let mut seen = [0usize; 4];
        for h in [&good, &singular] {
            for case in alist_string_cases(h) {
                let lossy = String::from_utf8_lossy(&case).to_string();
                for (implementation, puncturing) in [
                    (&b"Phif64"[..], &b""[..]),
                    (b"HLAminstari8", b"1,1,0"),
                    (b"Nope", b"1"),
                    (b"Tanhf32", b"1,2"),
                ] {
                    let expect = expected_decoder(Some(&lossy), implementation, puncturing);
                    let got = CDecoder::from_string(&case, implementation, puncturing);
                    assert_eq!(got.is_some(), expect, "decoder for {lossy:?}");
                    seen[usize::from(expect)] += 1;
                    if let Some(mut dec) = got {
                        // the handle works and agrees with the parsed matrix
                        let hh = SparseMatrix::from_alist(&lossy).unwrap();
                        let p = ref_pattern(puncturing).unwrap();
                        let n = hh.num_cols();
                        if p.as_ref().is_none_or(|p| n % p.len() == 0) {
                            let len = match &p {
                                Some(p) => n / p.len() * p.iter().filter(|&&b| b).count(),
                                None => n,
                            };
                            let llrs: Vec<f64> = (0..len).map(|_| rng.gauss() + 0.8).collect();
                            // the reference goes first: should the Rust decoder
                            // reject the matrix by panicking, the case is out of scope
                            let name = std::str::from_utf8(implementation).unwrap();
                            let reference = std::panic::catch_unwind(|| {
                                let mut twin = ref_decoder(&hh, name);
                                ref_decode(&mut twin, p.as_deref(), &llrs, 6)
                            });
                            if let Ok(expected) = reference {
                                assert_eq!(dec.decode_f64(&llrs, n, 6), expected);
                            }
                        }
                    }
                }
                // the encoder needs at least as many columns as rows, and a row
                let in_scope = SparseMatrix::from_alist(&lossy)
                    .map(|m| m.num_cols() >= m.num_rows() && m.num_rows() > 0)
                    .unwrap_or(true);
                if in_scope {
                    for puncturing in [&b""[..], b"1,1,0", b"1,2"] {
                        let expect = expected_encoder(Some(&lossy), puncturing);
                        let got = CEncoder::from_string(&case, puncturing);
                        assert_eq!(got.is_some(), expect, "encoder for {lossy:?}");
                        seen[2 + usize::from(expect)] += 1;
                        if let Some(enc) = got {
                            let hh = SparseMatrix::from_alist(&lossy).unwrap();
                            let p = ref_pattern(puncturing).unwrap();
                            if p.as_ref().is_none_or(|p| hh.num_cols() % p.len() == 0) {
                                let k = hh.num_cols() - hh.num_rows();
                                let input = random_message(&mut rng, k);
                                check_encode(&enc, &hh, p.as_deref(), &input);
                            }
                        }
                    }
                }
            }
        }
        assert!(seen.iter().all(|&c| c > 10), "{seen:?}");

        // implementation names and puncturing patterns
        let alist = good.alist();
        for &name in IMPLEMENTATIONS {
            assert!(CDecoder::from_string(alist.as_bytes(), name.as_bytes(), b"").is_some());
            assert!(CDecoder::from_string(alist.as_bytes(), name.as_bytes(), b"0,1").is_some());
        }
        for &name in BAD_IMPLEMENTATIONS {
            assert!(CDecoder::from_string(alist.as_bytes(), name, b"").is_none());
            assert!(CDecoder::from_string(alist.as_bytes(), name, b"1,1").is_none());
            assert!(CDecoder::from_string(b"garbage", name, b"?").is_none());
        }
        for &pattern in BAD_PATTERNS {
            assert!(ref_pattern(pattern).is_err());
            assert!(CDecoder::from_string(alist.as_bytes(), b"Phif64", pattern).is_none());
            assert!(CEncoder::from_string(alist.as_bytes(), pattern).is_none());
        }
        // patterns that are well formed but cannot be used with this code only
        // fail when used, not at construction
        for pattern in [&b"0"[..], b"0,0,0", b"1,1,1,1,1", b"1,0,1,0,1,0,1,0,1,0,1,0,1"] {
            assert!(CDecoder::from_string(alist.as_bytes(), b"Phif64", pattern).is_some());
            assert!(CEncoder::from_string(alist.as_bytes(), pattern).is_some());
        }
        // many live handles at once, destroyed in a scrambled order
        let mut handles: Vec<CDecoder> = (0..40)
            .map(|j| {
                CDecoder::from_string(
                    alist.as_bytes(),
                    IMPLEMENTATIONS[j % IMPLEMENTATIONS.len()].as_bytes(),
                    if j % 2 == 0 { b"" } else { b"1,1,0" },
                )
                .unwrap()
            })
            .collect();
        let mut encoders: Vec<CEncoder> = (0..40)
            .map(|j| {
                CEncoder::from_string(alist.as_bytes(), if j % 2 == 0 { b"" } else { b"1,1,0" })
                    .unwrap()
            })
            .collect();
        while !handles.is_empty() {
            let j = rng.below(handles.len());
            drop(handles.swap_remove(j));
            let j = rng.below(encoders.len());
            let enc = encoders.swap_remove(j);
            if let Some(other) = encoders.first() {
                check_encode(other, &good, None, &random_message(&mut rng, 6));
            }
            drop(enc);
        }
    });
}

struct TempDir(PathBuf);

impl TempDir {
    fn new(tag: &str) -> TempDir {
        let dir = std::env::temp_dir().join(format!("c19p5_{}_{}", tag, std::process::id()));
        let _ = std::fs::remove_dir_all(&dir);
        std::fs::create_dir_all(&dir).unwrap();
        TempDir(dir)
    }
    fn file(&self, name: &str, contents: &[u8]) -> Vec<u8> {
        let path = self.0.join(name);
        std::fs::write(&path, contents).unwrap();
        path.to_str().unwrap().as_bytes().to_vec()
    }
}

impl Drop for TempDir {
    fn drop(&mut self) {
        let _ = std::fs::remove_dir_all(&self.0);
    }
}

fn file_cases(h: &SparseMatrix) -> Vec<Vec<u8>> {
    let mut cases = alist_string_cases(h);
    let good = h.alist();
    let lines: Vec<&str> = good.split('\n').collect();
    let tail = lines[2..].join("\n");
    // a long skipped second line made of multi-byte characters, shifted by a
    // few bytes so that the characters straddle every possible buffer boundary
    for target in [
        60usize, 127, 128, 255, 256, 511, 512, 1021, 1024, 2048, 4093, 4096, 8191, 8192, 8193,
        16384, 32768, 65536, 70001, 131072, 300000,
    ] {
        for shift in 0..5 {
            let mut filler = "a".repeat(shift);
            let glyphs = ["\u{e9}", "\u{20ac}", "\u{1f600}", "z\u{1f600}\u{e9}"];
            let glyph = glyphs[(target + shift) % glyphs.len()];
            while lines[0].len() + 1 + filler.len() < target + 7 {
                filler.push_str(glyph);
            }
            let text = format!("{}\n{}\n{}", lines[0], filler, tail);
            cases.push(text.clone().into_bytes());
            // the same with a damaged character at the end of the long line
            let mut bytes = format!("{}\n{}", lines[0], filler).into_bytes();
            bytes.pop();
            bytes.extend_from_slice(format!("\n{tail}").as_bytes());
            cases.push(bytes);
        }
    }
    // long stretches of white space and padding inside the data that matters
    cases.push(good.replace(' ', &" ".repeat(700)).into_bytes());
    cases.push(format!("{}{}", good, "\n".repeat(100000)).into_bytes());
    cases.push(format!("{}{}", good, " 1 2 3".repeat(50000)).into_bytes());
    // invalid UTF-8 in places that the alist parser never looks at
    let mut raw = good.clone().into_bytes();
    raw.extend_from_slice(&vec![b' '; 20000]);
    raw.push(0xC3); // truncated character at the very end of the file
    cases.push(raw);
    let mut raw = good.clone().into_bytes();
    raw.extend_from_slice(&vec![b'\n'; 9000]);
    raw.extend_from_slice(b"\xed\xa0\x80"); // surrogate
    raw.extend_from_slice(&vec![b'\n'; 9000]);
    cases.push(raw);
    let mut raw = good.clone().into_bytes();
    raw.extend_from_slice(b"\xc0\xaf"); // overlong
    cases.push(raw);
    let mut raw = good.clone().into_bytes();
    raw.extend_from_slice(b"\xf4\x90\x80\x80"); // above U+10FFFF
    cases.push(raw);
    let mut raw = good.clone().into_bytes();
    raw.extend_from_slice("\u{10ffff}\u{fffd}\u{0}".as_bytes()); // fine, NUL included
    cases.push(raw);
    cases.push(vec![0xEF, 0xBB, 0xBF]); // only a byte order mark
    let mut raw = vec![0xEF, 0xBB, 0xBF];
    raw.extend_from_slice(good.as_bytes()); // BOM glued to ncols
    cases.push(raw);
    cases
}

#[test]
fn constructors_from_files() {
    with_watchdog("constructors_from_files", || {
        let dir = TempDir::new("files");
        let mut rng = Rng::new(4);
        let good = dense_h(&mut rng, 12, 6);
        let singular = singular_h(&mut rng, 12, 6);
        let mut seen = [0usize; 4];
        let mut count = 0;
        for h in [&good, &singular] {
            for case in file_cases(h) {
                count += 1;
                let path = dir.file(&format!("case{count}.alist"), &case);
                let text = String::from_utf8(case.clone()).ok();
                for (implementation, puncturing) in [
                    (&b"Minstarapproxf32"[..], &b""[..]),
                    (b"HLPhif32", b"1,0,1"),
                    (b"Minstarapproxi9", b""),
                    (b"Phif64", b"1,,1"),
                ] {
                    let expect = expected_decoder(text.as_deref(), implementation, puncturing);
                    let got = CDecoder::from_file(&path, implementation, puncturing);
                    assert_eq!(got.is_some(), expect, "decoder for file case {count}");
                    seen[usize::from(expect)] += 1;
                    if let Some(mut dec) = got {
                        let hh = SparseMatrix::from_alist(text.as_deref().unwrap()).unwrap();
                        let p = ref_pattern(puncturing).unwrap();
                        let n = hh.num_cols();
                        if p.as_ref().is_none_or(|p| n % p.len() == 0) {
                            let len = match &p {
                                Some(p) => n / p.len() * p.iter().filter(|&&b| b).count(),
                                None => n,
                            };
                            let llrs: Vec<f32> =
                                (0..len).map(|_| (rng.gauss() + 0.8) as f32).collect();
                            let wide: Vec<f64> = llrs.iter().map(|&x| x as f64).collect();
                            let name = std::str::from_utf8(implementation).unwrap();
                            let reference = std::panic::catch_unwind(|| {
                                let mut twin = ref_decoder(&hh, name);
                                ref_decode(&mut twin, p.as_deref(), &wide, 6)
                            });
                            if let Ok(expected) = reference {
                                assert_eq!(dec.decode_f32(&llrs, n, 6), expected);
                            }
                        }
                    }
                }
                let in_scope = text
                    .as_deref()
                    .and_then(|t| SparseMatrix::from_alist(t).ok())
                    .map(|m| m.num_cols() >= m.num_rows() && m.num_rows() > 0)
                    .unwrap_or(true);
                if in_scope {
                    for puncturing in [&b""[..], b"1,0,1", b"1,,1"] {
                        let expect = expected_encoder(text.as_deref(), puncturing);
                        let got = CEncoder::from_file(&path, puncturing);
                        assert_eq!(got.is_some(), expect, "encoder for file case {count}");
                        seen[2 + usize::from(expect)] += 1;
                        if let Some(enc) = got {
                            let hh = SparseMatrix::from_alist(text.as_deref().unwrap()).unwrap();
                            let p = ref_pattern(puncturing).unwrap();
                            if p.as_ref().is_none_or(|p| hh.num_cols() % p.len() == 0) {
                                let k = hh.num_cols() - hh.num_rows();
                                let input = random_message(&mut rng, k);
                                check_encode(&enc, &hh, p.as_deref(), &input);
                            }
                        }
                    }
                }
            }
        }
        assert!(seen.iter().all(|&c| c > 50), "{seen:?}");

        // unreadable files
        let valid = dir.file("valid.alist", good.alist().as_bytes());
        assert!(CDecoder::from_file(&valid, b"Phif64", b"").is_some());
        assert!(CEncoder::from_file(&valid, b"").is_some());
        let missing = dir.0.join("missing.alist").to_str().unwrap().as_bytes().to_vec();
        let directory = dir.0.to_str().unwrap().as_bytes().to_vec();
        let mut nested = valid.clone();
        nested.extend_from_slice(b"/child");
        let mut odd = valid.clone();
        odd.push(0xFF); // not UTF-8: no such file
        for path in [&missing, &directory, &nested, &odd, &b""[..].to_vec()] {
            assert!(CDecoder::from_file(path, b"Phif64", b"").is_none());
            assert!(CDecoder::from_file(path, b"Nope", b"2").is_none());
            assert!(CEncoder::from_file(path, b"").is_none());
            assert!(CEncoder::from_file(path, b"1,0").is_none());
        }
        // the contents of the file at construction time are what counts
        let path = dir.file("changing.alist", good.alist().as_bytes());
        let enc = CEncoder::from_file(&path, b"1,1,0").unwrap();
        let mut dec = CDecoder::from_file(&path, b"Aminstarf64", b"1,1,0").unwrap();
        std::fs::write(dir.0.join("changing.alist"), b"not an alist any more").unwrap();
        assert!(CEncoder::from_file(&path, b"1,1,0").is_none());
        assert!(CDecoder::from_file(&path, b"Aminstarf64", b"1,1,0").is_none());
        std::fs::remove_file(dir.0.join("changing.alist")).unwrap();
        let p = [true, true, false];
        for _ in 0..5 {
            let input = random_message(&mut rng, 6);
            check_encode(&enc, &good, Some(&p), &input);
            let word = ref_systematic(&good, &input).unwrap();
            let llrs = noisy_llrs(&mut rng, &ref_puncture(&p, &word), 0.6);
            let (ret, out) = dec.decode_f64(&llrs, 12, 20);
            let mut twin = ref_decoder(&good, "Aminstarf64");
            assert_eq!((ret, out), ref_decode(&mut twin, Some(&p), &llrs, 20));
        }
    });
}

#[test]
fn handles_are_usable_from_other_threads_one_at_a_time() {
    // a handle is created on one thread, used on another and destroyed on a third
    with_watchdog("handles_move_between_threads", || {
        let mut rng = Rng::new(5);
        let h = staircase_h(&mut rng, 20, 10);
        let alist = h.alist();
        struct SendPtr(*mut c_void);
        unsafe impl Send for SendPtr {}
        let (a, i, p) = (cstr(alist.as_bytes()), cstr(b"HLTanhf64"), cstr(b"1,1,1,1,0"));
        let dec = SendPtr(unsafe {
            ldpc_toolbox_decoder_ctor_alist_string(a.as_ptr(), i.as_ptr(), p.as_ptr())
        });
        let enc =
            SendPtr(unsafe { ldpc_toolbox_encoder_ctor_alist_string(a.as_ptr(), p.as_ptr()) });
        assert!(!dec.0.is_null() && !enc.0.is_null());
        let message = random_message(&mut rng, 10);
        let word = ref_systematic(&h, &message).unwrap();
        let pattern = [true, true, true, true, false];
        let expected = ref_puncture(&pattern, &word);
        let h2 = h.clone();
        let (dec, enc) = std::thread::spawn(move || {
            let (dec, enc) = (dec, enc);
            let mut out = vec![9u8; expected.len()];
            unsafe {
                ldpc_toolbox_encoder_encode(
                    enc.0,
                    out.as_mut_ptr(),
                    out.len(),
                    message.as_ptr(),
                    message.len(),
                )
            };
            assert_eq!(out, expected);
            let llrs: Vec<f64> = out.iter().map(|&b| if b == 1 { -2.5 } else { 2.5 }).collect();
            let mut decoded = vec![7u8; 20];
            let ret = unsafe {
                ldpc_toolbox_decoder_decode_f64(
                    dec.0,
                    decoded.as_mut_ptr(),
                    decoded.len(),
                    llrs.as_ptr(),
                    llrs.len(),
                    30,
                )
            };
            let mut twin = ref_decoder(&h2, "HLTanhf64");
            assert_eq!((ret, decoded), ref_decode(&mut twin, Some(&pattern), &llrs, 30));
            (dec, enc)
        })
        .join()
        .unwrap();
        std::thread::spawn(move || {
            let (dec, enc) = (dec, enc);
            unsafe {
                ldpc_toolbox_decoder_dtor(dec.0);
                ldpc_toolbox_encoder_dtor(enc.0);
            }
        })
        .join()
        .unwrap();
    });
}
