// Demo for change 3 (decoder arithmetics: the scratch buffers kept inside the
// arithmetic objects - phis, tanhs, minstars - are rebuilt with clear + push
// for every check node instead of being grown and partially overwritten, and
// the first passes / min* reductions are shared between the flooding and the
// horizontal layered entry points).
//
// The arithmetic objects are exercised directly through the public
// `DecoderArithmetic` trait with check nodes whose degree jumps up and down
// (so that a grow-only scratch buffer would keep values of bigger, earlier
// nodes around), comparing a long-lived arithmetic object with a fresh one,
// and through complete decoders on matrices with very uneven row weights,
// comparing every decode call on a long-lived decoder with the same call on a
// freshly built decoder.

use ldpc_toolbox::decoder::{
    DecoderOutput, LdpcDecoder, Message, SentMessage,
    arithmetic::*,
    factory::{DecoderFactory, DecoderImplementation},
    flooding, horizontal_layered,
};
use ldpc_toolbox::sparse::SparseMatrix;
use std::panic::{AssertUnwindSafe, catch_unwind};

const FLOODING: &[&str] = &[
    "Phif64",
    "Phif32",
    "Tanhf64",
    "Tanhf32",
    "Minstarapproxf64",
    "Minstarapproxf32",
    "Minstarapproxi8",
    "Minstarapproxi8Jones",
    "Minstarapproxi8PartialHardLimit",
    "Minstarapproxi8JonesPartialHardLimit",
    "Minstarapproxi8Deg1Clip",
    "Minstarapproxi8JonesDeg1Clip",
    "Minstarapproxi8PartialHardLimitDeg1Clip",
    "Minstarapproxi8JonesPartialHardLimitDeg1Clip",
    "Aminstarf64",
    "Aminstarf32",
    "Aminstari8",
    "Aminstari8Jones",
    "Aminstari8PartialHardLimit",
    "Aminstari8JonesPartialHardLimit",
    "Aminstari8Deg1Clip",
    "Aminstari8JonesDeg1Clip",
    "Aminstari8PartialHardLimitDeg1Clip",
    "Aminstari8JonesPartialHardLimitDeg1Clip",
];

const LAYERED: &[&str] = &[
    "HLPhif64",
    "HLPhif32",
    "HLTanhf64",
    "HLTanhf32",
    "HLMinstarapproxf64",
    "HLMinstarapproxf32",
    "HLMinstarapproxi8",
    "HLMinstarapproxi8PartialHardLimit",
    "HLAminstarf64",
    "HLAminstarf32",
    "HLAminstari8",
    "HLAminstari8PartialHardLimit",
];

// Small deterministic generator (splitmix64), so that the test does not depend
// on any random number crate.
struct Gen(u64);

impl Gen {
    fn next(&mut self) -> u64 {
        self.0 = self.0.wrapping_add(0x9e37_79b9_7f4a_7c15);
        let mut z = self.0;
        z = (z ^ (z >> 30)).wrapping_mul(0xbf58_476d_1ce4_e5b9);
        z = (z ^ (z >> 27)).wrapping_mul(0x94d0_49bb_1331_11eb);
        z ^ (z >> 31)
    }

    fn below(&mut self, n: u64) -> u64 {
        self.next() % n
    }

    fn unit(&mut self) -> f64 {
        (self.next() >> 11) as f64 / (1u64 << 53) as f64
    }

    fn sign(&mut self) -> f64 {
        if self.below(2) == 0 { 1.0 } else { -1.0 }
    }
}

fn johnson() -> SparseMatrix {
    // Example 2.5 in Sarah J. Johnson - Iterative Error Correction
    let mut h = SparseMatrix::new(4, 6);
    h.insert_row(0, [0, 1, 3].iter());
    h.insert_row(1, [1, 2, 4].iter());
    h.insert_row(2, [0, 4, 5].iter());
    h.insert_row(3, [2, 3, 5].iter());
    h
}

fn irregular() -> SparseMatrix {
    // Row weights 2..6, columns of weight 0 (column 9), 1, 2, 3 and 4. The
    // entries of the rows are deliberately not sorted.
    let mut h = SparseMatrix::new(5, 10);
    h.insert_row(0, [3, 0, 1].iter());
    h.insert_row(1, [8, 2].iter());
    h.insert_row(2, [7, 6, 5, 4, 1, 0].iter());
    h.insert_row(3, [0, 2, 4, 6].iter());
    h.insert_row(4, [5, 0, 3, 7, 2].iter());
    h
}

fn pseudo_random(rows: usize, cols: usize, seed: u64) -> SparseMatrix {
    let mut g = Gen(seed);
    let mut h = SparseMatrix::new(rows, cols);
    for r in 0..rows {
        let weight = 2 + g.below(5) as usize;
        while h.row_weight(r) < weight {
            h.insert(r, g.below(cols as u64) as usize);
        }
    }
    h
}

fn uneven_rows(seed: u64) -> SparseMatrix {
    // Row weights jump between 2 and 24, so that the check nodes processed in
    // a row have very different degrees.
    let weights = [24, 2, 3, 17, 2, 9, 2, 24, 5, 2];
    let cols = 30;
    let mut g = Gen(seed);
    let mut h = SparseMatrix::new(weights.len(), cols);
    for (r, &weight) in weights.iter().enumerate() {
        while h.row_weight(r) < weight {
            h.insert(r, g.below(cols as u64) as usize);
        }
    }
    h
}

fn with_degree_one_check() -> SparseMatrix {
    // Row 2 has a single entry: the min* and A-Min* arithmetics panic when
    // they process it, the phi and tanh arithmetics do not. Row 4 is empty.
    let mut h = SparseMatrix::new(5, 8);
    h.insert_row(0, [0, 1, 2, 3].iter());
    h.insert_row(1, [2, 4, 5].iter());
    h.insert_row(2, [6].iter());
    h.insert_row(3, [1, 5, 7, 6].iter());
    h
}

fn llr_vector(g: &mut Gen, n: usize, previous: &[f64]) -> Vec<f64> {
    match g.below(10) {
        // all-zeros codeword received without errors
        0 => (0..n).map(|_| 0.5 + 4.0 * g.unit()).collect(),
        // all-zeros codeword with one or two moderately wrong positions
        1 => {
            let mut v: Vec<f64> = (0..n).map(|_| 1.0 + 2.0 * g.unit()).collect();
            for _ in 0..1 + g.below(2) {
                let j = g.below(n as u64) as usize;
                v[j] = -v[j];
            }
            v
        }
        // noise
        2 | 3 => (0..n).map(|_| 3.0 * (g.unit() - 0.4)).collect(),
        // everything points to one
        4 => (0..n).map(|_| -0.1 - 20.0 * g.unit()).collect(),
        // huge magnitudes
        5 => (0..n).map(|_| g.sign() * 1e30).collect(),
        // tiny magnitudes and signed zeros
        6 => (0..n)
            .map(|_| match g.below(4) {
                0 => 0.0,
                1 => -0.0,
                2 => g.sign() * 1e-30,
                _ => g.sign() * 1e-300,
            })
            .collect(),
        // a mixture of everything
        7 => (0..n)
            .map(|_| match g.below(5) {
                0 => g.sign() * 1e30,
                1 => 0.0,
                2 => g.sign() * 1e-12,
                3 => g.sign() * 15.875,
                _ => 10.0 * (g.unit() - 0.5),
            })
            .collect(),
        // strongly saturating values for the 8 bit quantizer
        8 => (0..n).map(|_| g.sign() * (15.0 + g.unit())).collect(),
        // the previous frame again
        _ => {
            if previous.len() == n {
                previous.to_vec()
            } else {
                (0..n).map(|_| g.sign()).collect()
            }
        }
    }
}

fn max_iterations(g: &mut Gen) -> usize {
    [0, 0, 0, 1, 1, 2, 3, 5, 10, 25][g.below(10) as usize]
}

type Outcome = Option<Result<DecoderOutput, DecoderOutput>>;

fn call(decoder: &mut dyn LdpcDecoder, llrs: &[f64], max_iter: usize) -> Outcome {
    // None stands for a panic inside decode
    catch_unwind(AssertUnwindSafe(|| decoder.decode(llrs, max_iter))).ok()
}

fn digest(acc: &mut u64, outcome: &Outcome) {
    let mut put = |b: u64| {
        *acc ^= b;
        *acc = acc.wrapping_mul(0x0100_0000_01b3);
    };
    match outcome {
        None => put(0xff),
        Some(r) => {
            let (tag, o) = match r {
                Ok(o) => (1, o),
                Err(o) => (2, o),
            };
            put(tag);
            put(o.iterations as u64);
            for &b in &o.codeword {
                put(u64::from(b));
            }
        }
    }
}

fn check_histories(
    names: &[&str],
    h: &SparseMatrix,
    seed: u64,
    histories: usize,
    length: usize,
) -> (u64, usize) {
    let n = h.num_cols();
    let mut acc = 0xcbf2_9ce4_8422_2325u64;
    let mut panics = 0;
    for (k, name) in names.iter().enumerate() {
        let implementation: DecoderImplementation = name.parse().unwrap();
        for history in 0..histories {
            let mut g = Gen(seed ^ ((k as u64) << 32) ^ history as u64);
            let mut reused = implementation.build_decoder(h.clone());
            let mut previous = Vec::new();
            for step in 0..length {
                let llrs = llr_vector(&mut g, n, &previous);
                let max_iter = max_iterations(&mut g);
                let mut fresh = implementation.build_decoder(h.clone());
                let expected = call(fresh.as_mut(), &llrs, max_iter);
                let got = call(reused.as_mut(), &llrs, max_iter);
                assert_eq!(
                    got, expected,
                    "{name}: history {history}, call {step}, max_iter {max_iter}, llrs {llrs:?}"
                );
                if let Some(r) = &got {
                    let (Ok(o) | Err(o)) = r;
                    assert_eq!(o.codeword.len(), n);
                    assert!(o.iterations <= max_iter);
                    if r.is_err() {
                        assert_eq!(o.iterations, max_iter);
                    }
                } else {
                    panics += 1;
                }
                digest(&mut acc, &got);
                previous = llrs;
            }
        }
    }
    (acc, panics)
}

#[test]
fn decoders_reused_equal_fresh() {
    let mut total = 0u64;
    for (j, h) in [
        johnson(),
        irregular(),
        uneven_rows(1),
        uneven_rows(2),
        pseudo_random(12, 24, 3),
    ]
    .iter()
    .enumerate()
    {
        let (d, panics) = check_histories(FLOODING, h, 0x1000 + j as u64, 3, 20);
        assert_eq!(panics, 0);
        total ^= d.rotate_left(j as u32);
        let (d, panics) = check_histories(LAYERED, h, 0x2000 + j as u64, 3, 20);
        assert_eq!(panics, 0);
        total ^= d.rotate_left(8 + j as u32);
    }
    println!("digest decoders {total:016x}");
}

#[test]
fn calls_that_panic_leave_no_trace() {
    // A decode call that panics inside the arithmetic (degree one check node,
    // reached after some bigger check nodes have been processed) must not
    // influence the following calls either.
    let h = with_degree_one_check();
    let (d1, panics1) = check_histories(FLOODING, &h, 0x3000, 2, 20);
    let (d2, panics2) = check_histories(LAYERED, &h, 0x3001, 2, 20);
    assert!(panics1 > 0);
    assert!(panics2 > 0);
    println!("digest panics {d1:016x} {d2:016x} {panics1} {panics2}");
}

fn one_decoder_object_many_matrices_worth_of_degrees<A>(make: impl Fn() -> A)
where
    A: DecoderArithmetic + Clone,
{
    // The arithmetic object lives inside the decoder; clone a used decoder
    // (scratch buffers included) and go on with both.
    let h = uneven_rows(9);
    let n = h.num_cols();
    let mut g = Gen(79);
    let mut flood = flooding::Decoder::new(h.clone(), make());
    let mut layered = horizontal_layered::Decoder::new(h.clone(), make());
    let mut previous = Vec::new();
    for step in 0..30 {
        let llrs = llr_vector(&mut g, n, &previous);
        let max_iter = max_iterations(&mut g);
        let expected = flooding::Decoder::new(h.clone(), make()).decode(&llrs, max_iter);
        if step % 5 == 4 {
            assert_eq!(flood.clone().decode(&llrs, max_iter), expected);
        }
        assert_eq!(flood.decode(&llrs, max_iter), expected);
        let expected = horizontal_layered::Decoder::new(h.clone(), make()).decode(&llrs, max_iter);
        if step % 5 == 4 {
            assert_eq!(layered.clone().decode(&llrs, max_iter), expected);
        }
        assert_eq!(layered.decode(&llrs, max_iter), expected);
        previous = llrs;
    }
}

#[test]
fn concrete_decoders_and_clones() {
    one_decoder_object_many_matrices_worth_of_degrees(Phif64::new);
    one_decoder_object_many_matrices_worth_of_degrees(Phif32::new);
    one_decoder_object_many_matrices_worth_of_degrees(Tanhf64::new);
    one_decoder_object_many_matrices_worth_of_degrees(Tanhf32::new);
    one_decoder_object_many_matrices_worth_of_degrees(Minstarapproxf64::new);
    one_decoder_object_many_matrices_worth_of_degrees(Minstarapproxf32::new);
    one_decoder_object_many_matrices_worth_of_degrees(Minstarapproxi8::new);
    one_decoder_object_many_matrices_worth_of_degrees(Minstarapproxi8PartialHardLimit::new);
    one_decoder_object_many_matrices_worth_of_degrees(Aminstarf64::new);
    one_decoder_object_many_matrices_worth_of_degrees(Aminstari8Jones::new);
}

// ---- the arithmetic objects on their own ----

fn message_value(g: &mut Gen) -> f64 {
    match g.below(12) {
        0 => 0.0,
        1 => -0.0,
        2 => g.sign() * 1e30,
        3 => g.sign() * 1e-30,
        4 => g.sign() * 15.875,
        5 => g.sign() * 0.0625,
        6 => g.sign() * 40.0,
        _ => 12.0 * (g.unit() - 0.5),
    }
}

fn fnv(acc: &mut u64, text: &str) {
    for b in text.bytes() {
        *acc ^= u64::from(b);
        *acc = acc.wrapping_mul(0x0100_0000_01b3);
    }
}

// Runs the check node rule of the flooding schedule. Returns the messages sent
// (in the order in which they are sent) as text, or None if the arithmetic
// panics.
fn flooding_check_node<A: DecoderArithmetic>(a: &mut A, values: &[f64]) -> Option<String> {
    let incoming: Vec<Message<A::VarMessage>> = values
        .iter()
        .enumerate()
        .map(|(j, &x)| Message {
            // sources neither sorted nor contiguous
            source: (7 * j + 3) % (2 * values.len() + 1),
            value: a.llr_to_var_message(a.input_llr_quantize(x)),
        })
        .collect();
    catch_unwind(AssertUnwindSafe(|| {
        let mut sent = Vec::new();
        a.send_check_messages(&incoming, |m| sent.push(m));
        assert_eq!(sent.len(), incoming.len());
        format!("{sent:?}")
    }))
    .ok()
}

// Runs the check node rule of the horizontal layered schedule three times in
// a row on the same check node (the first time with Rcv = 0). Returns the
// final Rcv's and Qv's as text, or None if the arithmetic panics.
fn layered_check_node<A: DecoderArithmetic>(a: &mut A, values: &[f64]) -> Option<String> {
    let num_vars = 2 * values.len() + 1;
    let mut vars: Vec<A::VarLlr> = (0..num_vars)
        .map(|j| {
            let x = values.get(j % values.len().max(1)).copied().unwrap_or(1.0);
            a.llr_to_var_llr(a.input_llr_quantize(x))
        })
        .collect();
    let mut rcv: Vec<SentMessage<A::CheckMessage>> = (0..values.len())
        .map(|j| SentMessage {
            dest: (7 * j + 3) % num_vars,
            value: Default::default(),
        })
        .collect();
    catch_unwind(AssertUnwindSafe(|| {
        let mut text = String::new();
        for _ in 0..3 {
            a.update_check_messages_and_vars(&mut rcv, &mut vars);
            text += &format!("{rcv:?} {vars:?};");
        }
        text
    }))
    .ok()
}

fn flooding_variable_node<A: DecoderArithmetic>(a: &mut A, values: &[f64]) -> String {
    let input = a.input_llr_quantize(values.first().copied().unwrap_or(0.5));
    // check messages of the right type are obtained from a check node
    let mut produced: Vec<SentMessage<A::CheckMessage>> = Vec::new();
    if values.len() >= 2 {
        let incoming: Vec<Message<A::VarMessage>> = values
            .iter()
            .enumerate()
            .map(|(j, &x)| Message {
                source: j,
                value: a.llr_to_var_message(a.input_llr_quantize(x)),
            })
            .collect();
        a.send_check_messages(&incoming, |m| produced.push(m));
    }
    let incoming: Vec<Message<A::CheckMessage>> = produced
        .iter()
        .map(|m| Message {
            source: m.dest,
            value: m.value,
        })
        .collect();
    let mut sent = Vec::new();
    let llr = a.send_var_messages(input, &incoming, |m| sent.push(m));
    format!("{llr:?} {sent:?}")
}

const DEGREES: &[usize] = &[2, 3, 2, 40, 2, 7, 3, 19, 2, 2, 64, 5, 1, 3, 0, 6, 2, 11];

fn arithmetic_histories<A: DecoderArithmetic>(name: &str, make: impl Fn() -> A) -> u64 {
    let mut acc = 0xcbf2_9ce4_8422_2325u64;
    for history in 0..3u64 {
        let mut g = Gen(0xabc0 + history);
        let mut reused = make();
        for step in 0..60 {
            let degree = if history == 0 {
                // fixed tour through the degrees: big, small, bigger, ...
                DEGREES[step % DEGREES.len()]
            } else {
                DEGREES[g.below(DEGREES.len() as u64) as usize]
            };
            let values: Vec<f64> = (0..degree).map(|_| message_value(&mut g)).collect();
            let which = g.below(4);
            if which != 1 {
                let expected = flooding_check_node(&mut make(), &values);
                let got = flooding_check_node(&mut reused, &values);
                assert_eq!(got, expected, "{name}: flooding check node, step {step}");
                fnv(&mut acc, got.as_deref().unwrap_or("panic"));
            }
            if which != 0 {
                let expected = layered_check_node(&mut make(), &values);
                let got = layered_check_node(&mut reused, &values);
                assert_eq!(got, expected, "{name}: layered check node, step {step}");
                fnv(&mut acc, got.as_deref().unwrap_or("panic"));
            }
            if which == 3 && degree >= 2 {
                // none of the arithmetics panics here (degree >= 2 and values
                // that are never NaN), unless the check node did above
                if flooding_check_node(&mut make(), &values).is_some() {
                    let expected = flooding_variable_node(&mut make(), &values);
                    let got = flooding_variable_node(&mut reused, &values);
                    assert_eq!(got, expected, "{name}: variable node, step {step}");
                    fnv(&mut acc, &got);
                }
            }
        }
    }
    acc
}

macro_rules! all_arithmetics {
    ($($ty:ident),+ $(,)?) => {
        #[test]
        fn arithmetic_objects_reused_equal_fresh() {
            let mut total = 0u64;
            $(
                let d = arithmetic_histories(stringify!($ty), $ty::new);
                total = total.rotate_left(5) ^ d;
                // Default is the same as new()
                let d2 = arithmetic_histories(stringify!($ty), <$ty as Default>::default);
                assert_eq!(d, d2);
            )+
            println!("digest arithmetics {total:016x}");
        }
    };
}

all_arithmetics!(
    Phif64,
    Phif32,
    Tanhf64,
    Tanhf32,
    Minstarapproxf64,
    Minstarapproxf32,
    Minstarapproxi8,
    Minstarapproxi8Jones,
    Minstarapproxi8PartialHardLimit,
    Minstarapproxi8JonesPartialHardLimit,
    Minstarapproxi8Deg1Clip,
    Minstarapproxi8JonesDeg1Clip,
    Minstarapproxi8PartialHardLimitDeg1Clip,
    Minstarapproxi8JonesPartialHardLimitDeg1Clip,
    Aminstarf64,
    Aminstarf32,
    Aminstari8,
    Aminstari8Jones,
    Aminstari8PartialHardLimit,
    Aminstari8JonesPartialHardLimit,
    Aminstari8Deg1Clip,
    Aminstari8JonesDeg1Clip,
    Aminstari8PartialHardLimitDeg1Clip,
    Aminstari8JonesPartialHardLimitDeg1Clip,
);

#[test]
fn check_node_rules_known_values() {
    // Spot values that do not depend on the floating point library: with
    // saturated inputs the 8 bit min* of (127, 127) is 127 - table[0], and
    // table[0] = round(8 ln 2) = 6; the sign is the product of the signs of
    // the other messages.
    let mut a = Minstarapproxi8::new();
    // a big node first
    let big: Vec<f64> = (0..50)
        .map(|j| if j % 3 == 0 { -1.0 } else { 2.0 })
        .collect();
    assert!(flooding_check_node(&mut a, &big).is_some());
    let incoming = [
        Message {
            source: 4,
            value: 127i8,
        },
        Message {
            source: 9,
            value: -127,
        },
        Message {
            source: 2,
            value: 127,
        },
    ];
    let mut sent = Vec::new();
    a.send_check_messages(&incoming, |m| sent.push(m));
    assert_eq!(
        sent,
        vec![
            SentMessage {
                dest: 4,
                value: -121i8
            },
            SentMessage {
                dest: 9,
                value: 121
            },
            SentMessage {
                dest: 2,
                value: -121
            },
        ]
    );
    // degree two: each message is forwarded to the other node unchanged by
    // every arithmetic of the min* family
    let mut a = Minstarapproxf64::new();
    assert!(flooding_check_node(&mut a, &big).is_some());
    let incoming = [
        Message {
            source: 0,
            value: 2.5f64,
        },
        Message {
            source: 1,
            value: -0.75,
        },
    ];
    let mut sent = Vec::new();
    a.send_check_messages(&incoming, |m| sent.push(m));
    assert_eq!(
        sent,
        vec![
            SentMessage {
                dest: 0,
                value: -0.75f64
            },
            SentMessage {
                dest: 1,
                value: 2.5
            },
        ]
    );
}
