#!/bin/sh
# Demonstration for C20 (encode part): the encode subcommand writes, for each
# complete input word, exactly the (punctured) codeword and nothing more, and
# I/O or argument problems give a non-zero exit status with a message and no
# panic.
#
# usage: demo.sh <checkout>      (binary at <checkout>/target/debug/ldpc-toolbox)
#
# Everything is checked against an independent model written in awk: the
# systematic part of each codeword must be the input word (bytes equal to 1 are
# ones, every other byte is a zero), the complete codeword must satisfy all
# the parity checks of the alist, and the punctured output must be the
# unpunctured output with the punctured blocks removed.

BIN="$1/target/debug/ldpc-toolbox"
[ -x "$BIN" ] || { echo "binary not found: $BIN" >&2; exit 2; }
T=$(mktemp -d "${TMPDIR:-/tmp}/c20p3-1.XXXXXX") || exit 2
trap 'rm -rf "$T"' EXIT INT TERM
FAILS=0

fail() {
    echo "FAIL: $*" >&2
    FAILS=$((FAILS + 1))
}

# run with a time limit when timeout(1) is available
if command -v timeout >/dev/null 2>&1; then
    run() { timeout 120 "$@"; }
else
    run() { "$@"; }
fi

# bytes of a file as decimal numbers, one per line
bytes() {
    od -An -v -tu1 "$1" | tr -s ' ' '\n' | sed '/^$/d'
}

size() {
    wc -c < "$1" | tr -d ' '
}

# expect_codewords <alist> <input> <output> <n> <k>
# checks the unpunctured output of encode against the model
expect_codewords() {
    bytes "$2" > "$T/in.txt"
    bytes "$3" > "$T/out.txt"
    awk -v n="$4" -v k="$5" -v alist="$1" -v infile="$T/in.txt" -v outfile="$T/out.txt" '
    BEGIN {
        getline line < alist; split(line, a, " "); ncols = a[1]; nrows = a[2]
        if (ncols != n || ncols - nrows != k) { print "bad dimensions"; exit 1 }
        getline line < alist; getline line < alist; getline line < alist
        for (c = 1; c <= ncols; c++) getline line < alist
        for (r = 1; r <= nrows; r++) {
            getline line < alist
            m = split(line, a, " ")
            cnt[r] = 0
            for (j = 1; j <= m; j++) if (a[j] != 0) { cnt[r]++; row[r, cnt[r]] = a[j] }
        }
        nin = 0
        while ((getline line < infile) > 0) { inb[nin] = (line == 1) ? 1 : 0; nin++ }
        nout = 0
        while ((getline line < outfile) > 0) { outb[nout] = line; nout++ }
        words = int(nin / k)
        if (nout != words * n) { print "output has " nout " bytes, expected " words * n; exit 1 }
        for (w = 0; w < words; w++) {
            for (j = 0; j < n; j++) {
                v = outb[w * n + j]
                if (v != 0 && v != 1) { print "word " w ": output byte " v; exit 1 }
            }
            for (j = 0; j < k; j++)
                if (outb[w * n + j] != inb[w * k + j]) { print "word " w ": not systematic at " j; exit 1 }
            for (r = 1; r <= nrows; r++) {
                s = 0
                for (j = 1; j <= cnt[r]; j++) s += outb[w * n + row[r, j] - 1]
                if (s % 2 != 0) { print "word " w ": parity check " r " fails"; exit 1 }
            }
        }
        exit 0
    }' || fail "codewords of $3 are wrong (alist $1, input $2)"
}

# expect_punctured <full output> <punctured output> <n> <pattern>
expect_punctured() {
    bytes "$1" > "$T/full.txt"
    bytes "$2" > "$T/punct.txt"
    awk -v n="$3" -v pattern="$4" -v fullfile="$T/full.txt" -v punctfile="$T/punct.txt" '
    BEGIN {
        np = split(pattern, p, ",")
        if (n % np != 0) { print "bad pattern"; exit 1 }
        bs = n / np
        nfull = 0
        while ((getline line < fullfile) > 0) { full[nfull] = line; nfull++ }
        npunct = 0
        while ((getline line < punctfile) > 0) { punct[npunct] = line; npunct++ }
        words = nfull / n
        t = 0
        for (w = 0; w < words; w++)
            for (b = 1; b <= np; b++)
                if (p[b] == 1)
                    for (j = 0; j < bs; j++) {
                        if (t >= npunct) { print "punctured output too short"; exit 1 }
                        if (punct[t] != full[w * n + (b - 1) * bs + j]) { print "mismatch at " t; exit 1 }
                        t++
                    }
        if (t != npunct) { print "punctured output has " npunct " bytes, expected " t; exit 1 }
        exit 0
    }' || fail "punctured output $2 is wrong (pattern $4)"
}

# expect_error <name> <command...>: non-zero exit, a message, no panic
expect_error() {
    name="$1"
    shift
    run "$@" > "$T/stdout.txt" 2> "$T/stderr.txt"
    status=$?
    [ "$status" -ne 0 ] || fail "$name: exit status is zero"
    [ "$status" -lt 100 ] || fail "$name: exit status $status (panic, signal or timeout)"
    [ -s "$T/stderr.txt" ] || fail "$name: no message"
    if grep -q -i "panicked" "$T/stderr.txt"; then fail "$name: panic"; fi
}

# pseudorandom input of $1 bytes with values 0 and 1 (deterministic)
random_bits() {
    awk -v count="$1" -v seed="$2" 'BEGIN {
        x = seed
        for (j = 0; j < count; j++) {
            x = (x * 69069 + 12345) % 2147483648
            printf "%s", (int(x / 65536) % 2 == 1) ? "\\001" : "\\000"
        }
        printf "\n"
    }' > "$T/fmt.txt"
    # the format is expanded by printf(1) in pieces to keep arguments short
    fold -w 4000 "$T/fmt.txt" | while IFS= read -r piece; do printf "$piece"; done
}

# ---------------------------------------------------------------- codes
# a small code and a medium code from PEG, made encodable with systematic, and
# a DVB-S2 short code (staircase encoder)
run "$BIN" peg 6 12 3 0 > "$T/peg12.raw" || fail "peg 6 12"
run "$BIN" systematic "$T/peg12.raw" > "$T/peg12.alist" || fail "systematic peg12"
run "$BIN" peg 50 100 3 1 > "$T/peg100.raw" || fail "peg 50 100"
run "$BIN" systematic "$T/peg100.raw" > "$T/peg100.alist" || fail "systematic peg100"
run "$BIN" dvbs2 --rate 1/2 --short > "$T/dvb.alist" || fail "dvbs2"

# ---------------------------------------------------------------- small code (n = 12, k = 6)
# all the 64 information words, in order
awk 'BEGIN { for (w = 0; w < 64; w++) { x = w; for (j = 0; j < 6; j++) { printf "%s", (x % 2) ? "\\001" : "\\000"; x = int(x / 2) } } }' > "$T/fmt64.txt"
printf "$(cat "$T/fmt64.txt")" > "$T/all64.bin"
[ "$(size "$T/all64.bin")" -eq 384 ] || fail "could not prepare input"
run "$BIN" encode "$T/peg12.alist" "$T/all64.bin" "$T/all64.out" || fail "encode all64"
expect_codewords "$T/peg12.alist" "$T/all64.bin" "$T/all64.out" 12 6
for pattern in 1,1,1,0 1,0 0,1 1,1,1 1 1,0,1,1,0,1 0,0,1,0,0,0,0,0,0,0,0,1 0,0; do
    run "$BIN" encode "$T/peg12.alist" "$T/all64.bin" "$T/all64.p" --puncturing "$pattern" \
        || fail "encode all64 $pattern"
    expect_punctured "$T/all64.out" "$T/all64.p" 12 "$pattern"
done

# trailing incomplete words are ignored: every length from 0 to 13 bytes
for len in 0 1 2 3 4 5 6 7 8 9 10 11 12 13; do
    head -c "$len" "$T/all64.bin" > "$T/short.bin"
    # garbage from a previous run must not survive in the output file
    printf 'garbage garbage garbage garbage garbage' > "$T/short.out"
    run "$BIN" encode "$T/peg12.alist" "$T/short.bin" "$T/short.out" || fail "encode $len bytes"
    [ "$(size "$T/short.out")" -eq $((len / 6 * 12)) ] || fail "output size for $len input bytes"
    expect_codewords "$T/peg12.alist" "$T/short.bin" "$T/short.out" 12 6
    run "$BIN" encode "$T/peg12.alist" "$T/short.bin" "$T/short.p" --puncturing 1,1,0 \
        || fail "encode $len bytes punctured"
    [ "$(size "$T/short.p")" -eq $((len / 6 * 8)) ] || fail "punctured output size for $len input bytes"
    expect_punctured "$T/short.out" "$T/short.p" 12 1,1,0
done

# bytes that are not 1 are taken as zeros
printf '\002\001\377\000\061\001\001\001\001\001\001\001\200\003\004\005\006\007' > "$T/odd.bin"
run "$BIN" encode "$T/peg12.alist" "$T/odd.bin" "$T/odd.out" || fail "encode odd"
expect_codewords "$T/peg12.alist" "$T/odd.bin" "$T/odd.out" 12 6

# many words (much more than what fits in any internal queue)
random_bits 60000 7 > "$T/many.bin"
[ "$(size "$T/many.bin")" -eq 60000 ] || fail "could not prepare long input"
run "$BIN" encode "$T/peg12.alist" "$T/many.bin" "$T/many.out" || fail "encode many"
expect_codewords "$T/peg12.alist" "$T/many.bin" "$T/many.out" 12 6
run "$BIN" encode "$T/peg12.alist" "$T/many.bin" "$T/many.p" --puncturing 1,0,1,1 || fail "encode many punctured"
expect_punctured "$T/many.out" "$T/many.p" 12 1,0,1,1

# the input arrives slowly through a pipe, in pieces that are not words
if mkfifo "$T/fifo" 2>/dev/null; then
    (
        head -c 4 "$T/all64.bin"
        sleep 1
        tail -c +5 "$T/all64.bin" | head -c 15
        sleep 1
        tail -c +20 "$T/all64.bin" | head -c 7
    ) > "$T/fifo" &
    head -c 26 "$T/all64.bin" > "$T/piped.bin"
    run "$BIN" encode "$T/peg12.alist" "$T/fifo" "$T/piped.out" || fail "encode from pipe"
    wait
    [ "$(size "$T/piped.out")" -eq 48 ] || fail "output size for piped input"
    expect_codewords "$T/peg12.alist" "$T/piped.bin" "$T/piped.out" 12 6
fi

# ---------------------------------------------------------------- medium code (n = 100, k = 50)
random_bits 5025 3 > "$T/m.bin"
run "$BIN" encode "$T/peg100.alist" "$T/m.bin" "$T/m.out" || fail "encode medium"
[ "$(size "$T/m.out")" -eq 10000 ] || fail "output size medium"
expect_codewords "$T/peg100.alist" "$T/m.bin" "$T/m.out" 100 50
for pattern in 1,1,1,0 1,0,1,1,0 0,1,1,1,1,1,1,1,1,1; do
    run "$BIN" encode "$T/peg100.alist" "$T/m.bin" "$T/m.p" --puncturing "$pattern" || fail "encode medium $pattern"
    expect_punctured "$T/m.out" "$T/m.p" 100 "$pattern"
done

# ---------------------------------------------------------------- DVB-S2 short (n = 16200, k = 7200)
random_bits 15000 11 > "$T/d.bin"
run "$BIN" encode "$T/dvb.alist" "$T/d.bin" "$T/d.out" || fail "encode dvbs2"
[ "$(size "$T/d.out")" -eq 32400 ] || fail "output size dvbs2"
expect_codewords "$T/dvb.alist" "$T/d.bin" "$T/d.out" 16200 7200
run "$BIN" encode "$T/dvb.alist" "$T/d.bin" "$T/d.p" --puncturing 1,1,0 || fail "encode dvbs2 punctured"
[ "$(size "$T/d.p")" -eq 21600 ] || fail "punctured output size dvbs2"
expect_punctured "$T/d.out" "$T/d.p" 16200 1,1,0

# ---------------------------------------------------------------- errors
expect_error "missing input" "$BIN" encode "$T/peg12.alist" "$T/does-not-exist" "$T/e.out"
expect_error "missing alist" "$BIN" encode "$T/does-not-exist" "$T/all64.bin" "$T/e.out"
expect_error "output in missing directory" "$BIN" encode "$T/peg12.alist" "$T/all64.bin" "$T/no-dir/e.out"
expect_error "bad pattern (letters)" "$BIN" encode "$T/peg12.alist" "$T/all64.bin" "$T/e.out" --puncturing 1,x,0
expect_error "bad pattern (empty element)" "$BIN" encode "$T/peg12.alist" "$T/all64.bin" "$T/e.out" --puncturing 1,,0
expect_error "bad pattern (empty)" "$BIN" encode "$T/peg12.alist" "$T/all64.bin" "$T/e.out" --puncturing ""
expect_error "bad pattern (length)" "$BIN" encode "$T/peg12.alist" "$T/all64.bin" "$T/e.out" --puncturing 1,1,1,1,0
[ "$(size "$T/e.out")" -eq 0 ] || fail "output written for a pattern that does not fit"
printf 'this is not an alist\n' > "$T/bad.alist"
expect_error "bad alist" "$BIN" encode "$T/bad.alist" "$T/all64.bin" "$T/e.out"
# not encodable: the last columns are not invertible (all zero columns)
printf '4 2\n1 2\n1 1 0 0\n2 0\n1\n1\n0\n0\n1 2\n0 0\n' > "$T/singular.alist"
expect_error "singular alist" "$BIN" encode "$T/singular.alist" "$T/all64.bin" "$T/e.out"
# reading a directory fails after it has been opened
mkdir "$T/dir"
expect_error "input is a directory" "$BIN" encode "$T/peg12.alist" "$T/dir" "$T/e.out"
[ "$(size "$T/e.out")" -eq 0 ] || fail "output written when nothing could be read"
# the output device is full
if [ -c /dev/full ] && [ -w /dev/full ]; then
    expect_error "output device full" "$BIN" encode "$T/peg12.alist" "$T/all64.bin" /dev/full
    expect_error "output device full (long input)" "$BIN" encode "$T/peg12.alist" "$T/many.bin" /dev/full
fi

if [ "$FAILS" -ne 0 ]; then
    echo "$FAILS check(s) failed" >&2
    exit 1
fi
echo "encode: all checks passed"
exit 0
