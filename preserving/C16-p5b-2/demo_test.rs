//! Demonstration for the rewrite of the graph search in src/sparse/bfs.rs
//! (sphere expansion with sorted lists instead of a queue and a visited table).
//!
//! * `searches_agree_with_reference`: `SparseMatrix::bfs`, `girth_at_node`,
//!   `girth_at_node_with_max`, `girth` and `girth_with_max` are compared, on
//!   many pseudorandom and structured matrices, with a straightforward
//!   queue-based reference kept in this file and with an independent
//!   shortest-cycle computation.
//! * `mackay_neal_honours_configuration`: MacKay-Neal runs (girth constraint,
//!   backtracking, both policies) are checked against the configuration, and
//!   the seed search is checked to return a seed in range with its own matrix.
//! * `golden_fingerprints`: MacKay-Neal and PEG results for fixed
//!   configurations and seeds are compared with fingerprints recorded with the
//!   implementation before the rewrite.
//!
//! Only the public API of `ldpc_toolbox` and `std` are used.

use ldpc_toolbox::mackay_neal::{Config, Error, FillPolicy};
use ldpc_toolbox::peg;
use ldpc_toolbox::sparse::{Node, SparseMatrix};
use std::collections::VecDeque;
use std::sync::mpsc;
use std::time::Duration;

fn with_deadline<F: FnOnce() + Send + 'static>(secs: u64, f: F) {
    let (tx, rx) = mpsc::channel();
    let handle = std::thread::spawn(move || {
        f();
        let _ = tx.send(());
    });
    match rx.recv_timeout(Duration::from_secs(secs)) {
        Ok(()) => handle.join().unwrap(),
        Err(mpsc::RecvTimeoutError::Disconnected) => {
            if let Err(e) = handle.join() {
                std::panic::resume_unwind(e);
            }
            panic!("worker finished without reporting");
        }
        Err(mpsc::RecvTimeoutError::Timeout) => panic!("deadline of {secs} s exceeded"),
    }
}

struct Lcg(u64);

impl Lcg {
    fn below(&mut self, m: usize) -> usize {
        self.0 = self
            .0
            .wrapping_mul(6364136223846793005)
            .wrapping_add(1442695040888963407);
        ((self.0 >> 33) % (m as u64)) as usize
    }
}

fn neighbours(h: &SparseMatrix, node: Node) -> Vec<Node> {
    match node {
        Node::Row(r) => h.iter_row(r).map(|&c| Node::Col(c)).collect(),
        Node::Col(c) => h.iter_col(c).map(|&r| Node::Row(r)).collect(),
    }
}

struct Dist {
    rows: Vec<Option<usize>>,
    cols: Vec<Option<usize>>,
}

impl Dist {
    fn new(h: &SparseMatrix) -> Dist {
        Dist {
            rows: vec![None; h.num_rows()],
            cols: vec![None; h.num_cols()],
        }
    }
    fn at(&mut self, n: Node) -> &mut Option<usize> {
        match n {
            Node::Row(r) => &mut self.rows[r],
            Node::Col(c) => &mut self.cols[c],
        }
    }
}

/// Queue-based reference for `SparseMatrix::bfs`.
fn reference_bfs(h: &SparseMatrix, root: Node) -> Dist {
    let mut dist = Dist::new(h);
    *dist.at(root) = Some(0);
    let mut queue = VecDeque::from([(root, 0usize)]);
    while let Some((n, d)) = queue.pop_front() {
        for x in neighbours(h, n) {
            if dist.at(x).is_none() {
                *dist.at(x) = Some(d + 1);
                queue.push_back((x, d + 1));
            }
        }
    }
    dist
}

/// Queue-based reference for `SparseMatrix::girth_at_node_with_max`: the first
/// time that the search from `root` reaches, through an edge that is not the
/// one it arrived by, a node that it had already reached, the sum of both
/// path lengths is the result (if it does not exceed `max`).
fn reference_local_girth(h: &SparseMatrix, root: Node, max: usize) -> Option<usize> {
    let mut dist = Dist::new(h);
    *dist.at(root) = Some(0);
    let mut queue = VecDeque::from([(root, None::<Node>, 0usize)]);
    while let Some((n, parent, d)) = queue.pop_front() {
        for x in neighbours(h, n) {
            if Some(x) == parent {
                continue;
            }
            if let Some(dx) = *dist.at(x) {
                let total = dx + d + 1;
                return if total <= max { Some(total) } else { None };
            }
            *dist.at(x) = Some(d + 1);
            if d + 1 < max {
                queue.push_back((x, Some(n), d + 1));
            }
        }
    }
    None
}

/// Length of the shortest cycle of the graph, computed edge by edge: the
/// shortest cycle through an edge is one plus the length of the shortest path
/// between its ends that avoids the edge.
fn independent_girth(h: &SparseMatrix) -> Option<usize> {
    let mut best: Option<usize> = None;
    for (r, c) in h.iter_all() {
        let mut dist = Dist::new(h);
        *dist.at(Node::Row(r)) = Some(0);
        let mut queue = VecDeque::from([(Node::Row(r), 0usize)]);
        while let Some((n, d)) = queue.pop_front() {
            for x in neighbours(h, n) {
                if (n, x) == (Node::Row(r), Node::Col(c)) {
                    continue;
                }
                if dist.at(x).is_none() {
                    *dist.at(x) = Some(d + 1);
                    queue.push_back((x, d + 1));
                }
            }
        }
        if let Some(d) = *dist.at(Node::Col(c)) {
            best = Some(best.map_or(d + 1, |b| b.min(d + 1)));
        }
    }
    best
}

const MAXES: [usize; 19] = [
    0,
    1,
    2,
    3,
    4,
    5,
    6,
    7,
    8,
    9,
    10,
    11,
    12,
    13,
    14,
    21,
    64,
    usize::MAX - 1,
    usize::MAX,
];

fn check_matrix(h: &SparseMatrix) {
    let nodes: Vec<Node> = (0..h.num_rows())
        .map(Node::Row)
        .chain((0..h.num_cols()).map(Node::Col))
        .collect();
    let mut least_col: Option<usize> = None;
    for &node in &nodes {
        let got = h.bfs(node);
        let want = reference_bfs(h, node);
        assert_eq!(got.row_nodes_distance, want.rows, "{node:?}\n{}", h.alist());
        assert_eq!(got.col_nodes_distance, want.cols, "{node:?}\n{}", h.alist());
        for &max in &MAXES {
            assert_eq!(
                h.girth_at_node_with_max(node, max),
                reference_local_girth(h, node, max),
                "{node:?} max {max}\n{}",
                h.alist()
            );
        }
        let g = h.girth_at_node(node);
        assert_eq!(g, reference_local_girth(h, node, usize::MAX));
        if let (Node::Col(_), Some(g)) = (node, g) {
            least_col = Some(least_col.map_or(g, |b| b.min(g)));
        }
    }
    let girth = independent_girth(h);
    assert_eq!(h.girth(), girth, "{}", h.alist());
    assert_eq!(h.girth(), least_col);
    for &max in &MAXES {
        assert_eq!(h.girth_with_max(max), girth.filter(|&g| g <= max));
    }
}

#[test]
fn searches_agree_with_reference() {
    with_deadline(900, || {
        let mut rng = Lcg(2024);
        // pseudorandom matrices of many densities
        for round in 0..260 {
            let nrows = 1 + rng.below(14);
            let ncols = 1 + rng.below(18);
            let mut h = SparseMatrix::new(nrows, ncols);
            let budget = rng.below(nrows * ncols / (1 + round % 5) + 1);
            for _ in 0..budget {
                h.insert(rng.below(nrows), rng.below(ncols));
            }
            check_matrix(&h);
        }
        // structured matrices: empty, full, identity, cycles, paths, stars,
        // trees with a far away cycle
        check_matrix(&SparseMatrix::new(1, 1));
        check_matrix(&SparseMatrix::new(5, 3));
        for n in 1..6 {
            let mut full = SparseMatrix::new(n, n + 1);
            let mut ident = SparseMatrix::new(n, n);
            for j in 0..n {
                ident.insert(j, j);
                for k in 0..n + 1 {
                    full.insert(j, k);
                }
            }
            check_matrix(&full);
            check_matrix(&ident);
        }
        for n in 2..9 {
            let mut cycle = SparseMatrix::new(n + 2, n + 3);
            let mut path = SparseMatrix::new(n, n);
            let mut lollipop = SparseMatrix::new(2 * n, 2 * n);
            for j in 0..n {
                cycle.insert(j, j);
                cycle.insert(j, (j + 1) % n);
                path.insert(j, j);
                if j + 1 < n {
                    path.insert(j, j + 1);
                }
                // a path ...
                lollipop.insert(j, j);
                lollipop.insert(j, j + 1);
                // ... that ends in a cycle
                lollipop.insert(n + j, n + j);
                lollipop.insert(n + j, n + (j + 1) % n);
            }
            check_matrix(&cycle);
            check_matrix(&path);
            check_matrix(&lollipop);
            let mut star = SparseMatrix::new(n, 1);
            let mut star_t = SparseMatrix::new(1, n);
            for j in 0..n {
                star.insert(j, 0);
                star_t.insert(0, j);
            }
            check_matrix(&star);
            check_matrix(&star_t);
        }
        // out of range roots are a programming error, before and after
        let h = SparseMatrix::new(3, 4);
        for node in [Node::Row(3), Node::Col(4), Node::Col(usize::MAX)] {
            let h2 = h.clone();
            assert!(std::panic::catch_unwind(move || h2.bfs(node)).is_err());
            let h2 = h.clone();
            assert!(std::panic::catch_unwind(move || h2.girth_at_node(node)).is_err());
        }
    });
}

fn mn(
    nrows: usize,
    ncols: usize,
    wr: usize,
    wc: usize,
    backtrack: (usize, usize),
    girth: (Option<usize>, usize),
    uniform: bool,
) -> Config {
    Config {
        nrows,
        ncols,
        wr,
        wc,
        backtrack_cols: backtrack.0,
        backtrack_trials: backtrack.1,
        min_girth: girth.0,
        girth_trials: girth.1,
        fill_policy: if uniform {
            FillPolicy::Uniform
        } else {
            FillPolicy::Random
        },
    }
}

fn mn_configs() -> Vec<Config> {
    let mut v = Vec::new();
    for uniform in [false, true] {
        v.push(mn(4, 8, 4, 2, (0, 0), (None, 0), uniform));
        v.push(mn(0, 0, 0, 0, (0, 0), (None, 0), uniform));
        v.push(mn(0, 3, 2, 0, (0, 0), (Some(6), 0), uniform));
        v.push(mn(0, 3, 2, 1, (2, 2), (Some(6), 3), uniform));
        v.push(mn(3, 0, 2, 1, (2, 2), (Some(6), 3), uniform));
        v.push(mn(5, 5, 0, 1, (1, 3), (None, 0), uniform));
        v.push(mn(6, 12, 6, 3, (1, 5), (Some(4), 0), uniform));
        v.push(mn(10, 20, 6, 3, (2, 20), (Some(6), 200), uniform));
        v.push(mn(10, 20, 6, 3, (0, 0), (Some(6), 10), uniform));
        v.push(mn(20, 40, 6, 3, (3, 30), (Some(6), 500), uniform));
        v.push(mn(30, 60, 6, 3, (3, 30), (Some(8), 2000), uniform));
        v.push(mn(40, 60, 3, 2, (2, 10), (Some(10), 3000), uniform));
        v.push(mn(40, 50, 3, 2, (2, 10), (Some(12), 3000), uniform));
        v.push(mn(25, 50, 4, 2, (5, 10), (Some(7), 1000), uniform));
        v.push(mn(25, 50, 4, 2, (5, 10), (Some(5), 1000), uniform));
        v.push(mn(12, 30, 8, 3, (4, 50), (Some(6), 300), uniform));
        v.push(mn(9, 12, 4, 3, (1, 2), (Some(1), 3), uniform));
        v.push(mn(9, 12, 4, 3, (1, 2), (Some(2), 3), uniform));
        v.push(mn(9, 12, 4, 3, (1, 2), (Some(3), 3), uniform));
        v.push(mn(100, 200, 6, 3, (0, 0), (Some(6), 5000), uniform));
        v.push(mn(7, 30, 3, 1, (2, 4), (Some(6), 10), uniform));
    }
    v
}

fn check_mn(conf: &Config, h: &SparseMatrix) {
    assert_eq!((h.num_rows(), h.num_cols()), (conf.nrows, conf.ncols));
    for c in 0..conf.ncols {
        assert_eq!(h.col_weight(c), conf.wc, "{conf:?}");
    }
    let weights: Vec<usize> = (0..conf.nrows).map(|r| h.row_weight(r)).collect();
    assert!(weights.iter().all(|&w| w <= conf.wr), "{conf:?}");
    if conf.fill_policy == FillPolicy::Uniform && conf.min_girth.is_none() {
        let lo = weights.iter().min().copied().unwrap_or(0);
        let hi = weights.iter().max().copied().unwrap_or(0);
        assert!(hi - lo <= 1, "{conf:?}");
    }
    if let Some(g) = conf.min_girth {
        if let Some(actual) = independent_girth(h) {
            assert!(actual >= g, "girth {actual} < {g} in {conf:?}");
        }
        assert_eq!(h.girth_with_max(g - 1), None);
        for c in 0..conf.ncols {
            assert_eq!(reference_local_girth(h, Node::Col(c), g - 1), None);
        }
    }
}

#[test]
fn mackay_neal_honours_configuration() {
    with_deadline(900, || {
        let mut successes = 0;
        for conf in mn_configs() {
            let small = conf.nrows <= 40;
            for seed in 0..(if small { 12u64 } else { 2 }) {
                let a = conf.run(seed);
                assert_eq!(a, conf.run(seed), "not reproducible: {conf:?}");
                match &a {
                    Ok(h) => {
                        successes += 1;
                        check_mn(&conf, h);
                    }
                    Err(e) => assert_ne!(*e, Error::GirthTooSmall),
                }
            }
            if small {
                match conf.search(1000, 24) {
                    Some((seed, h)) => {
                        assert!((1000..1024).contains(&seed));
                        assert_eq!(Ok(h), conf.run(seed));
                    }
                    None => {
                        for seed in 1000..1024 {
                            assert!(conf.run(seed).is_err());
                        }
                    }
                }
                assert!(conf.search(77, 0).is_none());
            }
        }
        assert!(successes > 100, "only {successes} successful runs");
    });
}

fn fnv(h: &mut u64, x: u64) {
    for b in x.to_le_bytes() {
        *h ^= u64::from(b);
        *h = h.wrapping_mul(0x0000_0100_0000_01b3);
    }
}

fn matrix_fingerprint(h: &mut u64, m: &SparseMatrix) {
    fnv(h, m.num_rows() as u64);
    fnv(h, m.num_cols() as u64);
    for c in 0..m.num_cols() {
        fnv(h, u64::MAX);
        for &r in m.iter_col(c) {
            fnv(h, r as u64);
        }
    }
    for r in 0..m.num_rows() {
        fnv(h, u64::MAX - 1);
        for &c in m.iter_row(r) {
            fnv(h, c as u64);
        }
    }
}

fn fingerprints() -> Vec<u64> {
    let mut v = Vec::new();
    for conf in mn_configs() {
        for seed in [0u64, 1, 2, 3, 187, u64::MAX] {
            let mut f = 0xcbf2_9ce4_8422_2325u64;
            match conf.run(seed) {
                Ok(m) => matrix_fingerprint(&mut f, &m),
                Err(Error::NoAvailRows) => fnv(&mut f, 1),
                Err(Error::GirthTooSmall) => fnv(&mut f, 2),
                Err(Error::NoMoreBacktrack) => fnv(&mut f, 3),
                Err(Error::NoMoreTrials) => fnv(&mut f, 4),
            }
            v.push(f);
        }
    }
    for &(nrows, ncols, wc) in &[
        (0usize, 4usize, 2usize),
        (1, 3, 2),
        (4, 8, 2),
        (6, 9, 7),
        (10, 30, 3),
        (31, 64, 3),
        (50, 100, 4),
        (120, 240, 3),
        (200, 210, 2),
    ] {
        for seed in [0u64, 5, 42, u64::MAX] {
            let mut f = 0xcbf2_9ce4_8422_2325u64;
            match (peg::Config { nrows, ncols, wc }).run(seed) {
                Ok(m) => matrix_fingerprint(&mut f, &m),
                Err(peg::Error::NoAvailRows) => fnv(&mut f, 1),
            }
            v.push(f);
        }
    }
    v
}

// Recorded with the implementation before the rewrite.
const GOLDEN: &[u64] = &[
    0xc7c2bf3b330983e6,
    0xc7c2bf3b330983e6,
    0x61540206c5afaee9,
    0xc7c2bf3b330983e6,
    0x5ca1a665f1a77029,
    0x10c3aa80f5d998c9,
    0x88201fb960ff6465,
    0x88201fb960ff6465,
    0x88201fb960ff6465,
    0x88201fb960ff6465,
    0x88201fb960ff6465,
    0x88201fb960ff6465,
    0xfcfefbb3a4b4652e,
    0xfcfefbb3a4b4652e,
    0xfcfefbb3a4b4652e,
    0xfcfefbb3a4b4652e,
    0xfcfefbb3a4b4652e,
    0xfcfefbb3a4b4652e,
    0xc7c2bf3b330983e6,
    0xc7c2bf3b330983e6,
    0xc7c2bf3b330983e6,
    0xc7c2bf3b330983e6,
    0xc7c2bf3b330983e6,
    0xc7c2bf3b330983e6,
    0x1a559c5a1a20578f,
    0x1a559c5a1a20578f,
    0x1a559c5a1a20578f,
    0x1a559c5a1a20578f,
    0x1a559c5a1a20578f,
    0x1a559c5a1a20578f,
    0xc7c2bf3b330983e6,
    0xc7c2bf3b330983e6,
    0xc7c2bf3b330983e6,
    0xc7c2bf3b330983e6,
    0xc7c2bf3b330983e6,
    0xc7c2bf3b330983e6,
    0xc7c2bf3b330983e6,
    0xc7c2bf3b330983e6,
    0xc7c2bf3b330983e6,
    0xc7c2bf3b330983e6,
    0xc7c2bf3b330983e6,
    0xed45fcefc1d783df,
    0x2cdcdc0dfc5d1141,
    0x2cdcdc0dfc5d1141,
    0x2cdcdc0dfc5d1141,
    0x2cdcdc0dfc5d1141,
    0x2cdcdc0dfc5d1141,
    0x2cdcdc0dfc5d1141,
    0x2cdcdc0dfc5d1141,
    0x2cdcdc0dfc5d1141,
    0x2cdcdc0dfc5d1141,
    0x2cdcdc0dfc5d1141,
    0x2cdcdc0dfc5d1141,
    0x2cdcdc0dfc5d1141,
    0x2cdcdc0dfc5d1141,
    0x2cdcdc0dfc5d1141,
    0x2cdcdc0dfc5d1141,
    0x2cdcdc0dfc5d1141,
    0x2cdcdc0dfc5d1141,
    0x2cdcdc0dfc5d1141,
    0x2cdcdc0dfc5d1141,
    0x2cdcdc0dfc5d1141,
    0x2cdcdc0dfc5d1141,
    0x2cdcdc0dfc5d1141,
    0x2cdcdc0dfc5d1141,
    0x2cdcdc0dfc5d1141,
    0x844ac92e06278c41,
    0xaa8e0e274f642311,
    0xe14ffcae57cee151,
    0xd20deea8d0739831,
    0xe037cc799a4b66e1,
    0x2cdcdc0dfc5d1141,
    0xbf31cc3e4b1350a3,
    0x06966b1a9d7c15a3,
    0x03b813a3df32a424,
    0x6bb3975c0d066233,
    0x998bbc3f08f9108d,
    0xea24dd9a63008670,
    0x32424981525264e7,
    0x2cdcdc0dfc5d1141,
    0x2cdcdc0dfc5d1141,
    0x2cdcdc0dfc5d1141,
    0x5b72db5fa167bae7,
    0x720342aa954d4b97,
    0x2cdcdc0dfc5d1141,
    0xe25adceea6886b97,
    0x23b0827e909d0d37,
    0x2cdcdc0dfc5d1141,
    0x2cdcdc0dfc5d1141,
    0x2cdcdc0dfc5d1141,
    0x2cdcdc0dfc5d1141,
    0x2cdcdc0dfc5d1141,
    0x2cdcdc0dfc5d1141,
    0x2cdcdc0dfc5d1141,
    0x2cdcdc0dfc5d1141,
    0x2cdcdc0dfc5d1141,
    0xc7c2bf3b330983e6,
    0x6cdad35cbb7eab29,
    0xef27811767fe0799,
    0x41d35a904600b8d9,
    0x927e9fce6cf19d99,
    0xc7c2bf3b330983e6,
    0xc7c2bf3b330983e6,
    0x6cdad35cbb7eab29,
    0xef27811767fe0799,
    0x41d35a904600b8d9,
    0x927e9fce6cf19d99,
    0xc7c2bf3b330983e6,
    0xc7c2bf3b330983e6,
    0x6cdad35cbb7eab29,
    0xef27811767fe0799,
    0x41d35a904600b8d9,
    0x927e9fce6cf19d99,
    0xc7c2bf3b330983e6,
    0xc7c2bf3b330983e6,
    0xc7c2bf3b330983e6,
    0x2cdcdc0dfc5d1141,
    0x2cdcdc0dfc5d1141,
    0x2cdcdc0dfc5d1141,
    0x2cdcdc0dfc5d1141,
    0xc7c2bf3b330983e6,
    0xc7c2bf3b330983e6,
    0xc7c2bf3b330983e6,
    0xc7c2bf3b330983e6,
    0xc7c2bf3b330983e6,
    0xc7c2bf3b330983e6,
    0x50de8b53ea424f89,
    0x6fff7a42cafd5c29,
    0x28bd950040c288a9,
    0x0085d72f90110229,
    0xee82ecddae34a6a9,
    0x73a204aac3b7cf09,
    0x88201fb960ff6465,
    0x88201fb960ff6465,
    0x88201fb960ff6465,
    0x88201fb960ff6465,
    0x88201fb960ff6465,
    0x88201fb960ff6465,
    0xfcfefbb3a4b4652e,
    0xfcfefbb3a4b4652e,
    0xfcfefbb3a4b4652e,
    0xfcfefbb3a4b4652e,
    0xfcfefbb3a4b4652e,
    0xfcfefbb3a4b4652e,
    0xc7c2bf3b330983e6,
    0xc7c2bf3b330983e6,
    0xc7c2bf3b330983e6,
    0xc7c2bf3b330983e6,
    0xc7c2bf3b330983e6,
    0xc7c2bf3b330983e6,
    0x1a559c5a1a20578f,
    0x1a559c5a1a20578f,
    0x1a559c5a1a20578f,
    0x1a559c5a1a20578f,
    0x1a559c5a1a20578f,
    0x1a559c5a1a20578f,
    0xc7c2bf3b330983e6,
    0xc7c2bf3b330983e6,
    0xc7c2bf3b330983e6,
    0xc7c2bf3b330983e6,
    0xc7c2bf3b330983e6,
    0xc7c2bf3b330983e6,
    0x9fc4e5388a32333f,
    0x1633968fb51ddcbf,
    0xf1e49b28eadabd3f,
    0x57a271f505a47f5f,
    0x5780e1afb8bd50df,
    0x0e1aa34e0401091f,
    0x2cdcdc0dfc5d1141,
    0x2cdcdc0dfc5d1141,
    0x2cdcdc0dfc5d1141,
    0x2cdcdc0dfc5d1141,
    0x2cdcdc0dfc5d1141,
    0x2cdcdc0dfc5d1141,
    0x2cdcdc0dfc5d1141,
    0x2cdcdc0dfc5d1141,
    0x2cdcdc0dfc5d1141,
    0x2cdcdc0dfc5d1141,
    0x2cdcdc0dfc5d1141,
    0x2cdcdc0dfc5d1141,
    0x2cdcdc0dfc5d1141,
    0x2cdcdc0dfc5d1141,
    0x2cdcdc0dfc5d1141,
    0x2cdcdc0dfc5d1141,
    0x2cdcdc0dfc5d1141,
    0x2cdcdc0dfc5d1141,
    0x2cdcdc0dfc5d1141,
    0x2cdcdc0dfc5d1141,
    0x2cdcdc0dfc5d1141,
    0x2cdcdc0dfc5d1141,
    0x2cdcdc0dfc5d1141,
    0x2cdcdc0dfc5d1141,
    0x2cdcdc0dfc5d1141,
    0xa5eec5e353b7f581,
    0x4c172925f7cbb901,
    0x2bbc08f8ecc550a1,
    0x6e5ca6b36b990be1,
    0xf60de7053d9c9701,
    0x8bd4260d7c6cf42d,
    0x985783a4b17b17c9,
    0xe9fbdbfddaa60144,
    0x947586d55a3d85c1,
    0xc63e9dd7438aa2a1,
    0xed6ad64fde8fd8f8,
    0x6ecd17272870ac77,
    0x2cdcdc0dfc5d1141,
    0xbf24ef306d87fa67,
    0x2cdcdc0dfc5d1141,
    0xfc7482bf73109017,
    0x2cdcdc0dfc5d1141,
    0x53bf3e1fda2295e7,
    0xc2f00e760efa1f07,
    0x5ca4a9a5243a35a7,
    0x56212a72d09cb287,
    0xd75b80b094a497b7,
    0x1c12cb2ecb1aa3c7,
    0x2cdcdc0dfc5d1141,
    0x2cdcdc0dfc5d1141,
    0x2cdcdc0dfc5d1141,
    0x2cdcdc0dfc5d1141,
    0x2cdcdc0dfc5d1141,
    0x2cdcdc0dfc5d1141,
    0x20773a2c23950d79,
    0x0240d33c4c2555f9,
    0x0b2016ef0f1e1b99,
    0xd40665620eb73be9,
    0xa9eb80e2a802fb99,
    0xf4f9ecc178f5c189,
    0x20773a2c23950d79,
    0x0240d33c4c2555f9,
    0x0b2016ef0f1e1b99,
    0xd40665620eb73be9,
    0xa9eb80e2a802fb99,
    0xf4f9ecc178f5c189,
    0x20773a2c23950d79,
    0x0240d33c4c2555f9,
    0x0b2016ef0f1e1b99,
    0xd40665620eb73be9,
    0xa9eb80e2a802fb99,
    0xf4f9ecc178f5c189,
    0x2cdcdc0dfc5d1141,
    0xa5b5dcd79de4c289,
    0x59f6d24901e85ed9,
    0x2cdcdc0dfc5d1141,
    0xf837525330327e99,
    0x04b431c481aff229,
    0xc7c2bf3b330983e6,
    0xc7c2bf3b330983e6,
    0xc7c2bf3b330983e6,
    0xc7c2bf3b330983e6,
    0xc7c2bf3b330983e6,
    0xc7c2bf3b330983e6,
    0x89cd31291d2aefa4,
    0x89cd31291d2aefa4,
    0x89cd31291d2aefa4,
    0x89cd31291d2aefa4,
    0x343e69c4546182a5,
    0x343e69c4546182a5,
    0x343e69c4546182a5,
    0x343e69c4546182a5,
    0x02b079b1002e2a29,
    0x3d8f12f6352b7969,
    0x8ee6fd11ecaa5529,
    0xd1b1627a9bb15089,
    0x77c6ead28e4cc6c3,
    0x424c15add18dd8a3,
    0xaa76d5c20ec8c103,
    0x0840e3dc44b260c3,
    0x78527b6c2377cf61,
    0x870a7c706ca57981,
    0x167f4f0b3488b961,
    0x620f859b12087ad1,
    0x7861ee3d236ea926,
    0xb938bc7dd8732ce7,
    0x8b7d6a502edc84da,
    0xc2226a220caec899,
    0xfc51f7e377e9fc3f,
    0x31d1013955295185,
    0x8ab0519cffb8f018,
    0xe8fab70a18e5913a,
    0x35ccaaba4e25bf1c,
    0x6a167ba315ba5bbe,
    0xf061ee9d1e974e0e,
    0xf0a4b8b1f1790098,
    0x6285d1c23ebde869,
    0x34042df1c68a919d,
    0x812d3849710ba4d5,
    0x6a47a83460808ff1,
];

#[test]
#[ignore]
fn print_golden_table() {
    for f in fingerprints() {
        println!("    {f:#018x},");
    }
}

#[test]
fn golden_fingerprints() {
    with_deadline(900, || {
        let got = fingerprints();
        assert_eq!(got.len(), GOLDEN.len());
        for (k, (g, w)) in got.iter().zip(GOLDEN).enumerate() {
            assert_eq!(g, w, "fingerprint number {k}");
        }
    });
}
