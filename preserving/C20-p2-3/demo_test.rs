//! Demonstration for property C20: the code construction subcommands of the
//! command-line tool (dvbs2, ccsds, ccsds-c2, peg, mackay-neal, systematic)
//! print exactly what the library computes, and invalid rates, block sizes and
//! files give a non-zero exit status with a message rather than a panic.
//!
//! The tool is run as a child process and its standard output is compared byte
//! by byte with the alist of the matrix constructed here through the public
//! API of the library (exhaustively for dvbs2, ccsds and ccsds-c2). The
//! argument-to-code tables are written out here independently of the tool.

use ldpc_toolbox::codes::ccsds::{AR4JACode, AR4JAInfoSize, AR4JARate, C2Code};
use ldpc_toolbox::codes::dvbs2::Code;
use ldpc_toolbox::mackay_neal;
use ldpc_toolbox::peg;
use ldpc_toolbox::sparse::SparseMatrix;
use ldpc_toolbox::systematic::parity_to_systematic;
use std::io::Read;
use std::path::PathBuf;
use std::process::{Command, Stdio};
use std::time::{Duration, Instant};

const LIMIT: Duration = Duration::from_secs(300);

fn tool() -> PathBuf {
    if let Some(path) = option_env!("CARGO_BIN_EXE_ldpc-toolbox") {
        return PathBuf::from(path);
    }
    // target/debug/deps/seeded_demo-xxxx -> target/debug/ldpc-toolbox
    let mut path = std::env::current_exe().unwrap();
    path.pop();
    if path.ends_with("deps") {
        path.pop();
    }
    path.push("ldpc-toolbox");
    path
}

struct Outcome {
    status: Option<i32>,
    stdout: Vec<u8>,
    stderr: String,
}

/// Runs the tool with a time limit, collecting everything it prints.
fn run(args: &[&str]) -> Outcome {
    let mut child = Command::new(tool())
        .args(args)
        .stdin(Stdio::null())
        .stdout(Stdio::piped())
        .stderr(Stdio::piped())
        .spawn()
        .expect("the tool cannot be started");
    let mut out = child.stdout.take().unwrap();
    let mut err = child.stderr.take().unwrap();
    let out_reader = std::thread::spawn(move || {
        let mut data = Vec::new();
        out.read_to_end(&mut data).unwrap();
        data
    });
    let err_reader = std::thread::spawn(move || {
        let mut data = Vec::new();
        err.read_to_end(&mut data).unwrap();
        data
    });
    let start = Instant::now();
    let status = loop {
        if let Some(status) = child.try_wait().unwrap() {
            break status;
        }
        if start.elapsed() > LIMIT {
            let _ = child.kill();
            let _ = child.wait();
            panic!("the tool did not finish in time with arguments {args:?}");
        }
        std::thread::sleep(Duration::from_millis(5));
    };
    Outcome {
        status: status.code(),
        stdout: out_reader.join().unwrap(),
        stderr: String::from_utf8_lossy(&err_reader.join().unwrap()).into_owned(),
    }
}

/// The tool succeeds, printing exactly `expected` and nothing to stderr.
fn expect_output(args: &[&str], expected: &str) {
    let outcome = run(args);
    assert_eq!(
        outcome.status,
        Some(0),
        "{args:?} failed: {}",
        outcome.stderr
    );
    assert!(
        outcome.stdout == expected.as_bytes(),
        "{args:?}: the output ({} bytes) is not what the library computes ({} bytes)",
        outcome.stdout.len(),
        expected.len()
    );
    assert_eq!(outcome.stderr, "", "{args:?} wrote to stderr");
}

/// The tool fails with a message and without a panic, printing nothing.
fn expect_failure(args: &[&str]) {
    let outcome = run(args);
    let status = outcome
        .status
        .unwrap_or_else(|| panic!("{args:?} was killed by a signal"));
    assert_ne!(status, 0, "{args:?} succeeded");
    assert_ne!(status, 101, "{args:?} panicked: {}", outcome.stderr);
    assert!(
        !outcome.stderr.trim().is_empty(),
        "{args:?} gave no message"
    );
    assert!(
        !outcome.stderr.contains("panicked"),
        "{args:?} panicked: {}",
        outcome.stderr
    );
    assert!(outcome.stdout.is_empty(), "{args:?} printed something");
}

fn girth_line(h: &SparseMatrix) -> String {
    match h.girth() {
        Some(g) => format!("Code girth = {g}\n"),
        None => "Code girth is infinite\n".to_string(),
    }
}

const DVBS2_NORMAL: [(&str, Code); 11] = [
    ("1/4", Code::R1_4),
    ("1/3", Code::R1_3),
    ("2/5", Code::R2_5),
    ("1/2", Code::R1_2),
    ("3/5", Code::R3_5),
    ("2/3", Code::R2_3),
    ("3/4", Code::R3_4),
    ("4/5", Code::R4_5),
    ("5/6", Code::R5_6),
    ("8/9", Code::R8_9),
    ("9/10", Code::R9_10),
];

const DVBS2_SHORT: [(&str, Code); 10] = [
    ("1/4", Code::R1_4short),
    ("1/3", Code::R1_3short),
    ("2/5", Code::R2_5short),
    ("1/2", Code::R1_2short),
    ("3/5", Code::R3_5short),
    ("2/3", Code::R2_3short),
    ("3/4", Code::R3_4short),
    ("4/5", Code::R4_5short),
    ("5/6", Code::R5_6short),
    ("8/9", Code::R8_9short),
];

#[test]
fn dvbs2_normal_fecframe_exhaustive() {
    for (rate, code) in DVBS2_NORMAL {
        let alist = code.h().alist();
        assert!(alist.starts_with("64800 "));
        expect_output(&["dvbs2", "--rate", rate], &alist);
    }
    // other spellings of the arguments
    expect_output(&["dvbs2", "-r", "9/10"], &Code::R9_10.h().alist());
    expect_output(&["dvbs2", "--rate=1/4"], &Code::R1_4.h().alist());
}

#[test]
fn dvbs2_short_fecframe_exhaustive() {
    for (rate, code) in DVBS2_SHORT {
        let alist = code.h().alist();
        assert!(alist.starts_with("16200 "));
        expect_output(&["dvbs2", "--rate", rate, "--short"], &alist);
        expect_output(&["dvbs2", "--short", "-r", rate], &alist);
    }
    // there is no rate 9/10 for short FECFRAMEs
    expect_failure(&["dvbs2", "--rate", "9/10", "--short"]);
    expect_failure(&["dvbs2", "--rate", "9/10", "--short", "--girth"]);
}

#[test]
fn dvbs2_girth() {
    // documented value
    expect_output(&["dvbs2", "--rate", "1/2", "--girth"], "Code girth = 6\n");
    // other codes: whatever the library computes
    for (rate, code) in [DVBS2_SHORT[9], DVBS2_SHORT[0], DVBS2_SHORT[3]] {
        expect_output(
            &["dvbs2", "--rate", rate, "--short", "--girth"],
            &girth_line(&code.h()),
        );
    }
}

#[test]
fn dvbs2_invalid_rates() {
    let invalid = [
        "", " ", "1", "1/5", "2/4", "3/6", "7/8", "9/11", "10/9", "0/1", "1/2 ", " 1/2", "1 /2",
        "01/2", "1/02", "+1/2", "1/+2", "-1/2", "1/2/3", "1//2", "/2", "1/", "/", "1_2", "R1_2",
        "R1/2", "r1/2", "R1_2short", "1/2short", "1_2short", "short", "1/4short", "9/10short",
        "0.5", "1\\2", "1:2", "½", "１/２", "1/2\n", "1/2\0", "one half",
    ];
    for rate in invalid {
        let arg = format!("--rate={rate}");
        if rate.contains('\0') {
            // cannot be passed on a command line
            continue;
        }
        expect_failure(&["dvbs2", &arg]);
        expect_failure(&["dvbs2", &arg, "--short"]);
        expect_failure(&["dvbs2", &arg, "--girth"]);
    }
    expect_failure(&["dvbs2"]);
    expect_failure(&["dvbs2", "--short"]);
    expect_failure(&["dvbs2", "--rate"]);
    expect_failure(&["dvbs2", "--rate", "1/2", "--long"]);
}

const AR4JA_RATES: [(&str, AR4JARate); 3] = [
    ("1/2", AR4JARate::R1_2),
    ("2/3", AR4JARate::R2_3),
    ("4/5", AR4JARate::R4_5),
];

const AR4JA_SIZES: [(&str, AR4JAInfoSize); 3] = [
    ("1024", AR4JAInfoSize::K1024),
    ("4096", AR4JAInfoSize::K4096),
    ("16384", AR4JAInfoSize::K16384),
];

#[test]
fn ccsds_exhaustive() {
    for (rate, r) in AR4JA_RATES {
        for (size, k) in AR4JA_SIZES {
            let h = AR4JACode::new(r, k).h();
            expect_output(
                &["ccsds", "--rate", rate, "--block-size", size],
                &h.alist(),
            );
            if size != "16384" {
                expect_output(
                    &["ccsds", "--block-size", size, "-r", rate, "--girth"],
                    &girth_line(&h),
                );
            }
        }
    }
    // documented value
    expect_output(
        &["ccsds", "--rate", "1/2", "--block-size", "1024", "--girth"],
        "Code girth = 6\n",
    );
    // other spellings of the same number
    let h = AR4JACode::new(AR4JARate::R2_3, AR4JAInfoSize::K1024).h();
    expect_output(&["ccsds", "--rate=2/3", "--block-size=1024"], &h.alist());
    expect_output(&["ccsds", "--rate=2/3", "--block-size=+1024"], &h.alist());
    expect_output(&["ccsds", "--rate=2/3", "--block-size=01024"], &h.alist());
}

#[test]
fn ccsds_invalid_arguments() {
    let rates = [
        "", "1/4", "3/4", "7/8", "1/2 ", " 1/2", "01/2", "R1_2", "R1/2", "1_2", "2_3", "4/5/6",
        "0.5", "R", "1/2R", "K1024",
    ];
    for rate in rates {
        let arg = format!("--rate={rate}");
        expect_failure(&["ccsds", &arg, "--block-size", "1024"]);
        expect_failure(&["ccsds", &arg, "--block-size", "1024", "--girth"]);
        // both wrong
        expect_failure(&["ccsds", &arg, "--block-size", "1000"]);
    }
    let sizes = [
        "0", "1", "512", "1000", "1023", "1025", "2048", "4095", "8192", "16383", "16385",
        "32768", "65536", "10244096", "18446744073709551615",
    ];
    for size in sizes {
        for (rate, _) in AR4JA_RATES {
            expect_failure(&["ccsds", "--rate", rate, "--block-size", size]);
        }
        expect_failure(&["ccsds", "--rate", "1/2", "--block-size", size, "--girth"]);
    }
    // not numbers at all (rejected when the arguments are parsed)
    for size in ["", "K1024", "1024.0", "1e3", "-1024", "0x400", "1024 ", "18446744073709551616"] {
        let arg = format!("--block-size={size}");
        expect_failure(&["ccsds", "--rate", "1/2", &arg]);
    }
    expect_failure(&["ccsds"]);
    expect_failure(&["ccsds", "--rate", "1/2"]);
    expect_failure(&["ccsds", "--block-size", "1024"]);
}

#[test]
fn ccsds_c2() {
    let alist = C2Code::new().h().alist();
    expect_output(&["ccsds-c2"], &alist);
    expect_failure(&["ccsds-c2", "--girth"]);
    expect_failure(&["ccsds-c2", "1/2"]);
}

#[test]
fn peg_sampled() {
    for (nrows, ncols, wc, seed) in [
        (50usize, 100usize, 3usize, 7u64),
        (4, 8, 3, 0),
        (150, 600, 3, 5),
        (30, 40, 2, 12345678901234),
        (10, 10, 1, 1),
        (1, 1, 1, 0),
        (300, 900, 4, 99),
    ] {
        let conf = peg::Config { nrows, ncols, wc };
        let h = conf
            .run(seed)
            .unwrap_or_else(|e| panic!("peg {nrows} {ncols} {wc} {seed}: {e}"));
        let expected = format!("{}\n", h.alist());
        let args = [
            "peg".to_string(),
            nrows.to_string(),
            ncols.to_string(),
            wc.to_string(),
            seed.to_string(),
        ];
        let args: Vec<&str> = args.iter().map(|s| s.as_str()).collect();
        expect_output(&args, &expected);

        // with --girth the alist is the same and the girth goes to stderr
        let mut with_girth = args.clone();
        with_girth.push("--girth");
        let outcome = run(&with_girth);
        assert_eq!(outcome.status, Some(0), "{with_girth:?}: {}", outcome.stderr);
        assert!(outcome.stdout == expected.as_bytes(), "{with_girth:?}");
        let girth = match h.girth() {
            Some(g) => format!("Code girth = {g}\n"),
            None => "Code girth = infinity (there are no cycles)\n".to_string(),
        };
        assert_eq!(outcome.stderr, girth, "{with_girth:?}");
    }
    expect_failure(&["peg", "4", "8", "3"]);
    expect_failure(&["peg", "4", "8", "3", "x"]);
    expect_failure(&["peg", "-4", "8", "3", "0"]);
    // constructions that the library rejects must be rejected by the tool too
    for (nrows, ncols, wc, seed) in [(2usize, 8usize, 3usize, 0u64), (3, 6, 4, 1)] {
        if (peg::Config { nrows, ncols, wc }).run(seed).is_err() {
            expect_failure(&[
                "peg",
                &nrows.to_string(),
                &ncols.to_string(),
                &wc.to_string(),
                &seed.to_string(),
            ]);
        }
    }
}

#[test]
fn mackay_neal_sampled() {
    let base = mackay_neal::Config {
        nrows: 50,
        ncols: 100,
        wr: 6,
        wc: 3,
        backtrack_cols: 0,
        backtrack_trials: 0,
        min_girth: None,
        girth_trials: 0,
        fill_policy: mackay_neal::FillPolicy::Random,
    };
    let mut checked = 0;
    for seed in 0..6u64 {
        let seed_arg = seed.to_string();
        let args = ["mackay-neal", "50", "100", "6", "3", &seed_arg];
        match base.run(seed) {
            Ok(h) => {
                expect_output(&args, &format!("{}\n", h.alist()));
                checked += 1;
            }
            Err(_) => expect_failure(&args),
        }
    }
    let uniform = mackay_neal::Config {
        nrows: 60,
        ncols: 120,
        wr: 6,
        wc: 3,
        backtrack_cols: 5,
        backtrack_trials: 20,
        min_girth: Some(6),
        girth_trials: 50,
        fill_policy: mackay_neal::FillPolicy::Uniform,
    };
    for seed in 0..6u64 {
        let seed_arg = seed.to_string();
        let args = [
            "mackay-neal",
            "60",
            "120",
            "6",
            "3",
            &seed_arg,
            "--uniform",
            "--min-girth",
            "6",
            "--girth-trials",
            "50",
            "--backtrack-cols",
            "5",
            "--backtrack-trials",
            "20",
        ];
        match uniform.run(seed) {
            Ok(h) => {
                expect_output(&args, &format!("{}\n", h.alist()));
                checked += 1;
            }
            Err(_) => expect_failure(&args),
        }
    }
    assert!(checked > 0, "no MacKay-Neal construction succeeded");

    // --search: the seed that is announced gives the matrix that is printed
    let outcome = run(&[
        "mackay-neal",
        "60",
        "120",
        "6",
        "3",
        "100",
        "--uniform",
        "--min-girth",
        "6",
        "--girth-trials",
        "50",
        "--backtrack-cols",
        "5",
        "--backtrack-trials",
        "20",
        "--search",
        "--seed-trials",
        "50",
    ]);
    assert_eq!(outcome.status, Some(0), "search: {}", outcome.stderr);
    let seed: u64 = outcome
        .stderr
        .trim()
        .strip_prefix("seed = ")
        .unwrap_or_else(|| panic!("search: unexpected message {}", outcome.stderr))
        .parse()
        .unwrap();
    assert!((100..150).contains(&seed));
    let h = uniform.run(seed).expect("the announced seed fails");
    assert!(outcome.stdout == format!("{}\n", h.alist()).as_bytes());

    expect_failure(&["mackay-neal", "50", "100", "6", "3"]);
    expect_failure(&["mackay-neal", "50", "100", "6", "three", "0"]);
}

#[test]
fn systematic_sampled() {
    let dir = std::env::temp_dir().join(format!("c20-seeded-demo-{}", std::process::id()));
    std::fs::create_dir_all(&dir).unwrap();
    let mut converted = 0;
    for (nrows, ncols, wc, seed) in [
        (4usize, 8usize, 3usize, 0u64),
        (150, 600, 3, 5),
        (50, 100, 3, 7),
        (20, 30, 3, 2),
        (4, 4, 2, 0),
        (40, 41, 3, 3),
    ] {
        let h = peg::Config { nrows, ncols, wc }.run(seed).unwrap();
        let path = dir.join(format!("h_{nrows}_{ncols}_{wc}_{seed}.alist"));
        // with and without the padding zeros, with and without final line break
        for (variant, text) in [
            h.alist(),
            h.alist_no_padding(),
            format!("{}\n", h.alist()),
            h.alist().trim_end().to_string(),
        ]
        .into_iter()
        .enumerate()
        {
            std::fs::write(&path, &text).unwrap();
            let args = ["systematic", path.to_str().unwrap()];
            match SparseMatrix::from_alist(&text) {
                Ok(parsed) => match parity_to_systematic(&parsed) {
                    Ok(h_sys) => {
                        expect_output(&args, &format!("{}\n", h_sys.alist()));
                        converted += 1;
                    }
                    Err(_) => expect_failure(&args),
                },
                Err(_) => {
                    assert_ne!(variant, 0, "the library does not read its own alist");
                    expect_failure(&args);
                }
            }
        }
    }
    assert!(converted >= 4);

    // a matrix that is already systematic is converted too
    let h = peg::Config {
        nrows: 150,
        ncols: 600,
        wc: 3,
    }
    .run(5)
    .unwrap();
    let once = parity_to_systematic(&h).unwrap();
    let path = dir.join("twice.alist");
    std::fs::write(&path, once.alist()).unwrap();
    let twice = parity_to_systematic(&once).unwrap();
    expect_output(
        &["systematic", path.to_str().unwrap()],
        &format!("{}\n", twice.alist()),
    );

    // more rows than columns, garbage, empty file, missing file, directory
    let tall = peg::Config {
        nrows: 8,
        ncols: 4,
        wc: 2,
    }
    .run(0);
    if let Ok(tall) = tall {
        let path = dir.join("tall.alist");
        std::fs::write(&path, tall.alist()).unwrap();
        expect_failure(&["systematic", path.to_str().unwrap()]);
    }
    let path = dir.join("garbage.alist");
    std::fs::write(&path, "this is not an alist\n").unwrap();
    expect_failure(&["systematic", path.to_str().unwrap()]);
    std::fs::write(&path, "").unwrap();
    expect_failure(&["systematic", path.to_str().unwrap()]);
    std::fs::write(&path, [0xffu8, 0xfe, 0x00, 0x31]).unwrap();
    expect_failure(&["systematic", path.to_str().unwrap()]);
    expect_failure(&["systematic", dir.join("missing.alist").to_str().unwrap()]);
    expect_failure(&["systematic", dir.to_str().unwrap()]);
    expect_failure(&["systematic"]);

    let _ = std::fs::remove_dir_all(&dir);
}

#[test]
fn top_level() {
    expect_failure(&[]);
    expect_failure(&["nothing"]);
    expect_failure(&["DVBS2", "--rate", "1/2"]);
    let outcome = run(&["--version"]);
    assert_eq!(outcome.status, Some(0));
    assert!(String::from_utf8_lossy(&outcome.stdout).starts_with("ldpc-toolbox "));
    let outcome = run(&["dvbs2", "--help"]);
    assert_eq!(outcome.status, Some(0));
    assert!(!outcome.stdout.is_empty());
}
