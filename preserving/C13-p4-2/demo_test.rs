// Demonstration for property C13 (BER statistics are exact and the run
// terminates under every thread schedule).
//
// The BER engine is driven through the public API with a *scripted* decoder:
// the decoder recovers the transmitted codeword from the (practically
// noiseless) LLRs, checks that it is a codeword of H (this validates the
// encoder and the puncturing / interleaving / modulation stages), and then
// reports a scripted outcome. The outcome types use iteration counts 1, B,
// B^2, ... so that the number of frames of each type that went into a
// `Statistics` can be read off `total_iterations` in base B. Every other field
// of the statistics is then predicted exactly and compared.
//
// Only the crate's public API, std, and the two crates that appear in the
// public API itself (ndarray arrays for `Encoder::encode`, num_traits for the
// GF2 constants) are used. Every run is guarded by a watchdog so that the test
// cannot hang.

use ldpc_toolbox::{
    decoder::{DecoderOutput, LdpcDecoder, factory::DecoderFactory},
    encoder::{Encoder, Error as EncoderError},
    gf2::GF2,
    simulation::{
        ber::{BerTest, Report, Reporter, Statistics},
        factory::{Ber, BerTestBuilder, Modulation},
        modulation::{Bpsk, Psk8},
    },
    sparse::SparseMatrix,
};
use num_traits::{One, Zero};
use std::{
    sync::{
        Arc,
        atomic::{AtomicBool, AtomicU64, AtomicUsize, Ordering},
        mpsc,
    },
    time::Duration,
};

const WATCHDOG: Duration = Duration::from_secs(300);
const BASE: u64 = 1000;

// ---------------------------------------------------------------- utilities

struct XorShift(u64);

impl XorShift {
    fn next(&mut self) -> u64 {
        let mut x = self.0;
        x ^= x << 13;
        x ^= x >> 7;
        x ^= x << 17;
        self.0 = x;
        x
    }
    fn below(&mut self, n: usize) -> usize {
        (self.next() % n as u64) as usize
    }
    fn bit(&mut self) -> bool {
        self.next() & 1 == 1
    }
}

/// Runs `f` in its own thread and fails (instead of hanging) if it does not
/// finish in time. A panic inside `f` is propagated.
fn guarded<T: Send + 'static>(what: &str, f: impl FnOnce() -> T + Send + 'static) -> T {
    let (tx, rx) = mpsc::channel();
    let handle = std::thread::spawn(move || {
        let _ = tx.send(f());
    });
    match rx.recv_timeout(WATCHDOG) {
        Ok(v) => {
            handle.join().unwrap();
            v
        }
        Err(mpsc::RecvTimeoutError::Disconnected) => match handle.join() {
            Err(p) => std::panic::resume_unwind(p),
            Ok(()) => unreachable!(),
        },
        Err(mpsc::RecvTimeoutError::Timeout) => panic!("{what}: did not terminate (hang)"),
    }
}

// --------------------------------------------------------- matrix generators

/// Dense n x n invertible binary matrix (as rows of bools).
fn random_invertible(n: usize, rng: &mut XorShift) -> Vec<Vec<bool>> {
    let mut a = vec![vec![false; n]; n];
    for (j, row) in a.iter_mut().enumerate() {
        row[j] = true;
    }
    // random row operations and swaps preserve invertibility
    for _ in 0..4 * n {
        let s = rng.below(n);
        let t = rng.below(n);
        if s != t {
            if rng.bit() {
                let src = a[s].clone();
                for (x, y) in a[t].iter_mut().zip(src) {
                    *x ^= y;
                }
            } else {
                a.swap(s, t);
            }
        }
    }
    a
}

/// H = [H0 H1] with H0 random n x k (a one with probability 1/one_in) and H1
/// given.
fn assemble_h(
    n: usize,
    k: usize,
    h1: &[Vec<bool>],
    rng: &mut XorShift,
    one_in: usize,
) -> SparseMatrix {
    let mut h = SparseMatrix::new(n, n + k);
    for r in 0..n {
        for c in 0..k {
            if rng.below(one_in) == 0 {
                h.insert(r, c);
            }
        }
        for c in 0..n {
            if h1[r][c] {
                h.insert(r, k + c);
            }
        }
    }
    h
}

fn dense_h(n: usize, k: usize, seed: u64) -> SparseMatrix {
    let mut rng = XorShift(seed.wrapping_mul(0x9E3779B97F4A7C15) | 1);
    let h1 = random_invertible(n, &mut rng);
    assemble_h(n, k, &h1, &mut rng, 2)
}

fn staircase_h(n: usize, k: usize, seed: u64) -> SparseMatrix {
    let mut rng = XorShift(seed.wrapping_mul(0x9E3779B97F4A7C15) | 1);
    let mut h1 = vec![vec![false; n]; n];
    for j in 0..n {
        h1[j][j] = true;
        if j > 0 {
            h1[j][j - 1] = true;
        }
    }
    assemble_h(n, k, &h1, &mut rng, 3)
}

fn syndrome_is_zero(h: &SparseMatrix, codeword: &[bool]) -> bool {
    (0..h.num_rows()).all(|r| h.iter_row(r).filter(|&&c| codeword[c]).count() % 2 == 0)
}

/// Whether the square matrix formed by the last columns of H is invertible
/// (reference implementation: plain Gaussian elimination over bools).
fn parity_part_is_invertible(h: &SparseMatrix) -> bool {
    let n = h.num_rows();
    let k = h.num_cols() - n;
    let mut a = vec![vec![false; n]; n];
    for (r, row) in a.iter_mut().enumerate() {
        for &c in h.iter_row(r) {
            if c >= k {
                row[c - k] = true;
            }
        }
    }
    for j in 0..n {
        let Some(p) = (j..n).find(|&r| a[r][j]) else {
            return false;
        };
        a.swap(j, p);
        let pivot = a[j].clone();
        for (r, row) in a.iter_mut().enumerate() {
            if r != j && row[j] {
                for (x, y) in row.iter_mut().zip(&pivot) {
                    *x ^= *y;
                }
            }
        }
    }
    true
}

/// Reference encoder: solves H1 p = H0 m by elimination on bools.
fn reference_parity(h: &SparseMatrix, message: &[bool]) -> Vec<bool> {
    let n = h.num_rows();
    let k = h.num_cols() - n;
    // augmented system [H1 | H0 m]
    let mut a = vec![vec![false; n + 1]; n];
    for (r, row) in a.iter_mut().enumerate() {
        for &c in h.iter_row(r) {
            if c >= k {
                row[c - k] = true;
            } else if message[c] {
                row[n] ^= true;
            }
        }
    }
    for j in 0..n {
        let p = (j..n).find(|&r| a[r][j]).expect("H1 must be invertible");
        a.swap(j, p);
        let pivot = a[j].clone();
        for (r, row) in a.iter_mut().enumerate() {
            if r != j && row[j] {
                for (x, y) in row.iter_mut().zip(&pivot) {
                    *x ^= *y;
                }
            }
        }
    }
    a.iter().map(|row| row[n]).collect()
}

fn gf2(bits: &[bool]) -> ndarray::Array1<GF2> {
    bits.iter()
        .map(|&b| if b { GF2::one() } else { GF2::zero() })
        .collect()
}

fn bools(bits: &ndarray::Array1<GF2>) -> Vec<bool> {
    bits.iter()
        .map(|b| {
            assert!(b.is_one() || b.is_zero());
            b.is_one()
        })
        .collect()
}

// ------------------------------------------------------------ encoder checks

fn check_encoder_on(h: &SparseMatrix, seed: u64, num_messages: usize, with_reference: bool) {
    let n = h.num_rows();
    let k = h.num_cols() - n;
    let encoder = Encoder::from_h(h).expect("encoder must exist");
    let clone = encoder.clone();
    assert_eq!(encoder, clone);
    let mut rng = XorShift(seed | 1);
    let mut messages: Vec<Vec<bool>> = vec![vec![false; k], vec![true; k]];
    for j in 0..k.min(70) {
        // unit vectors probe every column of the generator
        let mut m = vec![false; k];
        m[(j * 7919) % k] = true;
        messages.push(m);
    }
    for _ in 0..num_messages {
        messages.push((0..k).map(|_| rng.bit()).collect());
    }
    let mut sum_check: Option<(Vec<bool>, Vec<bool>)> = None;
    for m in &messages {
        let c = bools(&encoder.encode(&gf2(m)));
        assert_eq!(c.len(), n + k, "codeword length");
        assert_eq!(&c[..k], &m[..], "the encoder must be systematic");
        assert!(syndrome_is_zero(h, &c), "H c != 0");
        assert_eq!(c, bools(&clone.encode(&gf2(m))), "clone encodes differently");
        if with_reference {
            assert_eq!(&c[k..], &reference_parity(h, m)[..], "parity differs from reference");
        }
        // linearity: c(m1) + c(m2) = c(m1 + m2)
        if let Some((m0, c0)) = &sum_check {
            let ms: Vec<bool> = m.iter().zip(m0).map(|(a, b)| a ^ b).collect();
            let cs: Vec<bool> = c.iter().zip(c0).map(|(a, b)| a ^ b).collect();
            assert_eq!(bools(&encoder.encode(&gf2(&ms))), cs, "encoder is not linear");
        }
        sum_check = Some((m.clone(), c));
    }
    // the message may also be given as a non-contiguous view
    if k > 0 {
        let m: Vec<bool> = (0..k).map(|_| rng.bit()).collect();
        let mut spread = Vec::new();
        for &b in &m {
            spread.push(b);
            spread.push(!b);
        }
        let spread = gf2(&spread);
        let view = spread.slice(ndarray::s![..;2]);
        assert_eq!(view.len(), k);
        assert_eq!(encoder.encode(&view), encoder.encode(&gf2(&m)));
    }
}

#[test]
fn encoder_dense_codes() {
    guarded("encoder_dense_codes", || {
        // sizes around the 64-bit word boundaries, k = 0, k = 1, n = 1
        let sizes = [
            (1, 0),
            (1, 1),
            (2, 1),
            (3, 5),
            (4, 8),
            (7, 0),
            (9, 20),
            (31, 33),
            (63, 65),
            (64, 64),
            (65, 63),
            (100, 29),
            (128, 130),
            (129, 1),
            (200, 150),
        ];
        for (idx, &(n, k)) in sizes.iter().enumerate() {
            for rep in 0..3 {
                let h = dense_h(n, k, (idx * 10 + rep + 1) as u64);
                assert!(parity_part_is_invertible(&h));
                check_encoder_on(&h, (idx + 77) as u64, 12, true);
            }
        }
    })
}

#[test]
fn encoder_staircase_codes() {
    guarded("encoder_staircase_codes", || {
        let sizes = [
            (1, 0),
            (1, 3),
            (2, 2),
            (3, 2),
            (5, 9),
            (63, 10),
            (64, 64),
            (65, 100),
            (127, 3),
            (128, 128),
            (130, 70),
            (257, 300),
            (1000, 700),
        ];
        for (idx, &(n, k)) in sizes.iter().enumerate() {
            let h = staircase_h(n, k, (idx + 1) as u64);
            check_encoder_on(&h, (idx + 5) as u64, 12, n <= 300);
        }
        // staircase code with empty columns at the end of the systematic part
        let mut h = staircase_h(40, 30, 99);
        for c in 20..30 {
            h.clear_col(c);
        }
        check_encoder_on(&h, 4, 10, true);
    })
}

#[test]
fn encoder_standard_codes() {
    guarded("encoder_standard_codes", || {
        use ldpc_toolbox::codes::{ccsds, dvbs2};
        // DVB-S2 short frame (staircase) and CCSDS codes (dense generator)
        let h = dvbs2::Code::R1_4short.h();
        check_encoder_on(&h, 1, 3, false);
        let h = ccsds::AR4JACode::new(ccsds::AR4JARate::R4_5, ccsds::AR4JAInfoSize::K1024).h();
        check_encoder_on(&h, 2, 3, false);
    })
}

#[test]
fn encoder_rejects_singular_parity_part() {
    guarded("encoder_rejects_singular_parity_part", || {
        let mut rng = XorShift(0xC13);
        let mut singular = 0;
        let mut regular = 0;
        for round in 0..400 {
            let n = 1 + rng.below(if round % 8 == 0 { 70 } else { 9 });
            let k = rng.below(12);
            // fully random H: about 70% of the parity parts are singular
            let mut h = SparseMatrix::new(n, n + k);
            for r in 0..n {
                for c in 0..n + k {
                    if rng.bit() {
                        h.insert(r, c);
                    }
                }
            }
            if round % 5 == 0 && n > 1 {
                // force a dependency between two rows of H1
                for c in k..n + k {
                    if h.contains(0, c) != h.contains(1, c) {
                        h.toggle(1, c);
                    }
                }
            }
            match (parity_part_is_invertible(&h), Encoder::from_h(&h)) {
                (true, Ok(_)) => {
                    regular += 1;
                    check_encoder_on(&h, round as u64, 4, true);
                }
                (false, Err(e)) => {
                    singular += 1;
                    assert_eq!(e, EncoderError::SubmatrixNotInvertible);
                    assert!(!e.to_string().is_empty());
                }
                (expected, got) => panic!(
                    "invertible = {expected} but from_h returned {:?}",
                    got.map(|_| ())
                ),
            }
        }
        assert!(singular > 50 && regular > 50, "{singular} {regular}");
    })
}

// -------------------------------------------------------------- stage checks

#[test]
fn puncturer_against_reference() {
    use ldpc_toolbox::simulation::puncturing::{Error as PuncturingError, Puncturer};
    guarded("puncturer_against_reference", || {
        let mut rng = XorShift(0xBEEF);
        for round in 0..300 {
            let blocks = 1 + rng.below(7);
            let pattern: Vec<bool> = (0..blocks).map(|_| rng.below(3) != 0).collect();
            let kept = pattern.iter().filter(|&&b| b).count();
            let puncturer = Puncturer::new(&pattern);
            let expected_rate = blocks as f64 / kept as f64;
            assert!(same_f64(puncturer.rate(), expected_rate));
            let block_size = rng.below(6);
            let len = blocks * block_size + if round % 4 == 0 { 1 + rng.below(blocks) } else { 0 };
            let codeword: ndarray::Array1<u32> = (0..len as u32).map(|x| 1000 + x).collect();
            let result = puncturer.clone().puncture(&codeword);
            if len % blocks != 0 {
                assert_eq!(result, Err(PuncturingError::CodewordSizeNotDivisible));
                assert!(!PuncturingError::CodewordSizeNotDivisible.to_string().is_empty());
                continue;
            }
            let punctured = result.unwrap();
            let block_size = len / blocks;
            let expected: Vec<u32> = (0..len)
                .filter(|j| pattern[j / block_size])
                .map(|j| 1000 + j as u32)
                .collect();
            assert_eq!(punctured.to_vec(), expected);
            if kept == 0 {
                // nothing is kept: depuncturing cannot work out the block size
                let p = puncturer.clone();
                let r = std::panic::catch_unwind(move || p.depuncture(&[0.0f64; 0]));
                assert!(r.is_err(), "depuncture with an all-false pattern");
                continue;
            }
            let llrs: Vec<f64> = expected.iter().map(|&x| -(x as f64)).collect();
            let depunctured = puncturer.depuncture(&llrs).unwrap();
            let expected: Vec<f64> = (0..len)
                .map(|j| if pattern[j / block_size] { -(1000.0 + j as f64) } else { 0.0 })
                .collect();
            assert_eq!(depunctured.len(), expected.len());
            for (a, b) in depunctured.iter().zip(&expected) {
                assert_eq!(a.to_bits(), b.to_bits());
            }
            // input that is not a whole number of kept blocks
            if kept > 1 {
                let r = puncturer.depuncture(&vec![1.0f64; kept * block_size + 1]);
                assert_eq!(r, Err(PuncturingError::CodewordSizeNotDivisible));
            }
        }
        let r = std::panic::catch_unwind(|| Puncturer::new(&[]));
        assert!(r.is_err(), "an empty pattern must be rejected");
    })
}

#[test]
fn interleaver_against_reference() {
    use ldpc_toolbox::simulation::interleaving::Interleaver;
    guarded("interleaver_against_reference", || {
        for columns in 1..=9usize {
            for rows in 0..=7usize {
                for backwards in [false, true] {
                    let len = columns * rows;
                    let interleaver = Interleaver::new(columns, backwards);
                    let input: Vec<i64> = (0..len as i64).map(|x| 7 * x - 3).collect();
                    // reference: write by columns, read by rows
                    let mut expected = Vec::new();
                    for r in 0..rows {
                        for c in 0..columns {
                            let c = if backwards { columns - 1 - c } else { c };
                            expected.push(input[c * rows + r]);
                        }
                    }
                    let interleaved = interleaver.interleave(&ndarray::Array1::from_vec(input.clone()));
                    assert_eq!(interleaved.to_vec(), expected, "{columns} x {rows} {backwards}");
                    let back = interleaver.clone().deinterleave(&expected);
                    assert_eq!(back, input, "{columns} x {rows} {backwards}");
                    // sizes that do not fit panic
                    if columns > 1 {
                        let i = interleaver.clone();
                        let bad = ndarray::Array1::from_vec(vec![0u8; len + 1]);
                        assert!(std::panic::catch_unwind(move || i.interleave(&bad)).is_err());
                        let i = interleaver.clone();
                        assert!(
                            std::panic::catch_unwind(move || i.deinterleave(&vec![0.5f64; len + 1]))
                                .is_err()
                        );
                    }
                }
            }
        }
        let i = Interleaver::new(0, false);
        assert!(std::panic::catch_unwind(move || i.deinterleave(&[1.0f64, 2.0])).is_err());
    })
}

#[test]
fn modulation_names() {
    for (m, name) in [(Modulation::Bpsk, "BPSK"), (Modulation::Psk8, "8PSK")] {
        assert_eq!(m.to_string(), name);
        assert_eq!(name.parse::<Modulation>(), Ok(m));
    }
    for bad in ["", "bpsk", "8psk", "QPSK", "BPSK ", " 8PSK"] {
        let e = bad.parse::<Modulation>().unwrap_err();
        assert!(!e.is_empty());
    }
}

// ------------------------------------------------------- scripted BER decoder

/// One scripted frame outcome.
#[derive(Debug, Clone, Copy)]
struct Outcome {
    bit_errors: usize,
    converged: bool,
}

#[derive(Debug)]
struct Shared {
    /// frames handed to the decoders so far (also selects the outcome type)
    frames: AtomicU64,
    /// frames of each outcome type returned by the decoders
    returned: Vec<AtomicU64>,
    /// number of decoders built
    built: AtomicUsize,
    /// a decoder has panicked on purpose
    panicked: AtomicBool,
    /// the LLRs did not describe a codeword with the right structure
    bad_codeword: AtomicBool,
}

#[derive(Debug, Clone, Copy, PartialEq)]
enum Sabotage {
    None,
    /// decoders with an odd serial number panic on their second frame
    OddDecodersPanic,
    /// every decoder panics on its first frame
    AllDecodersPanic,
}

#[derive(Debug, Clone)]
struct Script {
    outcomes: Vec<Outcome>,
    shared: Arc<Shared>,
    sabotage: Sabotage,
    /// positions of the codeword that are punctured (LLR = 0 expected)
    punctured: Arc<Vec<bool>>,
}

impl Script {
    fn new(outcomes: &[Outcome], n_cw: usize, sabotage: Sabotage) -> Script {
        Script {
            outcomes: outcomes.to_vec(),
            shared: Arc::new(Shared {
                frames: AtomicU64::new(0),
                returned: outcomes.iter().map(|_| AtomicU64::new(0)).collect(),
                built: AtomicUsize::new(0),
                panicked: AtomicBool::new(false),
                bad_codeword: AtomicBool::new(false),
            }),
            sabotage,
            punctured: Arc::new(vec![false; n_cw]),
        }
    }

    fn with_punctured(mut self, punctured: Vec<bool>) -> Script {
        self.punctured = Arc::new(punctured);
        self
    }
}

impl std::fmt::Display for Script {
    fn fmt(&self, f: &mut std::fmt::Formatter<'_>) -> std::fmt::Result {
        write!(f, "scripted")
    }
}

#[derive(Debug)]
struct ScriptedDecoder {
    script: Script,
    h: SparseMatrix,
    serial: usize,
    decoded: u64,
    rng: u64,
}

impl DecoderFactory for Script {
    fn build_decoder(&self, h: SparseMatrix) -> Box<dyn LdpcDecoder> {
        let serial = self.shared.built.fetch_add(1, Ordering::SeqCst);
        Box::new(ScriptedDecoder {
            script: self.clone(),
            h,
            serial,
            decoded: 0,
            rng: 0x1234_5678_9ABC_DEF1 ^ ((serial as u64 + 1) << 20),
        })
    }
}

impl LdpcDecoder for ScriptedDecoder {
    fn decode(
        &mut self,
        llrs: &[f64],
        _max_iterations: usize,
    ) -> Result<DecoderOutput, DecoderOutput> {
        let shared = &self.script.shared;
        match self.script.sabotage {
            Sabotage::AllDecodersPanic => {
                shared.panicked.store(true, Ordering::SeqCst);
                panic!("scripted decoder panic (all)");
            }
            Sabotage::OddDecodersPanic if self.serial % 2 == 1 && self.decoded >= 1 => {
                shared.panicked.store(true, Ordering::SeqCst);
                panic!("scripted decoder panic (odd)");
            }
            _ => (),
        }
        self.decoded += 1;

        // Recover the codeword. Bit 1 <-> negative LLR; punctured bits arrive
        // as exact zeros (erasures) and are reconstructed below.
        let n_cw = self.h.num_cols();
        let k = n_cw - self.h.num_rows();
        let mut ok = llrs.len() == n_cw;
        let mut hard: Vec<bool> = llrs.iter().map(|&x| x < 0.0).collect();
        hard.resize(n_cw, false);
        for (j, &x) in llrs.iter().enumerate() {
            let erased = self.script.punctured.get(j).copied().unwrap_or(false);
            if erased != (x == 0.0) || x.is_nan() {
                ok = false;
            }
        }
        if ok {
            if self.script.punctured.iter().any(|&p| p) {
                // only parity bits are ever punctured here: re-encode
                let message = hard[..k].to_vec();
                let parity = reference_parity(&self.h, &message);
                for (j, p) in parity.into_iter().enumerate() {
                    if self.script.punctured[k + j] {
                        hard[k + j] = p;
                    } else if hard[k + j] != p {
                        ok = false;
                    }
                }
            }
            ok = ok && syndrome_is_zero(&self.h, &hard);
        }
        if !ok {
            shared.bad_codeword.store(true, Ordering::SeqCst);
        }

        // Perturb the timing of this worker.
        self.rng ^= self.rng << 13;
        self.rng ^= self.rng >> 7;
        self.rng ^= self.rng << 17;
        match self.rng % 16 {
            0 => std::thread::sleep(Duration::from_micros(self.rng % 300)),
            1..=4 => std::thread::yield_now(),
            5 => {
                for _ in 0..(self.rng % 2000) {
                    std::hint::spin_loop();
                }
            }
            _ => (),
        }

        let frame = shared.frames.fetch_add(1, Ordering::SeqCst);
        let kind = (frame % self.script.outcomes.len() as u64) as usize;
        let outcome = self.script.outcomes[kind];
        assert!(outcome.bit_errors <= k);
        // Errors in the systematic part (spread over it), plus errors in the
        // parity part that must not be counted.
        for e in 0..outcome.bit_errors {
            let pos = (e * k) / outcome.bit_errors;
            hard[pos] ^= true;
        }
        if !outcome.converged {
            for bit in hard[k..].iter_mut().step_by(2) {
                *bit ^= true;
            }
        }
        let output = DecoderOutput {
            codeword: hard.into_iter().map(u8::from).collect(),
            iterations: BASE.pow(kind as u32) as usize,
        };
        shared.returned[kind].fetch_add(1, Ordering::SeqCst);
        if outcome.converged {
            Ok(output)
        } else {
            Err(output)
        }
    }
}

// -------------------------------------------------------- statistics checking

fn same_f64(a: f64, b: f64) -> bool {
    a.to_bits() == b.to_bits() || (a.is_nan() && b.is_nan())
}

/// Checks that `stats` is exactly the statistics of a set of whole frames with
/// the scripted outcomes; returns the number of frames of each type.
fn check_whole_frames(
    stats: &Statistics,
    outcomes: &[Outcome],
    k: usize,
    bch_max_errors: u64,
    max_frame_errors: u64,
    finished_point: bool,
) -> Vec<u64> {
    // number of frames of each type, from the base-B digits
    let mut counts = Vec::new();
    let mut rest = stats.total_iterations;
    for _ in outcomes {
        counts.push(rest % BASE);
        rest /= BASE;
    }
    assert_eq!(rest, 0, "total_iterations has too many digits: {stats:?}");
    let frames: u64 = counts.iter().sum();
    assert!(frames < BASE);
    assert_eq!(stats.num_frames, frames, "num_frames: {stats:?}");

    let sum = |f: &dyn Fn(usize, &Outcome) -> u64| -> u64 {
        outcomes
            .iter()
            .enumerate()
            .map(|(j, o)| counts[j] * f(j, o))
            .sum()
    };
    let its = |j: usize| BASE.pow(j as u32);
    let false_decodes = sum(&|_, o| u64::from(o.bit_errors > 0 && o.converged));
    assert_eq!(stats.false_decodes, false_decodes, "false_decodes: {stats:?}");
    assert!(same_f64(
        stats.average_iterations,
        stats.total_iterations as f64 / frames as f64
    ));

    let check_code = |code: &ldpc_toolbox::simulation::ber::CodeStatistics, threshold: u64| {
        let bad = |o: &Outcome| o.bit_errors as u64 > threshold;
        let bit_errors = sum(&|_, o| if bad(o) { o.bit_errors as u64 } else { 0 });
        let frame_errors = sum(&|_, o| u64::from(bad(o)));
        let correct_iterations = sum(&|j, o| if bad(o) { 0 } else { its(j) });
        assert_eq!(code.bit_errors, bit_errors, "bit_errors: {stats:?}");
        assert_eq!(code.frame_errors, frame_errors, "frame_errors: {stats:?}");
        assert_eq!(
            code.correct_iterations, correct_iterations,
            "correct_iterations: {stats:?}"
        );
        assert!(
            same_f64(code.ber, bit_errors as f64 / (k as f64 * frames as f64)),
            "ber: {stats:?}"
        );
        assert!(
            same_f64(code.fer, frame_errors as f64 / frames as f64),
            "fer: {stats:?}"
        );
        assert!(
            same_f64(
                code.average_iterations_correct,
                correct_iterations as f64 / (frames - frame_errors) as f64
            ),
            "average_iterations_correct: {stats:?}"
        );
        frame_errors
    };
    let ldpc_errors = check_code(&stats.ldpc, 0);
    let deciding_errors = if bch_max_errors > 0 {
        let bch = stats.bch.as_ref().expect("BCH statistics missing");
        check_code(bch, bch_max_errors)
    } else {
        assert!(stats.bch.is_none(), "unexpected BCH statistics");
        ldpc_errors
    };
    // stopping rule: never beyond the required number of frame errors, and
    // exactly that number when the point has finished normally
    assert!(deciding_errors <= max_frame_errors, "overshoot: {stats:?}");
    if finished_point {
        assert_eq!(deciding_errors, max_frame_errors, "stopping rule: {stats:?}");
    }
    assert!(stats.throughput_mbps >= 0.0 || stats.throughput_mbps.is_nan());
    counts
}

fn same_counts(a: &Statistics, b: &Statistics) -> bool {
    let code = |x: &ldpc_toolbox::simulation::ber::CodeStatistics,
                y: &ldpc_toolbox::simulation::ber::CodeStatistics| {
        x.bit_errors == y.bit_errors
            && x.frame_errors == y.frame_errors
            && x.correct_iterations == y.correct_iterations
            && same_f64(x.ber, y.ber)
            && same_f64(x.fer, y.fer)
            && same_f64(x.average_iterations_correct, y.average_iterations_correct)
    };
    a.ebn0_db == b.ebn0_db
        && a.num_frames == b.num_frames
        && a.total_iterations == b.total_iterations
        && a.false_decodes == b.false_decodes
        && same_f64(a.average_iterations, b.average_iterations)
        && code(&a.ldpc, &b.ldpc)
        && match (&a.bch, &b.bch) {
            (Some(x), Some(y)) => code(x, y),
            (None, None) => true,
            _ => false,
        }
}

struct Case {
    name: &'static str,
    h: SparseMatrix,
    modulation: Modulation,
    puncturing: Option<Vec<bool>>,
    interleaving: Option<isize>,
    outcomes: Vec<Outcome>,
    bch_max_errors: u64,
    max_frame_errors: u64,
    ebn0s: Vec<f32>,
    interval: Duration,
    sabotage: Sabotage,
    via_builder: bool,
}

struct RunResult {
    result: Result<Vec<Statistics>, String>,
    reports: Vec<Report>,
    script: Script,
    dims: (usize, usize, usize, f64),
}

fn run_case(case: &Case) -> RunResult {
    let n_cw = case.h.num_cols();
    let k = n_cw - case.h.num_rows();
    let mut script = Script::new(&case.outcomes, n_cw, case.sabotage);
    if let Some(p) = &case.puncturing {
        if n_cw % p.len() == 0 {
            let block = n_cw / p.len();
            script =
                script.with_punctured((0..n_cw).map(|j| !p[j / block]).collect::<Vec<bool>>());
        }
    }
    let (tx, rx) = mpsc::channel();
    let reporter = Reporter {
        tx,
        interval: case.interval,
    };
    let h = case.h.clone();
    let modulation = case.modulation;
    let puncturing = case.puncturing.clone();
    let interleaving = case.interleaving;
    let max_frame_errors = case.max_frame_errors;
    let bch_max_errors = case.bch_max_errors;
    let ebn0s = case.ebn0s.clone();
    let via_builder = case.via_builder;
    let factory = script.clone();
    let name = case.name;
    let (result, dims) = guarded(name, move || {
        let test: Box<dyn Ber> = if via_builder {
            BerTestBuilder {
                h,
                decoder_implementation: factory,
                modulation,
                puncturing_pattern: puncturing.as_deref(),
                interleaving_columns: interleaving,
                max_frame_errors,
                max_iterations: 50,
                ebn0s_db: &ebn0s,
                reporter: Some(reporter),
                bch_max_errors,
            }
            .build()
            .expect("build")
        } else {
            match modulation {
                Modulation::Bpsk => Box::new(
                    BerTest::<Bpsk, Script>::new(
                        h,
                        factory,
                        puncturing.as_deref(),
                        interleaving,
                        max_frame_errors,
                        50,
                        &ebn0s,
                        Some(reporter),
                        bch_max_errors,
                    )
                    .expect("new"),
                ),
                Modulation::Psk8 => Box::new(
                    BerTest::<Psk8, Script>::new(
                        h,
                        factory,
                        puncturing.as_deref(),
                        interleaving,
                        max_frame_errors,
                        50,
                        &ebn0s,
                        Some(reporter),
                        bch_max_errors,
                    )
                    .expect("new"),
                ),
            }
        };
        let dims = (test.n(), test.n_cw(), test.k(), test.rate());
        (test.run().map_err(|e| e.to_string()), dims)
    });
    assert_eq!(dims.1, n_cw);
    assert_eq!(dims.2, k);
    // the run has returned: every report, including the last one, is already
    // in the channel, and every sender has been dropped
    let reports: Vec<Report> = rx.try_iter().collect();
    assert!(
        matches!(rx.try_recv(), Err(mpsc::TryRecvError::Disconnected)),
        "{name}: a report sender is still alive after the run"
    );
    RunResult {
        result,
        reports,
        script,
        dims,
    }
}

/// Checks a run that is expected to succeed.
fn check_success(case: &Case) {
    let name = case.name;
    let r = run_case(case);
    let k = r.dims.2;
    let stats = match &r.result {
        Ok(s) => s,
        Err(e) => panic!("{name}: unexpected error {e}"),
    };
    assert!(
        !r.script.shared.bad_codeword.load(Ordering::SeqCst),
        "{name}: the decoder was given LLRs that are not those of a codeword"
    );
    assert_eq!(stats.len(), case.ebn0s.len(), "{name}: one result per Eb/N0");

    // report stream: statistics grouped by Eb/N0 in order, then Finished
    assert_eq!(r.reports.last(), Some(&Report::Finished), "{name}");
    assert_eq!(
        r.reports.iter().filter(|x| **x == Report::Finished).count(),
        1,
        "{name}: exactly one Finished"
    );
    let mut point = 0;
    let mut last: Option<&Statistics> = None;
    let mut lasts: Vec<&Statistics> = Vec::new();
    for report in &r.reports {
        let Report::Statistics(s) = report else {
            break;
        };
        while point < case.ebn0s.len() && case.ebn0s[point] != s.ebn0_db {
            // moved on to the next point; the previous one must have finished
            lasts.push(last.take().expect("a point without any report"));
            point += 1;
        }
        assert!(point < case.ebn0s.len(), "{name}: report for unknown Eb/N0");
        if let Some(prev) = last {
            assert!(prev.num_frames <= s.num_frames, "{name}: frames went back");
            assert!(prev.total_iterations <= s.total_iterations);
        }
        check_whole_frames(
            s,
            &case.outcomes,
            k,
            case.bch_max_errors,
            case.max_frame_errors,
            false,
        );
        last = Some(s);
    }
    if let Some(l) = last {
        lasts.push(l);
    }
    assert_eq!(lasts.len(), stats.len(), "{name}: final report of each point");

    let mut used = vec![0u64; case.outcomes.len()];
    for ((s, final_report), &ebn0) in stats.iter().zip(&lasts).zip(&case.ebn0s) {
        assert_eq!(s.ebn0_db, ebn0);
        assert!(
            same_counts(s, final_report),
            "{name}: the last report of a point differs from its result\n{s:?}\n{final_report:?}"
        );
        let counts = check_whole_frames(
            s,
            &case.outcomes,
            k,
            case.bch_max_errors,
            case.max_frame_errors,
            true,
        );
        for (u, c) in used.iter_mut().zip(counts) {
            *u += c;
        }
    }
    // the frames counted are frames that the decoders did produce
    for (j, u) in used.iter().enumerate() {
        let returned = r.script.shared.returned[j].load(Ordering::SeqCst);
        assert!(*u <= returned, "{name}: type {j}: counted {u}, decoded {returned}");
    }
    // one decoder per worker and per point
    let built = r.script.shared.built.load(Ordering::SeqCst);
    if !case.ebn0s.is_empty() {
        assert!(built >= case.ebn0s.len(), "{name}");
        assert_eq!(built % case.ebn0s.len(), 0, "{name}: {built} decoders");
    }
}

/// Checks a run that must end with an error (and must not hang).
fn check_failure(case: &Case) -> String {
    let name = case.name;
    let r = run_case(case);
    let Err(e) = &r.result else {
        panic!("{name}: the run should have failed");
    };
    assert!(!e.is_empty());
    assert_eq!(r.reports.last(), Some(&Report::Finished), "{name}");
    assert_eq!(
        r.reports.iter().filter(|x| **x == Report::Finished).count(),
        1,
        "{name}: exactly one Finished"
    );
    for report in &r.reports {
        if let Report::Statistics(s) = report {
            check_whole_frames(
                s,
                &case.outcomes,
                r.dims.2,
                case.bch_max_errors,
                case.max_frame_errors,
                false,
            );
        }
    }
    e.clone()
}

fn standard_outcomes() -> Vec<Outcome> {
    vec![
        Outcome { bit_errors: 0, converged: true },
        Outcome { bit_errors: 3, converged: false },
        Outcome { bit_errors: 1, converged: true },
        Outcome { bit_errors: 0, converged: false },
        Outcome { bit_errors: 2, converged: true },
    ]
}

fn base_case(name: &'static str, h: SparseMatrix) -> Case {
    Case {
        name,
        h,
        modulation: Modulation::Bpsk,
        puncturing: None,
        interleaving: None,
        outcomes: standard_outcomes(),
        bch_max_errors: 0,
        max_frame_errors: 25,
        ebn0s: vec![40.0, 41.5, 43.0],
        interval: Duration::ZERO,
        sabotage: Sabotage::None,
        via_builder: true,
    }
}

// ------------------------------------------------------------------ BER tests

#[test]
fn ber_dense_code_plain_and_with_outer_code() {
    for bch in [0, 1, 2] {
        for via_builder in [true, false] {
            let mut case = base_case("dense", dense_h(24, 24, 7 + bch));
            case.bch_max_errors = bch;
            case.via_builder = via_builder;
            case.max_frame_errors = 17 + 10 * bch;
            check_success(&case);
        }
    }
}

#[test]
fn ber_staircase_code_with_stages() {
    // staircase code (n_cw = 150, k = 60), optionally with puncturing of the
    // last fifth of the codeword (parity only), with interleaving and both
    // modulations
    for (modulation, interleaving, punctured) in [
        (Modulation::Bpsk, Some(4), true),
        (Modulation::Bpsk, Some(-3), true),
        (Modulation::Psk8, Some(3), true),
        (Modulation::Psk8, Some(-3), true),
        (Modulation::Psk8, None, true),
        (Modulation::Bpsk, None, false),
        (Modulation::Bpsk, Some(-5), false),
        (Modulation::Psk8, Some(3), false),
        (Modulation::Psk8, Some(-6), false),
    ] {
        let mut case = base_case("staircase+stages", staircase_h(90, 60, 3));
        case.modulation = modulation;
        case.interleaving = interleaving;
        if punctured {
            case.puncturing = Some(vec![true, true, true, true, false]);
        }
        case.bch_max_errors = 1;
        case.ebn0s = vec![30.0, 33.0];
        case.interval = Duration::from_micros(200);
        let r = run_case(&case);
        let n = if punctured { 120 } else { 150 };
        assert_eq!(r.dims.0, n, "frame size after puncturing");
        assert!(same_f64(r.dims.3, 60.0 / n as f64));
        check_success(&case);
    }
}

#[test]
fn ber_many_outcome_kinds() {
    // six kinds of frames, some of them with the same number of bit errors but
    // a different decoder verdict, against several outer code capabilities
    let outcomes = vec![
        Outcome { bit_errors: 5, converged: false },
        Outcome { bit_errors: 0, converged: true },
        Outcome { bit_errors: 2, converged: true },
        Outcome { bit_errors: 2, converged: false },
        Outcome { bit_errors: 1, converged: false },
        Outcome { bit_errors: 7, converged: true },
    ];
    for (round, bch) in [0u64, 1, 2, 4, 5, 6].into_iter().enumerate() {
        let mut case = base_case("many kinds", dense_h(16, 40, 50 + bch));
        case.outcomes = outcomes.clone();
        case.bch_max_errors = bch;
        case.max_frame_errors = 11 + 3 * round as u64;
        case.ebn0s = vec![38.0, 39.0, 40.0, 41.0];
        case.via_builder = round % 2 == 0;
        case.interval = if round % 3 == 0 {
            Duration::ZERO
        } else {
            Duration::from_micros(50 * round as u64)
        };
        check_success(&case);
    }
}

#[test]
fn ber_corner_cases() {
    // a single frame error required
    let mut case = base_case("one error", dense_h(10, 14, 21));
    case.max_frame_errors = 1;
    check_success(&case);

    // no frame error required: no frame is accounted, ratios are 0/0
    let mut case = base_case("zero errors", dense_h(10, 14, 22));
    case.max_frame_errors = 0;
    case.ebn0s = vec![40.0, 45.0];
    let r = run_case(&case);
    let stats = r.result.as_ref().expect("zero errors");
    assert_eq!(stats.len(), 2);
    for s in stats {
        assert_eq!(s.num_frames, 0);
        assert_eq!(s.total_iterations, 0);
        assert!(s.ldpc.ber.is_nan() && s.ldpc.fer.is_nan());
        assert!(s.average_iterations.is_nan());
    }
    check_success(&case);

    // no Eb/N0 at all: only the Finished report
    let mut case = base_case("no points", dense_h(10, 14, 23));
    case.ebn0s = vec![];
    let r = run_case(&case);
    assert_eq!(r.result.as_ref().expect("no points").len(), 0);
    assert_eq!(r.reports, vec![Report::Finished]);
    assert_eq!(r.script.shared.built.load(Ordering::SeqCst), 0);

    // every frame is in error; the same Eb/N0 twice in a row
    let mut case = base_case("all bad", staircase_h(16, 8, 24));
    case.outcomes = vec![Outcome { bit_errors: 8, converged: false }];
    case.ebn0s = vec![40.0, 40.0];
    case.max_frame_errors = 9;
    let r = run_case(&case);
    let stats = r.result.as_ref().expect("all bad");
    assert_eq!(stats.len(), 2);
    for s in stats {
        assert_eq!(s.num_frames, 9);
        assert_eq!(s.ldpc.bit_errors, 72);
        assert!(same_f64(s.ldpc.ber, 1.0));
        assert!(same_f64(s.ldpc.fer, 1.0));
        assert!(s.ldpc.average_iterations_correct.is_nan());
    }

    // outer code that corrects everything but one outcome type; rare reports
    let mut case = base_case("outer code", dense_h(12, 30, 25));
    case.bch_max_errors = 2;
    case.interval = Duration::from_secs(3600);
    case.ebn0s = vec![40.0];
    let r = run_case(&case);
    // with an hour between reports only the final one of the point is sent
    assert_eq!(r.reports.len(), 2);
    check_success(&case);

}

#[test]
fn ber_failure_injection() {
    // puncturing pattern that does not divide the codeword size
    let mut case = base_case("bad puncturing", dense_h(10, 15, 31));
    case.puncturing = Some(vec![true, true, false, true]);
    let e = check_failure(&case);
    assert!(!e.is_empty());

    // same through the typed constructor, with an outer code
    case.via_builder = false;
    case.bch_max_errors = 1;
    check_failure(&case);

    // interleaver whose number of columns does not divide the frame size
    let mut case = base_case("bad interleaver", dense_h(10, 15, 32));
    case.interleaving = Some(4);
    check_failure(&case);
    case.interleaving = Some(-7);
    check_failure(&case);

    // 8PSK with a frame size that is not a multiple of 3
    let mut case = base_case("bad modulator", dense_h(10, 15, 33));
    case.modulation = Modulation::Psk8;
    check_failure(&case);

    // puncturing fits but what is left does not fit the interleaver
    let mut case = base_case("puncturing then interleaver", staircase_h(20, 20, 34));
    case.puncturing = Some(vec![true, true, true, false]);
    case.interleaving = Some(4);
    check_failure(&case);

    // all-false puncturing pattern: nothing is transmitted
    let mut case = base_case("all punctured", dense_h(10, 10, 35));
    case.puncturing = Some(vec![false, false]);
    check_failure(&case);

    // every decoder panics
    let mut case = base_case("all decoders panic", dense_h(10, 15, 36));
    case.sabotage = Sabotage::AllDecodersPanic;
    check_failure(&case);

    // some decoders panic (on their second frame)
    for round in 0..4 {
        let mut case = base_case("odd decoders panic", dense_h(10, 15, 37));
        case.sabotage = Sabotage::OddDecodersPanic;
        case.max_frame_errors = 40 + round;
        case.ebn0s = vec![40.0, 42.0];
        let r = run_case(&case);
        assert_eq!(r.reports.last(), Some(&Report::Finished));
        if r.script.shared.panicked.load(Ordering::SeqCst) {
            // a worker died: the run must say so once its point is over
            assert!(r.result.is_err(), "a panicking worker went unnoticed");
        } else {
            assert!(r.result.is_ok());
        }
    }
}

#[test]
fn encoder_not_invertible_is_reported_by_the_constructors() {
    let mut h = dense_h(8, 8, 41);
    // make two rows of H1 equal
    for c in 8..16 {
        if h.contains(0, c) != h.contains(1, c) {
            h.toggle(1, c);
        }
    }
    assert!(!parity_part_is_invertible(&h));
    let script = Script::new(&standard_outcomes(), 16, Sabotage::None);
    let r = BerTest::<Bpsk, Script>::new(h.clone(), script.clone(), None, None, 1, 1, &[1.0], None, 0);
    assert_eq!(r.err(), Some(EncoderError::SubmatrixNotInvertible));
    let r = BerTestBuilder {
        h,
        decoder_implementation: script,
        modulation: Modulation::Psk8,
        puncturing_pattern: None,
        interleaving_columns: None,
        max_frame_errors: 1,
        max_iterations: 1,
        ebn0s_db: &[1.0],
        reporter: None,
        bch_max_errors: 0,
    }
    .build();
    assert!(r.is_err());
}
