// Demonstration for the seed search of the MacKay-Neal construction
// (`ldpc_toolbox::mackay_neal::Config::search`).
//
// The property that is checked: the search returns a seed inside the requested
// range together with exactly the matrix that this seed produces, and it
// returns nothing only if every seed in the range fails. The matrices returned
// honour their configuration, and runs are reproducible.
//
// Only the public API of the crate and std are used. Every test body runs in
// a helper thread that is awaited with a timeout, so the test fails instead of
// hanging if something never returns.

use ldpc_toolbox::mackay_neal::{Config, FillPolicy};
use ldpc_toolbox::sparse::SparseMatrix;
use std::sync::mpsc;
use std::time::Duration;

fn with_timeout<F: FnOnce() + Send + 'static>(secs: u64, f: F) {
    let (tx, rx) = mpsc::channel();
    let handle = std::thread::spawn(move || {
        f();
        let _ = tx.send(());
    });
    match rx.recv_timeout(Duration::from_secs(secs)) {
        Ok(()) => handle.join().unwrap(),
        Err(mpsc::RecvTimeoutError::Disconnected) => {
            // the body panicked: propagate the panic
            if let Err(e) = handle.join() {
                std::panic::resume_unwind(e);
            }
            panic!("test body ended without reporting");
        }
        Err(mpsc::RecvTimeoutError::Timeout) => panic!("timed out after {secs} s"),
    }
}

// A 6 x 12 regular (3, 6) code built with the random policy and no
// backtracking: fails for a good share of the seeds.
fn flaky() -> Config {
    Config {
        nrows: 6,
        ncols: 12,
        wr: 6,
        wc: 3,
        backtrack_cols: 0,
        backtrack_trials: 0,
        min_girth: None,
        girth_trials: 0,
        fill_policy: FillPolicy::Random,
    }
}

// Girth 6 on a small matrix with some girth trials: about one seed in three
// succeeds.
fn girthy() -> Config {
    Config {
        nrows: 9,
        ncols: 18,
        wr: 4,
        wc: 2,
        backtrack_cols: 1,
        backtrack_trials: 1,
        min_girth: Some(6),
        girth_trials: 4,
        fill_policy: FillPolicy::Random,
    }
}

// Girth 6 on a smaller matrix without girth trials: about one seed in fifty
// succeeds.
fn rare() -> Config {
    Config {
        nrows: 7,
        ncols: 14,
        girth_trials: 0,
        ..girthy()
    }
}

// Always succeeds.
fn always() -> Config {
    Config {
        nrows: 4,
        ncols: 8,
        wr: 4,
        wc: 2,
        backtrack_cols: 0,
        backtrack_trials: 0,
        min_girth: None,
        girth_trials: 0,
        fill_policy: FillPolicy::Uniform,
    }
}

// Never succeeds: the column weight exceeds the number of rows.
fn never() -> Config {
    Config {
        nrows: 3,
        ncols: 5,
        wr: 10,
        wc: 4,
        backtrack_cols: 2,
        backtrack_trials: 3,
        min_girth: None,
        girth_trials: 0,
        fill_policy: FillPolicy::Uniform,
    }
}

// Never succeeds either, but through the girth trials: a 2 x 2 matrix of ones
// always has a 4-cycle.
fn never_girth() -> Config {
    Config {
        nrows: 2,
        ncols: 2,
        wr: 2,
        wc: 2,
        backtrack_cols: 0,
        backtrack_trials: 0,
        min_girth: Some(6),
        girth_trials: 5,
        fill_policy: FillPolicy::Random,
    }
}

fn check_matrix(conf: &Config, h: &SparseMatrix) {
    assert_eq!(h.num_rows(), conf.nrows);
    assert_eq!(h.num_cols(), conf.ncols);
    for c in 0..h.num_cols() {
        assert_eq!(h.col_weight(c), conf.wc, "column weight in {conf:?}");
    }
    let weights: Vec<usize> = (0..h.num_rows()).map(|r| h.row_weight(r)).collect();
    for &w in &weights {
        assert!(w <= conf.wr, "row weight in {conf:?}");
    }
    if let Some(g) = conf.min_girth {
        if let Some(girth) = h.girth() {
            assert!(girth >= g, "girth {girth} < {g} in {conf:?}");
        }
    } else if conf.fill_policy == FillPolicy::Uniform && !weights.is_empty() {
        let lo = weights.iter().min().unwrap();
        let hi = weights.iter().max().unwrap();
        assert!(hi - lo <= 1, "uniform row weights in {conf:?}");
    }
}

// Checks one call of search against the outcome of each seed of the range.
fn check_search(conf: &Config, start: u64, tries: u64) -> Option<u64> {
    let result = conf.search(start, tries);
    match result {
        Some((seed, h)) => {
            assert!(
                seed >= start && seed - start < tries,
                "seed {seed} outside {start}+{tries}"
            );
            let again = conf.run(seed);
            assert_eq!(
                again.as_ref().ok(),
                Some(&h),
                "matrix does not belong to seed {seed}"
            );
            assert_eq!(again.unwrap().alist(), h.alist());
            check_matrix(conf, &h);
            Some(seed)
        }
        None => {
            for seed in start..start + tries {
                assert!(
                    conf.run(seed).is_err(),
                    "search({start}, {tries}) found nothing but seed {seed} works"
                );
            }
            None
        }
    }
}

const STARTS: [u64; 7] = [
    0,
    1,
    7,
    1000,
    0xffff_ffff,
    0x1234_5678_9abc_def0,
    u64::MAX - 300,
];
const TRIES: [u64; 22] = [
    0, 1, 2, 3, 4, 5, 6, 7, 8, 9, 10, 15, 16, 17, 31, 32, 33, 63, 64, 65, 100, 300,
];

#[test]
fn search_small_ranges() {
    with_timeout(600, || {
        for conf in [flaky(), girthy(), rare(), always(), never(), never_girth()] {
            for &start in &STARTS {
                for &tries in &TRIES {
                    for _ in 0..2 {
                        check_search(&conf, start, tries);
                    }
                }
            }
        }
    });
}

#[test]
fn search_range_ending_at_the_last_seed() {
    with_timeout(600, || {
        // start + tries == u64::MAX, the largest end that does not overflow
        for conf in [flaky(), girthy(), rare(), never()] {
            for tries in [1u64, 2, 3, 9, 10, 64, 257, 2049] {
                check_search(&conf, u64::MAX - tries, tries);
            }
        }
    });
}

#[test]
fn search_finds_the_only_good_seed() {
    with_timeout(600, || {
        // For each configuration, find isolated good seeds by running the
        // seeds one by one, and then ask the search for windows that contain
        // exactly one good seed: that seed has to be returned.
        for conf in [rare(), girthy(), flaky()] {
            let span = 3000u64;
            let good: Vec<u64> = (0..span).filter(|&s| conf.run(s).is_ok()).collect();
            assert!(!good.is_empty());
            assert!((good.len() as u64) < span);
            let mut windows = 0;
            for (k, &g) in good.iter().enumerate() {
                let prev = if k == 0 { 0 } else { good[k - 1] + 1 };
                let next = if k + 1 == good.len() { span } else { good[k + 1] };
                // window prev..next contains only g
                assert_eq!(check_search(&conf, prev, next - prev), Some(g));
                assert_eq!(check_search(&conf, g, 1), Some(g));
                if g > prev {
                    // all the seeds in prev..g fail
                    assert_eq!(check_search(&conf, prev, g - prev), None);
                }
                windows += 1;
                if windows >= 40 {
                    break;
                }
            }
        }
    });
}

#[test]
fn search_large_ranges() {
    with_timeout(900, || {
        // every seed fails: all of them have to be tried, and nothing is found
        assert!(never().search(0, 40_000).is_none());
        assert!(never().search(u64::MAX - 40_000, 40_000).is_none());
        assert!(never_girth().search(12345, 40_000).is_none());
        // huge ranges with a success early on have to return promptly
        for conf in [always(), flaky(), girthy(), rare()] {
            for start in [0u64, 99, 1 << 40] {
                let (seed, h) = conf.search(start, 1 << 50).unwrap();
                assert!(seed >= start && seed - start < (1 << 50));
                assert_eq!(conf.run(seed).unwrap(), h);
                check_matrix(&conf, &h);
            }
        }
        for _ in 0..5 {
            check_search(&rare(), 0, 5000);
            check_search(&girthy(), 77, 5000);
            check_search(&flaky(), 500, 5000);
        }
    });
}

#[test]
fn search_from_concurrent_callers() {
    with_timeout(900, || {
        let handles: Vec<_> = (0..6u64)
            .map(|t| {
                std::thread::spawn(move || {
                    for round in 0..30u64 {
                        let conf = match (t + round) % 5 {
                            0 => flaky(),
                            1 => rare(),
                            2 => always(),
                            3 => girthy(),
                            _ => never(),
                        };
                        check_search(&conf, 1000 * t + 10 * round, 50 + round);
                    }
                })
            })
            .collect();
        for h in handles {
            h.join().unwrap();
        }
    });
}

#[test]
fn runs_are_reproducible_and_seeds_matter() {
    with_timeout(600, || {
        for conf in [flaky(), girthy(), rare(), always()] {
            let mut distinct: Vec<String> = Vec::new();
            for seed in 0..200u64 {
                let a = conf.run(seed);
                let b = conf.run(seed);
                assert_eq!(a, b);
                if let Ok(h) = a {
                    check_matrix(&conf, &h);
                    let alist = h.alist();
                    if !distinct.contains(&alist) {
                        distinct.push(alist);
                    }
                }
            }
            assert!(distinct.len() > 1, "all the seeds give the same matrix");
        }
    });
}

#[test]
fn known_matrix() {
    // The same (configuration, seed) as in the unit test of the crate.
    let conf = Config {
        fill_policy: FillPolicy::Random,
        ..always()
    };
    let expected = "8 4
2 4
2 2 2 2 2 2 2 2
4 4 4 4
1 3
2 4
2 3
1 4
1 4
1 4
2 3
2 3
1 4 5 6
2 3 7 8
1 3 7 8
2 4 5 6
";
    assert_eq!(conf.run(187).unwrap().alist(), expected);
    let (seed, h) = conf.search(187, 1).unwrap();
    assert_eq!(seed, 187);
    assert_eq!(h.alist(), expected);
}
