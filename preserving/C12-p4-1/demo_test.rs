// Demonstration for property C12 (the BER chain hands the decoder correctly
// ordered, correctly scaled LLRs), focused on the systematic encoder that the
// chain relies on (dense generator and staircase encoders, staircase
// detection, GF(2) arithmetic).
//
// Part 1 checks the encoder on many parity check matrices (sizes around the
// 64 bit word boundaries included): codeword length, systematic prefix,
// H c = 0, invertibility error, linearity.
//
// Part 2 runs the complete BER chain with a recording decoder and checks what
// the property says about the frames handed to the decoder.

use ldpc_toolbox::{
    decoder::{DecoderOutput, LdpcDecoder, factory::DecoderFactory},
    encoder::{Encoder, Error as EncoderError},
    gf2::GF2,
    simulation::factory::{BerTestBuilder, Modulation},
    sparse::SparseMatrix,
};
use ndarray::{Array1, s};
use num_traits::{One, Zero};
use std::{
    fmt::Display,
    sync::{Arc, Mutex, mpsc},
    time::Duration,
};

// ---------------------------------------------------------------- utilities

struct Lcg(u64);

impl Lcg {
    fn next(&mut self) -> u64 {
        self.0 = self
            .0
            .wrapping_mul(6364136223846793005)
            .wrapping_add(1442695040888963407);
        self.0 >> 33
    }

    fn below(&mut self, n: usize) -> usize {
        (self.next() % n as u64) as usize
    }

    fn bit(&mut self) -> bool {
        self.next() & 1 == 1
    }
}

fn with_timeout<F: FnOnce() + Send + 'static>(seconds: u64, f: F) {
    let (tx, rx) = mpsc::channel();
    std::thread::spawn(move || {
        f();
        let _ = tx.send(());
    });
    match rx.recv_timeout(Duration::from_secs(seconds)) {
        Ok(()) => (),
        Err(mpsc::RecvTimeoutError::Timeout) => panic!("timed out"),
        Err(mpsc::RecvTimeoutError::Disconnected) => panic!("the test body panicked"),
    }
}

fn gf2(bit: bool) -> GF2 {
    if bit { GF2::one() } else { GF2::zero() }
}

fn to_bits(a: &Array1<GF2>) -> Vec<bool> {
    a.iter().map(|x| x.is_one()).collect()
}

fn syndrome_is_zero(h: &SparseMatrix, codeword: &[bool]) -> bool {
    (0..h.num_rows()).all(|r| h.iter_row(r).filter(|&&c| codeword[c]).count() % 2 == 0)
}

// Rank of a dense binary matrix (independent reference, rows as Vec<bool>).
fn is_invertible(mut a: Vec<Vec<bool>>) -> bool {
    let n = a.len();
    for j in 0..n {
        let Some(p) = (j..n).find(|&r| a[r][j]) else {
            return false;
        };
        a.swap(j, p);
        for r in 0..n {
            if r != j && a[r][j] {
                for c in 0..n {
                    let v = a[j][c];
                    a[r][c] ^= v;
                }
            }
        }
    }
    true
}

fn parity_part(h: &SparseMatrix) -> Vec<Vec<bool>> {
    let n = h.num_rows();
    let k = h.num_cols() - n;
    let mut a = vec![vec![false; n]; n];
    for (r, c) in h.iter_all() {
        if c >= k {
            a[r][c - k] = true;
        }
    }
    a
}

// H = [H0 H1] with H1 of staircase type and H0 random.
fn staircase_h(rng: &mut Lcg, checks: usize, k: usize, row_weight: usize) -> SparseMatrix {
    let mut h = SparseMatrix::new(checks, k + checks);
    // insert in a scrambled order, since the order of insertion must not matter
    let mut positions = Vec::new();
    for j in 0..checks {
        positions.push((j, k + j));
        if j > 0 {
            positions.push((j, k + j - 1));
        }
        if k > 0 {
            for _ in 0..row_weight {
                positions.push((j, rng.below(k)));
            }
        }
    }
    for i in (1..positions.len()).rev() {
        positions.swap(i, rng.below(i + 1));
    }
    for (r, c) in positions {
        h.insert(r, c);
    }
    // make sure that every information column is used
    for c in 0..k {
        if h.col_weight(c) == 0 {
            h.insert(rng.below(checks), c);
        }
    }
    h
}

// H = [H0 H1] with H1 an invertible matrix that is not of staircase type
// (unit lower triangular matrix with permuted rows and columns) and H0 random.
fn dense_h(rng: &mut Lcg, checks: usize, k: usize, density_percent: u64) -> SparseMatrix {
    let mut row_perm = (0..checks).collect::<Vec<_>>();
    let mut col_perm = (0..checks).collect::<Vec<_>>();
    for i in (1..checks).rev() {
        row_perm.swap(i, rng.below(i + 1));
        col_perm.swap(i, rng.below(i + 1));
    }
    let mut h = SparseMatrix::new(checks, k + checks);
    for r in 0..checks {
        for c in 0..=r {
            if c == r || rng.next() % 100 < density_percent {
                h.insert(row_perm[r], k + col_perm[c]);
            }
        }
        for c in 0..k {
            if rng.next() % 100 < density_percent {
                h.insert(row_perm[r], c);
            }
        }
    }
    h
}

fn check_encoder(h: &SparseMatrix, rng: &mut Lcg, num_random_messages: usize) {
    let checks = h.num_rows();
    let n = h.num_cols();
    let k = n - checks;
    let invertible = is_invertible(parity_part(h));
    let encoder = match Encoder::from_h(h) {
        Ok(e) => {
            assert!(invertible, "encoder built for a singular parity part");
            e
        }
        Err(e) => {
            assert!(!invertible, "encoder not built for an invertible parity part");
            assert_eq!(e, EncoderError::SubmatrixNotInvertible);
            assert!(!e.to_string().is_empty());
            return;
        }
    };
    // constructing again gives an equal encoder; clones are equal
    assert_eq!(encoder, Encoder::from_h(h).unwrap());
    assert_eq!(encoder, encoder.clone());

    let mut messages: Vec<Vec<bool>> = vec![vec![false; k], vec![true; k]];
    for j in 0..k.min(70) {
        // unit messages (first ones and last ones)
        let mut m = vec![false; k];
        m[j] = true;
        messages.push(m);
        let mut m = vec![false; k];
        m[k - 1 - j] = true;
        messages.push(m);
    }
    for _ in 0..num_random_messages {
        messages.push((0..k).map(|_| rng.bit()).collect());
    }
    let mut codewords = Vec::new();
    for m in &messages {
        let message = Array1::from_iter(m.iter().map(|&b| gf2(b)));
        let codeword = encoder.encode(&message);
        assert_eq!(codeword.len(), n);
        assert!(codeword.as_slice().is_some());
        let bits = to_bits(&codeword);
        assert_eq!(&bits[..k], &m[..], "the codeword is not systematic");
        assert!(syndrome_is_zero(h, &bits), "H c != 0");
        // encoding is a pure function
        assert_eq!(codeword, encoder.encode(&message));
        // a non-contiguous view of the same message gives the same codeword
        let spread = Array1::from_iter(
            m.iter()
                .flat_map(|&b| [gf2(b), GF2::one()])
                .chain([GF2::one()]),
        );
        let view = spread.slice(s![..2 * k;2]);
        assert_eq!(view.len(), k);
        assert_eq!(codeword, encoder.encode(&view));
        codewords.push(bits);
    }
    // linearity: the sum of the two last codewords is the codeword of the sum
    if messages.len() >= 2 {
        let a = messages.len() - 1;
        let b = messages.len() - 2;
        let sum = Array1::from_iter((0..k).map(|j| gf2(messages[a][j] ^ messages[b][j])));
        let expected = (0..n)
            .map(|j| codewords[a][j] ^ codewords[b][j])
            .collect::<Vec<_>>();
        assert_eq!(to_bits(&encoder.encode(&sum)), expected);
    }
}

#[test]
fn gf2_arithmetic() {
    let o = GF2::zero();
    let i = GF2::one();
    assert_eq!(GF2::default(), o);
    assert!(o.is_zero() && !o.is_one() && i.is_one() && !i.is_zero());
    for (a, b) in [(o, o), (o, i), (i, o), (i, i)] {
        let xor = gf2(a.is_one() ^ b.is_one());
        let and = gf2(a.is_one() & b.is_one());
        assert_eq!(a + b, xor);
        assert_eq!(a - b, xor);
        assert_eq!(a * b, and);
        assert_eq!(a + &b, xor);
        assert_eq!(a * &b, and);
        let mut c = a;
        c += b;
        assert_eq!(c, xor);
        c = a;
        c -= &b;
        assert_eq!(c, xor);
        c = a;
        c *= b;
        assert_eq!(c, and);
        if b.is_one() {
            assert_eq!(a / b, a);
        } else {
            assert!(std::panic::catch_unwind(|| a / b).is_err());
        }
    }
    for len in 0..9 {
        for mask in 0..(1u32 << len) {
            let v = (0..len).map(|j| gf2(mask >> j & 1 == 1)).collect::<Vec<_>>();
            let sum: GF2 = v.iter().copied().sum();
            assert_eq!(sum, gf2(mask.count_ones() % 2 == 1));
        }
    }
}

#[test]
fn encoder_on_many_codes() {
    with_timeout(600, || {
        let mut rng = Lcg(0x5eed_c12);
        let sizes = [1, 2, 3, 5, 31, 63, 64, 65, 100, 127, 128, 129];
        for &checks in &sizes {
            for &k in &[0, 1, 2, 3, 7, 63, 64, 65, 130, 200] {
                if checks * (checks + k) > 40000 {
                    continue;
                }
                let h = staircase_h(&mut rng, checks, k, 3);
                check_encoder(&h, &mut rng, 6);
                for density in [10, 50] {
                    let h = dense_h(&mut rng, checks, k, density);
                    check_encoder(&h, &mut rng, 6);
                }
            }
        }
    });
}

#[test]
fn encoder_near_staircase_and_singular() {
    with_timeout(600, || {
        let mut rng = Lcg(77);
        for checks in [1usize, 2, 3, 4, 8, 20, 64, 65] {
            for k in [1usize, 4, 70] {
                let base = staircase_h(&mut rng, checks, k, 2);
                // one more one somewhere in the parity part
                for _ in 0..6 {
                    let mut h = base.clone();
                    h.toggle(rng.below(checks), k + rng.below(checks));
                    check_encoder(&h, &mut rng, 3);
                }
                // two toggles
                for _ in 0..6 {
                    let mut h = base.clone();
                    h.toggle(rng.below(checks), k + rng.below(checks));
                    h.toggle(rng.below(checks), k + rng.below(checks));
                    check_encoder(&h, &mut rng, 3);
                }
                // a zero parity column (singular)
                let mut h = base.clone();
                h.clear_col(k + rng.below(checks));
                check_encoder(&h, &mut rng, 1);
                assert!(Encoder::from_h(&h).is_err());
                // two equal rows in the parity part (singular), if possible
                if checks >= 2 {
                    let mut h = dense_h(&mut rng, checks, k, 30);
                    let a = rng.below(checks);
                    let b = (a + 1 + rng.below(checks - 1)) % checks;
                    let row_a = h
                        .iter_row(a)
                        .copied()
                        .filter(|&c| c >= k)
                        .collect::<Vec<_>>();
                    let info_b = h
                        .iter_row(b)
                        .copied()
                        .filter(|&c| c < k)
                        .collect::<Vec<_>>();
                    h.set_row(b, info_b.iter().chain(row_a.iter()));
                    check_encoder(&h, &mut rng, 1);
                    assert_eq!(
                        Encoder::from_h(&h).unwrap_err(),
                        EncoderError::SubmatrixNotInvertible
                    );
                }
            }
        }
    });
}

#[test]
fn encoder_dvbs2_short_codes() {
    with_timeout(600, || {
        use ldpc_toolbox::codes::dvbs2::Code;
        let mut rng = Lcg(16200);
        for code in [Code::R1_4short, Code::R1_2short, Code::R8_9short] {
            let h = code.h();
            let n = h.num_cols();
            let k = n - h.num_rows();
            let encoder = Encoder::from_h(&h).unwrap();
            for _ in 0..3 {
                let m = (0..k).map(|_| rng.bit()).collect::<Vec<_>>();
                let codeword = encoder.encode(&Array1::from_iter(m.iter().map(|&b| gf2(b))));
                let bits = to_bits(&codeword);
                assert_eq!(bits.len(), n);
                assert_eq!(&bits[..k], &m[..]);
                assert!(syndrome_is_zero(&h, &bits));
            }
        }
    });
}

#[test]
fn dense_encoder_rejects_wrong_message_length() {
    let mut rng = Lcg(5);
    let h = dense_h(&mut rng, 6, 9, 50);
    let encoder = Encoder::from_h(&h).unwrap();
    for len in [0usize, 8, 10, 64, 65] {
        let message = Array1::from_elem(len, GF2::one());
        let r = std::panic::catch_unwind(std::panic::AssertUnwindSafe(|| encoder.encode(&message)));
        assert!(r.is_err(), "a message of length {len} was accepted");
    }
}

// ------------------------------------------------------- complete BER chain

#[derive(Debug, Clone)]
struct Recorder {
    frames: Arc<Mutex<Vec<Vec<f64>>>>,
    limit: usize,
}

impl Display for Recorder {
    fn fmt(&self, f: &mut std::fmt::Formatter<'_>) -> std::fmt::Result {
        write!(f, "Recorder")
    }
}

#[derive(Debug)]
struct RecordingDecoder {
    frames: Arc<Mutex<Vec<Vec<f64>>>>,
    limit: usize,
}

impl DecoderFactory for Recorder {
    fn build_decoder(&self, _h: SparseMatrix) -> Box<dyn LdpcDecoder> {
        Box::new(RecordingDecoder {
            frames: Arc::clone(&self.frames),
            limit: self.limit,
        })
    }
}

impl LdpcDecoder for RecordingDecoder {
    fn decode(&mut self, llrs: &[f64], _max: usize) -> Result<DecoderOutput, DecoderOutput> {
        {
            let mut frames = self.frames.lock().unwrap();
            if frames.len() < self.limit {
                frames.push(llrs.to_vec());
            }
        }
        // Always answer with the complement of the hard decision, so that
        // every frame is a frame error and the test ends after a known number
        // of frames.
        Err(DecoderOutput {
            codeword: llrs.iter().map(|&x| u8::from(x >= 0.0)).collect(),
            iterations: 1,
        })
    }
}

#[derive(Clone)]
struct Config {
    h: SparseMatrix,
    modulation: Modulation,
    pattern: Option<Vec<bool>>,
    interleaving: Option<isize>,
}

struct ChainOutput {
    frames: Vec<Vec<f64>>,
    n: usize,
    n_cw: usize,
    k: usize,
    rate: f64,
}

fn run_chain(config: &Config, ebn0_db: f32, num_frames: u64) -> ChainOutput {
    let recorder = Recorder {
        frames: Arc::new(Mutex::new(Vec::new())),
        limit: num_frames as usize,
    };
    let test = BerTestBuilder {
        h: config.h.clone(),
        decoder_implementation: recorder.clone(),
        modulation: config.modulation,
        puncturing_pattern: config.pattern.as_deref(),
        interleaving_columns: config.interleaving,
        max_frame_errors: num_frames,
        max_iterations: 1,
        ebn0s_db: &[ebn0_db],
        reporter: None,
        bch_max_errors: 0,
    }
    .build()
    .unwrap();
    let (n, n_cw, k, rate) = (test.n(), test.n_cw(), test.k(), test.rate());
    let stats = test.run().unwrap();
    assert_eq!(stats.len(), 1);
    assert_eq!(stats[0].ebn0_db, ebn0_db);
    assert!(stats[0].num_frames >= num_frames);
    assert_eq!(stats[0].ldpc.frame_errors, stats[0].num_frames);
    let frames = std::mem::take(&mut *recorder.frames.lock().unwrap());
    assert_eq!(frames.len(), num_frames as usize);
    ChainOutput {
        frames,
        n,
        n_cw,
        k,
        rate,
    }
}

fn bits_per_symbol(m: Modulation) -> f64 {
    match m {
        Modulation::Bpsk => 1.0,
        Modulation::Psk8 => 3.0,
    }
}

// Checks everything the property says that can be checked at a high Eb/N0.
fn check_chain(config: &Config) {
    let ebn0_db = 40.0f32;
    let out = run_chain(config, ebn0_db, 24);
    let h = &config.h;
    let n_cw = h.num_cols();
    let k = n_cw - h.num_rows();
    let kept = |j: usize| match &config.pattern {
        Some(p) => p[j / (n_cw / p.len())],
        None => true,
    };
    let n = (0..n_cw).filter(|&j| kept(j)).count();
    assert_eq!(out.n_cw, n_cw);
    assert_eq!(out.k, k);
    assert_eq!(out.n, n);
    assert!((out.rate - k as f64 / n as f64).abs() < 1e-12);
    let esn0 = (k as f64 / n as f64)
        * bits_per_symbol(config.modulation)
        * 10.0f64.powf(0.1 * f64::from(ebn0_db));
    let sigma = (0.5 / esn0).sqrt();
    let encoder = Encoder::from_h(h).unwrap();
    let unknown_info = (0..k).filter(|&j| !kept(j)).collect::<Vec<_>>();
    assert!(unknown_info.len() <= 10);
    for llrs in &out.frames {
        assert_eq!(llrs.len(), n_cw);
        for (j, &llr) in llrs.iter().enumerate() {
            if kept(j) {
                assert!(llr.is_finite() && llr != 0.0);
            } else {
                assert!(llr == 0.0, "punctured position with non-zero LLR");
            }
        }
        if config.modulation == Modulation::Bpsk {
            // LLR = -2 (s + w) / sigma^2 with s = +-1
            for (j, &llr) in llrs.iter().enumerate() {
                if kept(j) {
                    let y = llr.abs() * sigma * sigma / 2.0;
                    assert!((y - 1.0).abs() < 9.0 * sigma, "wrong LLR scale: {y}");
                }
            }
        }
        // The signs must be those of a systematic codeword in codeword bit
        // order. A negative LLR is a bit equal to one.
        let hard = llrs.iter().map(|&x| x < 0.0).collect::<Vec<_>>();
        let mut found = false;
        for guess in 0..(1u32 << unknown_info.len()) {
            let mut message = hard[..k].to_vec();
            for (t, &j) in unknown_info.iter().enumerate() {
                message[j] = guess >> t & 1 == 1;
            }
            let codeword = to_bits(&encoder.encode(&Array1::from_iter(
                message.iter().map(|&b| gf2(b)),
            )));
            assert!(syndrome_is_zero(h, &codeword));
            if (0..n_cw).all(|j| !kept(j) || codeword[j] == hard[j]) {
                found = true;
                break;
            }
        }
        assert!(found, "the signs of the LLRs are not those of a codeword");
    }
    // the frames are not all the same codeword
    let first = out.frames[0].iter().map(|&x| x < 0.0).collect::<Vec<_>>();
    assert!(
        out.frames
            .iter()
            .any(|f| f.iter().map(|&x| x < 0.0).collect::<Vec<_>>() != first)
    );
}

const DENSE_ALIST: &str = "12 4
3 9
3 3 3 3 3 3 3 3 3 3 3 3
9 9 9 9
1 2 3
1 3 4
2 3 4
2 3 4
1 2 4
1 2 3
1 3 4
1 2 4
1 2 3
2 3 4
1 2 4
1 3 4
1 2 5 6 7 8 9 11 12
1 3 4 5 6 8 9 10 11
1 2 3 4 6 7 9 10 12
2 3 4 5 7 8 10 11 12
";

#[test]
fn ber_chain_frames() {
    with_timeout(900, || {
        let mut rng = Lcg(2024);
        let codes = [
            SparseMatrix::from_alist(DENSE_ALIST).unwrap(),
            staircase_h(&mut rng, 12, 12, 3),
            dense_h(&mut rng, 66, 78, 10),
            staircase_h(&mut rng, 70, 74, 4),
        ];
        for h in &codes {
            let n_cw = h.num_cols();
            let mut patterns: Vec<Option<Vec<bool>>> = vec![
                None,
                Some(vec![true, true, true, false]),
                Some(vec![true, true, true]),
            ];
            if n_cw <= 24 {
                // punctures some information bits
                patterns.push(Some(vec![true, false, true, true, true, true]));
            } else {
                // punctures 6 information bits and 6 parity bits
                let mut p = vec![true; 24];
                p[1] = false;
                p[20] = false;
                patterns.push(Some(p));
            }
            for pattern in &patterns {
                let n = match pattern {
                    Some(p) => n_cw / p.len() * p.iter().filter(|&&b| b).count(),
                    None => n_cw,
                };
                for modulation in [Modulation::Bpsk, Modulation::Psk8] {
                    if modulation == Modulation::Psk8 && n % 3 != 0 {
                        continue;
                    }
                    for interleaving in [None, Some(3isize), Some(-3), Some(1), Some(-2)] {
                        if let Some(c) = interleaving {
                            if n % c.unsigned_abs() != 0 {
                                continue;
                            }
                        }
                        check_chain(&Config {
                            h: h.clone(),
                            modulation,
                            pattern: pattern.clone(),
                            interleaving,
                        });
                    }
                }
            }
        }
    });
}
