// Demonstration for rewrite 3 (internals of the MacKay-Neal construction:
// bookkeeping of the open rows, girth check, backtracking).
//
// Through the public API only:
//  * every successful run gives a matrix of the requested size, with all the
//    columns of the requested weight (no repeated entries), no row above the
//    maximum row weight, girth at least the requested minimum (computed with
//    `SparseMatrix::girth` and, independently, with a brute force search for
//    short cycles written in this file), and row weights that differ by at
//    most one under the uniform policy without girth constraint;
//  * failures are only NoMoreBacktrack / NoMoreTrials, the latter only when
//    there is a girth constraint that can reject something;
//  * runs are reproducible (`==` on `SparseMatrix`, which is sensitive to the
//    internal order of the entries) and seeds matter;
//  * a table of outcomes (fingerprint of the matrix including its internal
//    entry order, or the error) obtained with the implementation before the
//    rewrite pins the exact result per (configuration, seed), with heavy use of
//    girth rejections and backtracking;
//  * corner cases: zero rows / columns / weights, wc > nrows, wr == 0,
//    min_girth 1..5 (which can never reject anything or only 4-cycles), odd
//    min_girth, backtracking further than the first column.

use ldpc_toolbox::mackay_neal::{Config, Error, FillPolicy};
use ldpc_toolbox::sparse::SparseMatrix;
use std::sync::mpsc;
use std::time::Duration;

const TIMEOUT: Duration = Duration::from_secs(600);

fn with_timeout<F: FnOnce() + Send + 'static>(f: F) {
    let (tx, rx) = mpsc::channel();
    let handle = std::thread::spawn(move || {
        f();
        let _ = tx.send(());
    });
    match rx.recv_timeout(TIMEOUT) {
        Ok(()) => handle.join().unwrap(),
        Err(mpsc::RecvTimeoutError::Disconnected) => {
            if let Err(e) = handle.join() {
                std::panic::resume_unwind(e);
            }
            panic!("worker ended without reporting");
        }
        Err(mpsc::RecvTimeoutError::Timeout) => panic!("timed out"),
    }
}

fn fnv(acc: &mut u64, x: u64) {
    for b in x.to_le_bytes() {
        *acc ^= b as u64;
        *acc = acc.wrapping_mul(0x100000001b3);
    }
}

// Fingerprint of a matrix, including the internal order of the entries.
fn fingerprint(h: &SparseMatrix) -> u64 {
    let mut acc = 0xcbf29ce484222325u64;
    fnv(&mut acc, h.num_rows() as u64);
    fnv(&mut acc, h.num_cols() as u64);
    for c in 0..h.num_cols() {
        fnv(&mut acc, u64::MAX);
        for &r in h.iter_col(c) {
            fnv(&mut acc, r as u64);
        }
    }
    for r in 0..h.num_rows() {
        fnv(&mut acc, u64::MAX - 1);
        for &c in h.iter_row(r) {
            fnv(&mut acc, c as u64);
        }
    }
    // never collide with the error codes below
    acc | (1 << 63)
}

fn outcome(conf: &Config, seed: u64) -> u64 {
    match conf.run(seed) {
        Ok(h) => fingerprint(&h),
        Err(Error::NoMoreBacktrack) => 1,
        Err(Error::NoMoreTrials) => 2,
        Err(e) => panic!("unexpected error {e:?}"),
    }
}

// Length of the shortest cycle through column `c`, by exhaustive search over
// simple paths of bounded length (independent of the library's BFS).
fn shortest_cycle_through_col(h: &SparseMatrix, c: usize, limit: usize) -> Option<usize> {
    // depth-first search over simple paths row -> col -> row ... starting at
    // the rows of c, looking for a return to c
    fn dfs(
        h: &SparseMatrix,
        root: usize,
        row: usize,
        len: usize, // edges used so far (root -> ... -> row)
        limit: usize,
        used_rows: &mut Vec<usize>,
        used_cols: &mut Vec<usize>,
        best: &mut Option<usize>,
    ) {
        for &col in h.iter_row(row) {
            if col == root {
                // closing the cycle needs at least 4 edges
                if len + 1 >= 4 {
                    let total = len + 1;
                    if best.map_or(true, |b| total < b) {
                        *best = Some(total);
                    }
                }
                continue;
            }
            if used_cols.contains(&col) || len + 3 > limit {
                continue;
            }
            used_cols.push(col);
            for &r2 in h.iter_col(col) {
                if used_rows.contains(&r2) {
                    continue;
                }
                used_rows.push(r2);
                dfs(h, root, r2, len + 2, limit, used_rows, used_cols, best);
                used_rows.pop();
            }
            used_cols.pop();
        }
    }
    let mut best = None;
    for &r in h.iter_col(c) {
        let mut used_rows = vec![r];
        let mut used_cols = Vec::new();
        dfs(h, c, r, 1, limit, &mut used_rows, &mut used_cols, &mut best);
    }
    best
}

fn check_matrix(conf: &Config, h: &SparseMatrix, brute_force: bool) {
    assert_eq!(h.num_rows(), conf.nrows);
    assert_eq!(h.num_cols(), conf.ncols);
    for c in 0..conf.ncols {
        assert_eq!(h.col_weight(c), conf.wc, "column weight, {conf:?}");
        let mut rows: Vec<usize> = h.iter_col(c).copied().collect();
        rows.sort_unstable();
        rows.dedup();
        assert_eq!(rows.len(), conf.wc, "repeated entries, {conf:?}");
    }
    let mut total = 0;
    for r in 0..conf.nrows {
        assert!(h.row_weight(r) <= conf.wr, "row weight, {conf:?}");
        for &c in h.iter_row(r) {
            assert!(h.contains(r, c));
        }
        total += h.row_weight(r);
    }
    assert_eq!(total, conf.ncols * conf.wc);
    if let Some(g) = conf.min_girth {
        if let Some(girth) = h.girth() {
            assert!(girth >= g, "girth {girth} < {g}, {conf:?}");
        }
        if brute_force && g >= 2 {
            for c in 0..conf.ncols {
                assert_eq!(
                    shortest_cycle_through_col(h, c, g - 1),
                    None,
                    "cycle shorter than {g} through column {c}, {conf:?}"
                );
            }
        }
    } else if conf.fill_policy == FillPolicy::Uniform && conf.nrows > 0 {
        let ws: Vec<usize> = (0..conf.nrows).map(|r| h.row_weight(r)).collect();
        let min = ws.iter().min().unwrap();
        let max = ws.iter().max().unwrap();
        assert!(max - min <= 1, "row weights not uniform, {conf:?}");
    }
}

#[allow(clippy::too_many_arguments)]
fn conf(
    nrows: usize,
    ncols: usize,
    wr: usize,
    wc: usize,
    bc: usize,
    bt: usize,
    girth: usize,
    gt: usize,
    uniform: bool,
) -> Config {
    Config {
        nrows,
        ncols,
        wr,
        wc,
        backtrack_cols: bc,
        backtrack_trials: bt,
        min_girth: if girth == 0 { None } else { Some(girth) },
        girth_trials: gt,
        fill_policy: if uniform {
            FillPolicy::Uniform
        } else {
            FillPolicy::Random
        },
    }
}

// a small deterministic generator for the sweep (no external crates)
struct Lcg(u64);
impl Lcg {
    fn next(&mut self, n: usize) -> usize {
        self.0 = self
            .0
            .wrapping_mul(6364136223846793005)
            .wrapping_add(1442695040888963407);
        ((self.0 >> 33) % n as u64) as usize
    }
}

#[test]
fn sweep_small_configurations() {
    with_timeout(|| {
        let mut lcg = Lcg(2024);
        let mut ok = 0;
        let mut fail = [0usize; 2];
        for _ in 0..6000 {
            let girth = match lcg.next(12) {
                0 | 1 | 2 => 0,
                k @ 3..=10 => k - 2, // 1..=8
                _ => 10 + lcg.next(12),
            };
            let cf = conf(
                lcg.next(13),
                lcg.next(20),
                lcg.next(8),
                lcg.next(5),
                lcg.next(5),
                lcg.next(6),
                girth,
                lcg.next(30),
                lcg.next(2) == 0,
            );
            let seed = lcg.next(1000) as u64;
            let a = cf.run(seed);
            let b = cf.run(seed);
            match (a, b) {
                (Ok(x), Ok(y)) => {
                    assert!(x == y, "not reproducible {cf:?} {seed}");
                    check_matrix(&cf, &x, true);
                    ok += 1;
                }
                (Err(x), Err(y)) => {
                    assert_eq!(x, y);
                    match x {
                        Error::NoMoreBacktrack => fail[0] += 1,
                        Error::NoMoreTrials => {
                            // girth rejections only happen for girth > 4 or
                            // so; at the very least a constraint is needed
                            assert!(cf.min_girth.is_some_and(|g| g >= 5), "{cf:?}");
                            fail[1] += 1
                        }
                        e => panic!("unexpected error {e:?} for {cf:?}"),
                    }
                }
                _ => panic!("not reproducible {cf:?} {seed}"),
            }
        }
        assert!(ok > 1000 && fail[0] > 100 && fail[1] > 100, "{ok} {fail:?}");
    });
}

#[test]
fn counting_arguments() {
    with_timeout(|| {
        for seed in 0..30u64 {
            for uniform in [false, true] {
                // not enough room: nrows * wr < ncols * wc
                assert_eq!(
                    conf(4, 8, 3, 2, 2, 4, 0, 0, uniform).run(seed).unwrap_err(),
                    Error::NoMoreBacktrack
                );
                // wc > nrows
                assert_eq!(
                    conf(3, 2, 5, 4, 1, 1, 0, 0, uniform).run(seed).unwrap_err(),
                    Error::NoMoreBacktrack
                );
                // wr == 0 but ones are needed
                assert_eq!(
                    conf(3, 2, 0, 1, 0, 0, 0, 0, uniform).run(seed).unwrap_err(),
                    Error::NoMoreBacktrack
                );
                // no rows
                assert_eq!(
                    conf(0, 2, 3, 1, 0, 0, 0, 0, uniform).run(seed).unwrap_err(),
                    Error::NoMoreBacktrack
                );
                // nothing to insert
                for cf in [
                    conf(0, 0, 0, 0, 0, 0, 0, 0, uniform),
                    conf(0, 5, 0, 0, 0, 0, 6, 0, uniform),
                    conf(4, 0, 1, 3, 0, 0, 6, 0, uniform),
                    conf(4, 5, 0, 0, 0, 0, 0, 0, uniform),
                    conf(4, 5, 2, 0, 3, 3, 8, 1, uniform),
                ] {
                    let h = cf.run(seed).unwrap();
                    check_matrix(&cf, &h, true);
                    assert_eq!(h.iter_all().count(), 0);
                }
                // full columns: the only possible matrix
                let cf = conf(5, 7, 7, 5, 0, 0, 0, 0, uniform);
                let h = cf.run(seed).unwrap();
                check_matrix(&cf, &h, false);
                // two full columns form 4-cycles: impossible with girth 6 ...
                assert_eq!(
                    conf(3, 2, 2, 3, 0, 0, 6, 7, uniform).run(seed).unwrap_err(),
                    Error::NoMoreTrials
                );
                // ... but fine with min_girth up to 4
                for g in 1..=4 {
                    let cf = conf(3, 2, 2, 3, 0, 0, g, 0, uniform);
                    check_matrix(&cf, &cf.run(seed).unwrap(), true);
                }
                // exactly tight regular code under the uniform policy
                let cf = conf(6, 12, 4, 2, 0, 0, 0, 0, true);
                let h = cf.run(seed).unwrap();
                check_matrix(&cf, &h, false);
                for r in 0..6 {
                    assert_eq!(h.row_weight(r), 4);
                }
                // a girth that needs a forest: 9 rows, 8 columns of weight 2
                let cf = conf(9, 8, 8, 2, 0, 0, 40, 10000, uniform);
                if let Ok(h) = cf.run(seed) {
                    assert_eq!(h.girth(), None);
                    check_matrix(&cf, &h, true);
                }
            }
        }
    });
}

#[test]
fn girth_and_backtracking_workloads() {
    with_timeout(|| {
        let confs = [
            conf(20, 30, 5, 3, 0, 0, 6, 100, true),
            conf(24, 32, 4, 3, 0, 0, 6, 150, true),
            conf(24, 32, 4, 3, 4, 20, 6, 150, false),
            conf(20, 30, 3, 2, 3, 5, 8, 10, false),
            conf(40, 60, 3, 2, 3, 15, 10, 40, true),
            conf(40, 60, 3, 2, 3, 15, 12, 100, false),
            conf(60, 80, 4, 3, 5, 30, 8, 300, true),
            conf(30, 60, 7, 3, 2, 5, 5, 50, false),
            conf(60, 40, 3, 3, 2, 5, 7, 500, true),
            conf(40, 40, 4, 3, 2, 5, 7, 3000, true),
            conf(50, 100, 6, 3, 2, 50, 0, 0, false),
            conf(50, 100, 6, 3, 200, 50, 0, 0, false),
            conf(100, 200, 6, 3, 0, 0, 0, 0, true),
            conf(13, 39, 9, 3, 0, 0, 0, 0, true),
        ];
        for cf in confs {
            let mut distinct = std::collections::HashSet::new();
            let mut ok = 0;
            for seed in 0..24u64 {
                if let Ok(h) = cf.run(seed) {
                    assert!(h == cf.run(seed).unwrap());
                    check_matrix(&cf, &h, cf.min_girth.is_some_and(|g| g <= 8));
                    distinct.insert(fingerprint(&h));
                    ok += 1;
                } else {
                    assert_eq!(cf.run(seed).unwrap_err(), cf.run(seed).unwrap_err());
                }
            }
            assert!(ok > 0, "no seed works for {cf:?}");
            assert_eq!(distinct.len(), ok, "two seeds gave the same matrix for {cf:?}");
        }
    });
}

#[test]
fn known_small_matrix() {
    // the literal from the crate's own unit test
    let h = conf(4, 8, 4, 2, 0, 0, 0, 0, false).run(187).unwrap();
    assert_eq!(
        h.alist(),
        "8 4\n2 4\n2 2 2 2 2 2 2 2\n4 4 4 4\n1 3\n2 4\n2 3\n1 4\n1 4\n1 4\n2 3\n2 3\n1 4 5 6\n2 3 7 8\n1 3 7 8\n2 4 5 6\n"
    );
}

#[test]
fn search_returns_run_result() {
    with_timeout(|| {
        for cf in [
            conf(24, 32, 4, 3, 4, 20, 6, 150, false),
            conf(20, 30, 3, 2, 3, 5, 8, 10, true),
            conf(4, 8, 3, 2, 0, 0, 0, 0, true),
        ] {
            for start in [0u64, 50] {
                match cf.search(start, 30) {
                    Some((seed, h)) => {
                        assert!((start..start + 30).contains(&seed));
                        assert!(h == cf.run(seed).unwrap());
                        check_matrix(&cf, &h, true);
                    }
                    None => assert!((start..start + 30).all(|s| cf.run(s).is_err())),
                }
            }
        }
    });
}

fn golden_confs() -> Vec<Config> {
    vec![
        conf(4, 8, 4, 2, 0, 0, 0, 0, false),
        conf(4, 8, 4, 2, 0, 0, 0, 0, true),
        conf(6, 12, 4, 2, 0, 0, 0, 0, false),
        conf(6, 12, 4, 2, 2, 2, 0, 0, false),
        conf(8, 16, 6, 3, 3, 4, 0, 0, false),
        conf(8, 16, 6, 3, 20, 4, 0, 0, false),
        conf(10, 20, 6, 3, 0, 0, 0, 0, true),
        conf(12, 12, 4, 3, 1, 3, 6, 6, true),
        conf(20, 30, 5, 3, 0, 0, 6, 100, true),
        conf(24, 32, 4, 3, 0, 0, 6, 150, true),
        conf(24, 32, 4, 3, 4, 20, 6, 150, false),
        conf(20, 30, 3, 2, 3, 5, 8, 10, false),
        conf(40, 60, 3, 2, 3, 15, 10, 40, true),
        conf(40, 60, 3, 2, 3, 15, 12, 100, false),
        conf(30, 60, 7, 3, 2, 5, 5, 50, false),
        conf(30, 40, 4, 3, 2, 5, 7, 50, true),
        conf(60, 80, 4, 3, 5, 30, 8, 300, false),
        conf(9, 8, 8, 2, 1, 2, 40, 100, false),
        conf(3, 5, 5, 3, 0, 0, 4, 0, true),
        conf(5, 4, 0, 0, 1, 1, 6, 1, false),
    ]
}

const GOLDEN_SEEDS: [u64; 6] = [0, 1, 2, 42, 187, u64::MAX];

// outcome(conf, seed) for every configuration of golden_confs() and seed of
// GOLDEN_SEEDS, obtained before the rewrite
const GOLDEN: &[u64] = &[
1, 1, 16236604784687165161, 9685209408464874185, 15898171116370751529, 10431368632777414857,
    15050620197247537033, 17293675521418026025, 12159038397289236649, 11498234439645443209, 17186559564853847721, 17555599428918169353,
    18127095465362685375, 15185235474601982831, 9737885663407613839, 1, 12504165710041743647, 14154673166229219439,
    18127095465362685375, 15185235474601982831, 9737885663407613839, 17622799560903100751, 12504165710041743647, 14154673166229219439,
    15901677691221811581, 1, 12604610842912163901, 1, 1, 14038082625418247965,
    14087838248227075901, 17295741303882655789, 15528356924205164125, 1, 1, 14038082625418247965,
    12356949965664336043, 12107146183578269243, 10841779154816386619, 12496479264125103419, 10888419822004567723, 15157282303406377275,
    2, 2, 2, 2, 2, 2,
    2, 17504538063513981872, 12036470559810821956, 2, 2, 2,
    2, 2, 2, 2, 9821618746079727309, 2,
    2, 2, 10411107298407009917, 2, 2, 2,
    17454484112209618783, 2, 13013851547366225423, 2, 11403400790964055743, 2,
    2, 11956711640868058497, 14706268351249496321, 2, 17175786368418778081, 17730081317722035969,
    2, 2, 2, 2, 17601360583150563041, 10336758711227727441,
    13694077925163356020, 10293261432053409970, 2, 2, 14602839246887331335, 2,
    2, 2, 2, 2, 2, 2,
    2, 2, 2, 2, 2, 2,
    17088164669111530407, 12630658073682118739, 13750362194567795297, 9589129533312995887, 15349145353932974256, 14013146890856680884,
    12446588198796876165, 12446588198796876165, 12446588198796876165, 12446588198796876165, 12446588198796876165, 12446588198796876165,
    11419830447295820477, 11419830447295820477, 11419830447295820477, 11419830447295820477, 11419830447295820477, 11419830447295820477,
];

#[test]
fn golden_outcomes() {
    with_timeout(|| {
        let confs = golden_confs();
        assert_eq!(GOLDEN.len(), confs.len() * GOLDEN_SEEDS.len());
        let mut k = 0;
        let mut kinds = [0usize; 3];
        for cf in &confs {
            for &seed in &GOLDEN_SEEDS {
                let o = outcome(cf, seed);
                assert_eq!(o, GOLDEN[k], "outcome changed for {cf:?} seed {seed}");
                kinds[if o > 2 { 0 } else { o as usize }] += 1;
                k += 1;
            }
        }
        // the table exercises successes and both kinds of failure
        assert!(kinds.iter().all(|&n| n >= 5), "{kinds:?}");
    });
}

#[test]
#[ignore]
fn print_golden() {
    for cf in &golden_confs() {
        let v: Vec<String> = GOLDEN_SEEDS
            .iter()
            .map(|&s| format!("{}", outcome(cf, s)))
            .collect();
        println!("    {},", v.join(", "));
    }
}
