//! Demonstration for the PEG rewrite (bit set check graph + degree classes).
//!
//! * `golden_fingerprints`: the matrix (including the order in which the edges
//!   were inserted) produced for a fixed list of configurations and seeds is
//!   compared with fingerprints recorded with the original implementation.
//! * `replay_every_edge`: every edge of every produced matrix is replayed on a
//!   reference Tanner graph kept by the test, checking the PEG rule (unreachable
//!   check of least degree, or farthest check of least degree).
//! * `reproducible_and_seed_dependent`: same seed => same matrix; different
//!   seeds => different matrices.
//!
//! Only the public API of `ldpc_toolbox` and `std` are used.

use ldpc_toolbox::peg::{Config, Error};
use ldpc_toolbox::sparse::SparseMatrix;
use std::collections::VecDeque;
use std::sync::mpsc;
use std::time::Duration;

fn with_deadline<F: FnOnce() + Send + 'static>(secs: u64, f: F) {
    let (tx, rx) = mpsc::channel();
    let handle = std::thread::spawn(move || {
        f();
        let _ = tx.send(());
    });
    match rx.recv_timeout(Duration::from_secs(secs)) {
        Ok(()) => handle.join().unwrap(),
        Err(mpsc::RecvTimeoutError::Disconnected) => {
            // the closure panicked: propagate the panic
            if let Err(e) = handle.join() {
                std::panic::resume_unwind(e);
            }
            panic!("worker finished without reporting");
        }
        Err(mpsc::RecvTimeoutError::Timeout) => panic!("deadline of {secs} s exceeded"),
    }
}

fn fnv(h: &mut u64, x: u64) {
    for b in x.to_le_bytes() {
        *h ^= u64::from(b);
        *h = h.wrapping_mul(0x0000_0100_0000_01b3);
    }
}

fn fingerprint(r: &Result<SparseMatrix, Error>) -> u64 {
    let mut h = 0xcbf2_9ce4_8422_2325u64;
    match r {
        Err(Error::NoAvailRows) => fnv(&mut h, 0xdead),
        Ok(m) => {
            fnv(&mut h, m.num_rows() as u64);
            fnv(&mut h, m.num_cols() as u64);
            for c in 0..m.num_cols() {
                fnv(&mut h, u64::MAX);
                for &r in m.iter_col(c) {
                    fnv(&mut h, r as u64);
                }
            }
            for r in 0..m.num_rows() {
                fnv(&mut h, u64::MAX - 1);
                for &c in m.iter_row(r) {
                    fnv(&mut h, c as u64);
                }
            }
        }
    }
    h
}

const SEEDS: [u64; 7] = [0, 1, 2, 42, 187, u64::MAX, 1 << 32];

// (nrows, ncols, wc, number of seeds of SEEDS to use)
const CONFIGS: &[(usize, usize, usize, usize)] = &[
    (0, 0, 0, 2),
    (0, 5, 0, 2),
    (0, 5, 2, 2),
    (0, 0, 3, 2),
    (5, 0, 3, 2),
    (1, 1, 1, 3),
    (1, 4, 1, 3),
    (1, 4, 3, 3),
    (2, 6, 2, 7),
    (2, 6, 5, 7),
    (3, 3, 3, 7),
    (3, 7, 4, 7),
    (4, 8, 2, 7),
    (5, 10, 3, 7),
    (7, 7, 7, 7),
    (8, 20, 9, 7),
    (10, 30, 10, 4),
    (10, 30, 12, 4),
    (6, 40, 1, 4),
    (20, 200, 5, 3),
    (40, 80, 6, 3),
    (63, 126, 3, 4),
    (64, 128, 3, 4),
    (65, 130, 3, 4),
    (64, 64, 64, 2),
    (65, 20, 66, 2),
    (127, 200, 4, 3),
    (128, 256, 3, 3),
    (129, 258, 2, 3),
    (130, 140, 5, 3),
    (100, 100, 1, 3),
    (50, 500, 3, 2),
    (500, 520, 2, 2),
    (200, 400, 3, 3),
    (300, 450, 4, 2),
    (193, 50, 7, 2),
];

fn cases() -> Vec<(Config, u64)> {
    let mut v = Vec::new();
    for &(nrows, ncols, wc, nseeds) in CONFIGS {
        for &seed in &SEEDS[..nseeds] {
            v.push((Config { nrows, ncols, wc }, seed));
        }
    }
    v
}

// Recorded with the implementation before the rewrite.
const GOLDEN: &[u64] = &[
    0x88201fb960ff6465,
    0x88201fb960ff6465,
    0x25be5456d2c29018,
    0x25be5456d2c29018,
    0xc1d2e8b5009d3562,
    0xc1d2e8b5009d3562,
    0x88201fb960ff6465,
    0x88201fb960ff6465,
    0xb77b11fffeaba7d9,
    0xb77b11fffeaba7d9,
    0x3e50418f4536bd74,
    0x3e50418f4536bd74,
    0x3e50418f4536bd74,
    0x20c7f0a79b17d299,
    0x20c7f0a79b17d299,
    0x20c7f0a79b17d299,
    0x20c7f0a79b17d299,
    0x20c7f0a79b17d299,
    0x20c7f0a79b17d299,
    0xcd80c638b844ff61,
    0x3bb46118f992c161,
    0xc124b175df3f8701,
    0x0123cef8c6f80d21,
    0x3ced5acf68b22721,
    0x4bbfcd3f7bacf161,
    0x8444683b7a82dd41,
    0x28033ed638491341,
    0x1b17fc95e907e781,
    0x6675d749984d3d21,
    0x1bf59309d3c85f41,
    0xee72b4f5b361d161,
    0x640e5ab111497561,
    0x640e5ab111497561,
    0xd32bb538d05d4ab4,
    0xe3626bbf4f3337d4,
    0x065c12122e15a5b4,
    0xeb377c638f0c3d74,
    0x9165f15a4beae534,
    0xd1dceb8ba8472fd4,
    0x52a1b80e6de47bf4,
    0x3c0986777fe36ad4,
    0xc9614ad2d22e3574,
    0x3ec8dc3ab9e72fb4,
    0xbb7eff62a104c214,
    0x963fb45b2ceb7834,
    0xc777644f36b01b54,
    0x32af2d49be2aff94,
    0x02b079b1002e2a29,
    0x1de2b3d66c717fc9,
    0x7540f37211de0149,
    0x8ee6fd11ecaa5529,
    0x4713c0e40a3f13a9,
    0xd1b1627a9bb15089,
    0x527a0b9ccd4b1189,
    0xde1a10c53cea7a92,
    0x81a1f89193b24602,
    0xdf7b81111fcb5552,
    0x32d15f2e54bb3162,
    0x95ba45e4f7f1c542,
    0x492e6c5cc5d75b22,
    0x808f60d8dabf9b42,
    0x13aaf08cfed20cd4,
    0x0d15e83c4e035114,
    0xcbea396fec726334,
    0x64bf1cce86d4c5d4,
    0x2a386a4cbeb8f094,
    0x72c3e96efba08c54,
    0x094a949d437343b4,
    0x231fa33dc12f1439,
    0x2ba52876c1be2a79,
    0x086825c27d9ee259,
    0xafc2e96c4d50ea99,
    0xc75d1692d0588cd9,
    0x733f901eaba54d39,
    0x4984f97e3ba6e239,
    0x1411cbf32d8b31b1,
    0xc26e7a93f7f506b1,
    0x2413f33b26cb22d1,
    0xd9ce42501e658f31,
    0xa9121dee7f3e70b1,
    0x6167f50c33d2b871,
    0xa530e04701ef3551,
    0x32c10151a11a6291,
    0x3b54981873e0e73e,
    0x69e97bc5b52fbdad,
    0x816edfe49de1681b,
    0x9d323d693f56b3ec,
    0x4528201db9441f89,
    0x59963f7250b66b19,
    0xac00b328e7566799,
    0x0721f5c5f2d8bdda,
    0x96b6d9c5f003834f,
    0xa84822ea482cbb26,
    0x855b1c545462af0e,
    0xefbfc519e9345cfd,
    0x8a45719d60356343,
    0xe3f3c59267bfd2a1,
    0xcdc8e550343254f1,
    0xe155aba619e25cc4,
    0x10bee6ec1e9d652c,
    0x21e7d644276657f9,
    0xa316921cf26fd484,
    0x7302c95f9f9d528c,
    0x0d806d2646dbf030,
    0xb94f743acdd50ecc,
    0x9b8abfb990e0f545,
    0xf527362f1dbb3745,
    0x75c4285791789c49,
    0x0052873d7a2a5989,
    0x882eda2b36938074,
    0xda70f35c6e6c6ffb,
    0x0f30d1ca2a365dec,
    0x6de14990d42e276a,
    0xfb687a58c1768963,
    0x272a7da47e7cd6a4,
    0x526a48bae8bb72b3,
    0x758d6928cba8d919,
    0x86f30a5aa91bbe64,
    0xe1d11177cd31a40f,
    0xd6b29dcb08b3c380,
    0x2571ad86de3eb222,
    0x48256f198ee61005,
    0x1c8d4c56475b4b95,
    0x4ba6349b18182c45,
    0xf93230a8dee459a9,
    0x4cb196fd42e9bc7c,
    0x5cc5a26d0424f00d,
    0x874cac553b5f565a,
    0xd6730bcbc10d5f43,
    0x25380e077fe61db7,
    0xbc9b53ddfa0af741,
    0xfe67bb8eb7e1e687,
    0xd383d1aa6b404633,
    0xe7adc080c7ed46a1,
    0x9fed5b9e1d474bd7,
];

#[test]
#[ignore]
fn print_golden_table() {
    for (conf, seed) in cases() {
        println!("    {:#018x},", fingerprint(&conf.run(seed)));
    }
}

#[test]
fn golden_fingerprints() {
    with_deadline(600, || {
        let cases = cases();
        assert_eq!(cases.len(), GOLDEN.len());
        for ((conf, seed), &expected) in cases.iter().zip(GOLDEN) {
            let got = fingerprint(&conf.run(*seed));
            assert_eq!(got, expected, "{conf:?} seed {seed}");
        }
    });
}

/// Reference Tanner graph on which the edges are replayed.
struct Reference {
    rows_of_col: Vec<Vec<usize>>,
    cols_of_row: Vec<Vec<usize>>,
}

impl Reference {
    /// Distance from each check node to the symbol node `col`.
    fn row_distances(&self, col: usize) -> Vec<Option<usize>> {
        let mut row_dist = vec![None; self.cols_of_row.len()];
        let mut col_dist = vec![None; self.rows_of_col.len()];
        let mut queue = VecDeque::new();
        col_dist[col] = Some(0usize);
        queue.push_back((false, col));
        while let Some((is_row, n)) = queue.pop_front() {
            if is_row {
                let d = row_dist[n].unwrap();
                for &c in &self.cols_of_row[n] {
                    if col_dist[c].is_none() {
                        col_dist[c] = Some(d + 1);
                        queue.push_back((false, c));
                    }
                }
            } else {
                let d = col_dist[n].unwrap();
                for &r in &self.rows_of_col[n] {
                    if row_dist[r].is_none() {
                        row_dist[r] = Some(d + 1);
                        queue.push_back((true, r));
                    }
                }
            }
        }
        row_dist
    }
}

fn replay(conf: &Config, h: &SparseMatrix) {
    assert_eq!(h.num_rows(), conf.nrows);
    assert_eq!(h.num_cols(), conf.ncols);
    let mut g = Reference {
        rows_of_col: vec![Vec::new(); conf.ncols],
        cols_of_row: vec![Vec::new(); conf.nrows],
    };
    for col in 0..conf.ncols {
        assert_eq!(
            h.col_weight(col),
            conf.wc.min(conf.nrows),
            "column weight, {conf:?}"
        );
        for &row in h.iter_col(col) {
            let dist = g.row_distances(col);
            let degree = |r: usize| g.cols_of_row[r].len();
            let unreachable: Vec<usize> = (0..conf.nrows).filter(|&r| dist[r].is_none()).collect();
            let pool: Vec<usize> = if !unreachable.is_empty() {
                unreachable
            } else {
                let far = dist.iter().map(|d| d.unwrap()).max().unwrap();
                (0..conf.nrows).filter(|&r| dist[r] == Some(far)).collect()
            };
            let least = pool.iter().map(|&r| degree(r)).min().unwrap();
            assert!(
                pool.contains(&row) && degree(row) == least,
                "edge ({row}, {col}) breaks the PEG rule in {conf:?}"
            );
            assert!(!g.rows_of_col[col].contains(&row), "repeated edge");
            g.rows_of_col[col].push(row);
            g.cols_of_row[row].push(col);
        }
    }
    // the row lists describe the same matrix as the column lists
    for row in 0..conf.nrows {
        let mut a: Vec<usize> = h.iter_row(row).copied().collect();
        let mut b = g.cols_of_row[row].clone();
        a.sort_unstable();
        b.sort_unstable();
        assert_eq!(a, b);
    }
}

#[test]
fn replay_every_edge() {
    with_deadline(600, || {
        for (conf, seed) in cases() {
            if conf.nrows > 200 || conf.ncols > 300 {
                continue; // keep the quadratic reference fast
            }
            match conf.run(seed) {
                Ok(h) => replay(&conf, &h),
                Err(Error::NoAvailRows) => {
                    assert!(conf.nrows == 0 && conf.ncols > 0 && conf.wc > 0, "{conf:?}")
                }
            }
        }
        // a sweep over many small shapes
        for nrows in 1..=9 {
            for ncols in 0..=9 {
                for wc in 0..=nrows + 1 {
                    let conf = Config { nrows, ncols, wc };
                    for seed in 100..103 {
                        replay(&conf, &conf.run(seed).unwrap());
                    }
                }
            }
        }
    });
}

#[test]
fn reproducible_and_seed_dependent() {
    with_deadline(600, || {
        for &(nrows, ncols, wc) in &[(50, 100, 3), (64, 70, 4), (129, 150, 2), (9, 40, 3)] {
            let conf = Config { nrows, ncols, wc };
            let mut seen: Vec<SparseMatrix> = Vec::new();
            for seed in 0..8u64 {
                let a = conf.run(seed).unwrap();
                let b = conf.run(seed).unwrap();
                assert_eq!(a, b, "same seed, different matrix");
                assert_eq!(a.alist(), b.alist());
                // the same configuration run from another thread
                let conf2 = conf.clone();
                let c = std::thread::spawn(move || conf2.run(seed).unwrap())
                    .join()
                    .unwrap();
                assert_eq!(a, c);
                if !seen.contains(&a) {
                    seen.push(a);
                }
            }
            assert!(seen.len() >= 7, "seeds do not explore different choices");
        }
        // nothing to build / nothing that can be built
        let empty = Config { nrows: 0, ncols: 3, wc: 2 };
        assert_eq!(empty.run(5), Err(Error::NoAvailRows));
        assert_eq!(format!("{}", Error::NoAvailRows).is_empty(), false);
        let none = Config { nrows: 0, ncols: 3, wc: 0 }.run(5).unwrap();
        assert_eq!((none.num_rows(), none.num_cols()), (0, 3));
        assert_eq!(none.iter_all().count(), 0);
    });
}
