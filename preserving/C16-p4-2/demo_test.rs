// ---------------------------------------------------------------------------
// Shared support code (test-local pseudorandom generator, fingerprints,
// reference graph algorithms, property checkers, timeouts).
// ---------------------------------------------------------------------------

use ldpc_toolbox::mackay_neal::{self, FillPolicy};
use ldpc_toolbox::peg;
use ldpc_toolbox::sparse::{Node, SparseMatrix};
use std::collections::VecDeque;
use std::sync::mpsc;
use std::time::Duration;

/// Runs `f` in its own thread and fails the test if it does not finish in time.
fn with_timeout<F: FnOnce() + Send + 'static>(secs: u64, f: F) {
    let (tx, rx) = mpsc::channel();
    let handle = std::thread::spawn(move || {
        f();
        let _ = tx.send(());
    });
    match rx.recv_timeout(Duration::from_secs(secs)) {
        Ok(()) => handle.join().unwrap(),
        Err(mpsc::RecvTimeoutError::Disconnected) => {
            // the closure panicked: propagate the panic
            if let Err(e) = handle.join() {
                std::panic::resume_unwind(e);
            }
            panic!("worker disappeared");
        }
        Err(mpsc::RecvTimeoutError::Timeout) => panic!("timed out after {secs} s"),
    }
}

/// Small deterministic generator for test inputs (splitmix64).
struct TestRng(u64);

impl TestRng {
    fn next(&mut self) -> u64 {
        self.0 = self.0.wrapping_add(0x9e3779b97f4a7c15);
        let mut z = self.0;
        z = (z ^ (z >> 30)).wrapping_mul(0xbf58476d1ce4e5b9);
        z = (z ^ (z >> 27)).wrapping_mul(0x94d049bb133111eb);
        z ^ (z >> 31)
    }
    fn below(&mut self, n: usize) -> usize {
        (self.next() % (n as u64)) as usize
    }
}

struct Fnv(u64);

impl Fnv {
    fn new() -> Fnv {
        Fnv(0xcbf29ce484222325)
    }
    fn byte(&mut self, b: u8) {
        self.0 ^= b as u64;
        self.0 = self.0.wrapping_mul(0x100000001b3);
    }
    fn bytes(&mut self, b: &[u8]) {
        for &x in b {
            self.byte(x);
        }
    }
    fn num(&mut self, n: u64) {
        self.bytes(&n.to_le_bytes());
    }
}

/// Fingerprint of a matrix: alist text plus the stored order of each column
/// and row.
fn fingerprint(h: &SparseMatrix) -> u64 {
    let mut f = Fnv::new();
    f.bytes(h.alist().as_bytes());
    for c in 0..h.num_cols() {
        f.num(u64::MAX);
        for &r in h.iter_col(c) {
            f.num(r as u64);
        }
    }
    for r in 0..h.num_rows() {
        f.num(u64::MAX - 1);
        for &c in h.iter_row(r) {
            f.num(c as u64);
        }
    }
    f.0
}

fn neighbours(h: &SparseMatrix, node: Node) -> Vec<Node> {
    match node {
        Node::Row(r) => h.iter_row(r).map(|&c| Node::Col(c)).collect(),
        Node::Col(c) => h.iter_col(c).map(|&r| Node::Row(r)).collect(),
    }
}

fn flat(h: &SparseMatrix, node: Node) -> usize {
    match node {
        Node::Row(r) => r,
        Node::Col(c) => h.num_rows() + c,
    }
}

/// Plain textbook breadth-first search.
fn ref_bfs(h: &SparseMatrix, root: Node) -> (Vec<Option<usize>>, Vec<Option<usize>>) {
    let n = h.num_rows() + h.num_cols();
    let mut dist: Vec<Option<usize>> = vec![None; n];
    let mut queue = VecDeque::new();
    dist[flat(h, root)] = Some(0);
    queue.push_back(root);
    while let Some(u) = queue.pop_front() {
        let d = dist[flat(h, u)].unwrap();
        for v in neighbours(h, u) {
            let slot = &mut dist[flat(h, v)];
            if slot.is_none() {
                *slot = Some(d + 1);
                queue.push_back(v);
            }
        }
    }
    let cols = dist.split_off(h.num_rows());
    (dist, cols)
}

/// Local girth with a maximum, written as a queue of (node, parent, length)
/// path heads: the first time a path head reaches an already visited node, a
/// closed walk through the root has been found.
fn ref_local_girth(h: &SparseMatrix, root: Node, max: usize) -> Option<usize> {
    let n = h.num_rows() + h.num_cols();
    let mut dist: Vec<Option<usize>> = vec![None; n];
    let mut queue: VecDeque<(Node, Option<Node>, usize)> = VecDeque::new();
    dist[flat(h, root)] = Some(0);
    queue.push_back((root, None, 0));
    while let Some((u, parent, len)) = queue.pop_front() {
        for v in neighbours(h, u) {
            if Some(v) == parent {
                continue;
            }
            let slot = &mut dist[flat(h, v)];
            if let Some(d) = *slot {
                let total = d + len + 1;
                return if total <= max { Some(total) } else { None };
            }
            *slot = Some(len + 1);
            if len + 1 < max {
                queue.push_back((v, Some(u), len + 1));
            }
        }
    }
    None
}

/// Girth by the standard algorithm: from every node, a full breadth-first
/// search; every non-tree edge (u, v) closes a walk of length
/// dist(u) + dist(v) + 1; the minimum over everything is the girth.
fn true_girth(h: &SparseMatrix) -> Option<usize> {
    let n = h.num_rows() + h.num_cols();
    let mut best: Option<usize> = None;
    let all_nodes = (0..h.num_rows())
        .map(Node::Row)
        .chain((0..h.num_cols()).map(Node::Col));
    for root in all_nodes {
        let mut dist: Vec<Option<usize>> = vec![None; n];
        let mut parent: Vec<Option<Node>> = vec![None; n];
        let mut queue = VecDeque::new();
        dist[flat(h, root)] = Some(0);
        queue.push_back(root);
        while let Some(u) = queue.pop_front() {
            let du = dist[flat(h, u)].unwrap();
            for v in neighbours(h, u) {
                if parent[flat(h, u)] == Some(v) {
                    continue;
                }
                match dist[flat(h, v)] {
                    None => {
                        dist[flat(h, v)] = Some(du + 1);
                        parent[flat(h, v)] = Some(u);
                        queue.push_back(v);
                    }
                    Some(dv) => {
                        let len = du + dv + 1;
                        if best.is_none_or(|b| len < b) {
                            best = Some(len);
                        }
                    }
                }
            }
        }
    }
    best
}

fn random_matrix(rng: &mut TestRng, nrows: usize, ncols: usize, ones: usize) -> SparseMatrix {
    let mut h = SparseMatrix::new(nrows, ncols);
    if nrows > 0 && ncols > 0 {
        for _ in 0..ones {
            h.insert(rng.below(nrows), rng.below(ncols));
        }
    }
    h
}

fn mn_config(
    nrows: usize,
    ncols: usize,
    wr: usize,
    wc: usize,
    backtrack: (usize, usize),
    girth: (Option<usize>, usize),
    fill_policy: FillPolicy,
) -> mackay_neal::Config {
    mackay_neal::Config {
        nrows,
        ncols,
        wr,
        wc,
        backtrack_cols: backtrack.0,
        backtrack_trials: backtrack.1,
        min_girth: girth.0,
        girth_trials: girth.1,
        fill_policy,
    }
}

/// Checks everything the property promises about one MacKay-Neal run and
/// returns a fingerprint of the outcome.
fn check_mackay_neal(conf: &mackay_neal::Config, seed: u64) -> u64 {
    let outcome = conf.run(seed);
    let again = conf.run(seed);
    assert_eq!(outcome, again, "not reproducible: {conf:?} seed {seed}");
    match outcome {
        Ok(h) => {
            assert_eq!(h.num_rows(), conf.nrows);
            assert_eq!(h.num_cols(), conf.ncols);
            for c in 0..conf.ncols {
                assert_eq!(h.col_weight(c), conf.wc, "{conf:?} seed {seed} col {c}");
                // the column really has wc distinct rows
                let mut rows: Vec<usize> = h.iter_col(c).copied().collect();
                rows.sort_unstable();
                rows.dedup();
                assert_eq!(rows.len(), conf.wc);
                for &r in &rows {
                    assert!(h.contains(r, c));
                    assert!(h.iter_row(r).any(|&x| x == c));
                }
            }
            let weights: Vec<usize> = (0..conf.nrows).map(|r| h.row_weight(r)).collect();
            for &w in &weights {
                assert!(w <= conf.wr, "{conf:?} seed {seed} row weight {w}");
            }
            assert_eq!(weights.iter().sum::<usize>(), conf.wc * conf.ncols);
            if let Some(g) = conf.min_girth {
                if let Some(actual) = true_girth(&h) {
                    assert!(actual >= g, "{conf:?} seed {seed}: girth {actual} < {g}");
                }
                assert_eq!(h.girth_with_max(g.saturating_sub(1)), None);
            } else if conf.fill_policy == FillPolicy::Uniform && conf.nrows > 0 {
                let lo = weights.iter().min().unwrap();
                let hi = weights.iter().max().unwrap();
                assert!(hi - lo <= 1, "{conf:?} seed {seed}: weights {weights:?}");
            }
            assert_eq!(h.alist(), again.unwrap().alist());
            fingerprint(&h)
        }
        Err(e) => {
            assert!(
                e == mackay_neal::Error::NoMoreBacktrack || e == mackay_neal::Error::NoMoreTrials,
                "{conf:?} seed {seed}: unexpected error {e:?}"
            );
            assert!(!e.to_string().is_empty());
            match e {
                mackay_neal::Error::NoMoreBacktrack => 1,
                _ => 2,
            }
        }
    }
}

/// Checks the seed search against running every seed of the range.
fn check_search(conf: &mackay_neal::Config, start: u64, tries: u64) -> u64 {
    let found = conf.search(start, tries);
    match found {
        Some((seed, h)) => {
            assert!(seed >= start && seed < start + tries, "seed {seed} out of range");
            let direct = conf.run(seed).expect("search returned a failing seed");
            assert_eq!(h, direct);
            assert_eq!(h.alist(), direct.alist());
            assert_eq!(fingerprint(&h), fingerprint(&direct));
            1
        }
        None => {
            for s in start..start + tries {
                assert!(conf.run(s).is_err(), "search missed good seed {s}: {conf:?}");
            }
            0
        }
    }
}

/// Replays a PEG result edge by edge (columns in order, rows of each column in
/// stored order) and checks that every edge obeyed the selection rule on the
/// graph that existed when it was placed. Returns a fingerprint.
fn check_peg(conf: &peg::Config, seed: u64) -> u64 {
    let outcome = conf.run(seed);
    assert_eq!(outcome, conf.run(seed), "not reproducible: {conf:?} seed {seed}");
    match outcome {
        Ok(h) => {
            assert_eq!(h.num_rows(), conf.nrows);
            assert_eq!(h.num_cols(), conf.ncols);
            let expected_weight = conf.wc.min(conf.nrows);
            let mut g = SparseMatrix::new(conf.nrows, conf.ncols);
            for c in 0..conf.ncols {
                assert_eq!(h.col_weight(c), expected_weight, "{conf:?} seed {seed} col {c}");
                for &r in h.iter_col(c) {
                    let (row_dist, _) = ref_bfs(&g, Node::Col(c));
                    assert_eq!(g.bfs(Node::Col(c)).row_nodes_distance, row_dist);
                    // candidates: unreachable checks, or else the farthest ones
                    let unreachable: Vec<usize> =
                        (0..conf.nrows).filter(|&j| row_dist[j].is_none()).collect();
                    let candidates = if !unreachable.is_empty() {
                        unreachable
                    } else {
                        let far = row_dist.iter().map(|d| d.unwrap()).max().unwrap();
                        (0..conf.nrows)
                            .filter(|&j| row_dist[j] == Some(far))
                            .collect()
                    };
                    let least = candidates.iter().map(|&j| g.row_weight(j)).min().unwrap();
                    assert!(
                        candidates.contains(&r) && g.row_weight(r) == least,
                        "{conf:?} seed {seed}: edge ({r}, {c}) breaks the selection rule"
                    );
                    assert!(!g.contains(r, c));
                    g.insert(r, c);
                }
            }
            assert_eq!(g, h);
            fingerprint(&h)
        }
        Err(e) => {
            assert_eq!(e, peg::Error::NoAvailRows);
            // only possible when there is no check node to connect to
            assert!(conf.nrows == 0 && conf.wc > 0 && conf.ncols > 0);
            assert!(!e.to_string().is_empty());
            3
        }
    }
}

/// A spread of MacKay-Neal configurations: both policies, with and without
/// girth constraint, with and without backtracking, degenerate sizes.
fn mn_configs() -> Vec<mackay_neal::Config> {
    use FillPolicy::{Random, Uniform};
    let mut v = Vec::new();
    for &policy in &[Random, Uniform] {
        v.push(mn_config(4, 8, 4, 2, (0, 0), (None, 0), policy));
        v.push(mn_config(6, 12, 6, 3, (2, 5), (None, 0), policy));
        v.push(mn_config(10, 20, 6, 3, (1, 3), (None, 0), policy));
        v.push(mn_config(10, 20, 7, 3, (3, 10), (Some(4), 0), policy));
        v.push(mn_config(12, 24, 6, 3, (2, 20), (Some(6), 50), policy));
        v.push(mn_config(30, 60, 7, 3, (4, 40), (Some(6), 300), policy));
        v.push(mn_config(30, 45, 3, 2, (3, 30), (Some(8), 300), policy));
        v.push(mn_config(40, 60, 3, 2, (3, 30), (Some(10), 500), policy));
        v.push(mn_config(45, 60, 6, 4, (0, 0), (Some(6), 400), policy));
        v.push(mn_config(25, 50, 6, 3, (2, 10), (Some(6), 150), policy));
        v.push(mn_config(9, 30, 10, 3, (5, 8), (None, 0), policy));
        v.push(mn_config(7, 15, 5, 2, (1, 1), (Some(1), 0), policy));
        v.push(mn_config(7, 15, 5, 2, (1, 1), (Some(2), 0), policy));
        v.push(mn_config(7, 15, 5, 2, (1, 1), (Some(5), 3), policy));
        // all rows needed for each column
        v.push(mn_config(3, 5, 5, 3, (0, 0), (None, 0), policy));
        v.push(mn_config(3, 5, 5, 3, (0, 0), (Some(4), 10), policy));
        // impossible: not enough room
        v.push(mn_config(3, 5, 2, 2, (2, 4), (None, 0), policy));
        v.push(mn_config(2, 4, 4, 3, (1, 2), (None, 0), policy));
        // degenerate
        v.push(mn_config(0, 0, 0, 0, (0, 0), (None, 0), policy));
        v.push(mn_config(5, 0, 3, 2, (0, 0), (Some(6), 0), policy));
        v.push(mn_config(0, 4, 3, 0, (0, 0), (None, 0), policy));
        v.push(mn_config(0, 4, 3, 1, (1, 1), (None, 0), policy));
        v.push(mn_config(5, 7, 3, 0, (0, 0), (Some(4), 0), policy));
        v.push(mn_config(5, 7, 0, 1, (2, 2), (None, 0), policy));
        v.push(mn_config(1, 6, 6, 1, (0, 0), (Some(100), 0), policy));
        v.push(mn_config(50, 100, 8, 3, (0, 0), (None, 0), policy));
        v.push(mn_config(24, 48, 6, 3, (0, 0), (None, 0), policy));
    }
    v
}

fn peg_configs() -> Vec<peg::Config> {
    let c = |nrows, ncols, wc| peg::Config { nrows, ncols, wc };
    vec![
        c(4, 8, 2),
        c(6, 12, 3),
        c(10, 20, 3),
        c(15, 30, 4),
        c(20, 25, 2),
        c(3, 6, 3),
        c(3, 6, 5),
        c(1, 4, 2),
        c(5, 1, 5),
        c(0, 0, 0),
        c(0, 3, 0),
        c(0, 3, 2),
        c(4, 0, 2),
        c(6, 9, 0),
        c(12, 12, 6),
    ]
}
// Demonstration for the rewrite of the randomness layer under the
// pseudorandom constructions: the seeded generator type (ldpc_toolbox::rand::Rng)
// and the random selection helpers used by the MacKay-Neal row selection and
// the PEG check selection. The generator stream and the results of the
// constructions are compared with fingerprints taken before the rewrite, and
// every clause of the property is checked on each result.

use ldpc_toolbox::rand::{Rng, RngCore, SeedableRng};

const GOLDEN_STREAM: u64 = 0xa5cc8c3e90763fd3;
const GOLDEN_MN: u64 = 0xfcdb2a34e23dc750;
const GOLDEN_MN_TIES: u64 = 0x98e20fa668791e68;
const GOLDEN_PEG: u64 = 0x763a826f78b2e719;

/// Draws from a generator with a fixed mixture of request kinds, so that the
/// position inside the internal block buffer takes all sorts of values.
fn drain_mixed(rng: &mut Rng, f: &mut Fnv, rounds: usize) {
    let mut pattern = TestRng(99);
    for _ in 0..rounds {
        match pattern.below(4) {
            0 => f.num(rng.next_u32() as u64),
            1 => f.num(rng.next_u64()),
            2 => {
                let mut buf = vec![0u8; pattern.below(70)];
                rng.fill_bytes(&mut buf);
                f.bytes(&buf);
            }
            _ => {
                for _ in 0..pattern.below(40) {
                    f.num(rng.next_u32() as u64);
                }
            }
        }
    }
}

#[test]
fn generator_stream_is_unchanged() {
    with_timeout(300, || {
        let mut rng = Rng::seed_from_u64(42);
        assert_eq!(rng.next_u64(), 12578764544318200737);

        let mut f = Fnv::new();
        let seeds = [
            0u64,
            1,
            2,
            42,
            187,
            255,
            256,
            1 << 31,
            1 << 32,
            1 << 63,
            u64::MAX,
            u64::MAX - 1,
            0xdeadbeefcafef00d,
            0x0123456789abcdef,
        ];
        for &seed in &seeds {
            let mut a = Rng::seed_from_u64(seed);
            let mut b = Rng::seed_from_u64(seed);
            assert_eq!(a, b);
            drain_mixed(&mut a, &mut f, 300);
            assert_ne!(a, b);
            // a clone continues the stream from the same point
            let mut c = a.clone();
            assert_eq!(a, c);
            for _ in 0..50 {
                assert_eq!(a.next_u64(), c.next_u64());
            }
            let mut f2 = Fnv::new();
            drain_mixed(&mut b, &mut f2, 300);
            let mut f3 = Fnv::new();
            drain_mixed(&mut Rng::seed_from_u64(seed), &mut f3, 300);
            assert_eq!(f2.0, f3.0);
            f.num(f2.0);
        }
        // consecutive seeds give unrelated streams
        let mut firsts = std::collections::HashSet::new();
        for seed in 0..2000u64 {
            let x = Rng::seed_from_u64(seed).next_u64();
            assert!(firsts.insert(x));
            f.num(x);
        }
        // explicit 256-bit seeds
        for fill in [0u8, 1, 7, 0x80, 0xff] {
            let mut key = [fill; 32];
            key[5] = key[5].wrapping_add(3);
            let mut rng = Rng::from_seed(key);
            drain_mixed(&mut rng, &mut f, 200);
        }
        // a generator seeded from another generator
        let mut parent = Rng::seed_from_u64(5);
        let mut child = Rng::from_rng(&mut parent);
        drain_mixed(&mut child, &mut f, 100);
        drain_mixed(&mut parent, &mut f, 100);
        // long run across many internal blocks
        let mut rng = Rng::seed_from_u64(9);
        let mut acc = 0u64;
        for j in 0..20000u64 {
            acc = acc.rotate_left(5) ^ rng.next_u64().wrapping_add(j);
        }
        f.num(acc);
        assert!(!format!("{rng:?}").is_empty());
        assert_eq!(f.0, GOLDEN_STREAM, "fingerprint of generator streams is {:#x}", f.0);
    });
}

#[test]
fn mackay_neal_honours_configuration() {
    with_timeout(900, || {
        let mut f = Fnv::new();
        for conf in mn_configs() {
            let mut distinct = std::collections::HashSet::new();
            for seed in 0..30u64 {
                let seed = seed.wrapping_mul(0x9e3779b97f4a7c15) ^ 0x55;
                let fp = check_mackay_neal(&conf, seed);
                f.num(fp);
                distinct.insert(fp);
            }
            if conf.nrows == 50 {
                assert!(distinct.len() > 15, "seeds do not explore different choices");
            }
        }
        assert_eq!(f.0, GOLDEN_MN, "fingerprint of MacKay-Neal results is {:#x}", f.0);
    });
}

/// Configurations that make the selection among tied rows do as much work as
/// possible: every shape of "rows selected for sure" against "rows competing".
#[test]
fn mackay_neal_selection_with_many_ties() {
    with_timeout(900, || {
        let mut f = Fnv::new();
        for &policy in &[FillPolicy::Uniform, FillPolicy::Random] {
            for nrows in [1usize, 2, 3, 5, 8, 13, 21, 34] {
                for wc in 0..=nrows.min(6) {
                    // ncols * wc <= nrows * wr with different amounts of slack
                    for (ncols, wr) in [(nrows, wc), (2 * nrows, 2 * wc + 1), (7, 7), (nrows + 3, wc + 1)] {
                        let conf = mn_config(nrows, ncols, wr, wc, (1, 2), (None, 0), policy);
                        for seed in [0u64, 1, 2, 1000] {
                            f.num(check_mackay_neal(&conf, seed + (nrows as u64) * 10));
                        }
                    }
                }
                // more ones per column than rows: never possible
                let conf = mn_config(nrows, 3, 10, nrows + 1, (1, 1), (None, 0), policy);
                assert_eq!(check_mackay_neal(&conf, 4), 1);
            }
        }
        assert_eq!(f.0, GOLDEN_MN_TIES, "fingerprint of tie-heavy results is {:#x}", f.0);
    });
}

#[test]
fn mackay_neal_uniform_first_columns_partition_the_rows() {
    // With the uniform policy and no girth constraint the first
    // floor(nrows / wc) columns must use disjoint sets of rows, since rows of
    // weight zero are always preferred over rows of weight one.
    with_timeout(300, || {
        for seed in 0..40u64 {
            let conf = mn_config(23, 40, 8, 4, (0, 0), (None, 0), FillPolicy::Uniform);
            let h = conf.run(seed).unwrap();
            let mut used = std::collections::HashSet::new();
            for c in 0..5 {
                for &r in h.iter_col(c) {
                    assert!(used.insert(r), "seed {seed}: row {r} reused too early");
                }
            }
            // the sixth column takes the three remaining empty rows first
            let sixth: Vec<usize> = h.iter_col(5).copied().collect();
            assert_eq!(sixth.iter().filter(|r| !used.contains(r)).count(), 3);
        }
    });
}

#[test]
fn mackay_neal_seed_search() {
    with_timeout(900, || {
        let mut found = 0;
        let mut total = 0;
        for conf in mn_configs() {
            for (start, tries) in [(0u64, 0u64), (5, 1), (100, 7), (u64::MAX - 9, 9)] {
                found += check_search(&conf, start, tries);
                total += 1;
            }
        }
        assert!(found > 0 && found < total);
    });
}

#[test]
fn peg_follows_selection_rule() {
    with_timeout(900, || {
        let mut f = Fnv::new();
        let mut configs = peg_configs();
        for nrows in 1..8 {
            for wc in 0..=nrows + 1 {
                configs.push(peg::Config { nrows, ncols: nrows + 2, wc });
            }
        }
        for conf in configs {
            let mut distinct = std::collections::HashSet::new();
            for seed in 0..16u64 {
                let fp = check_peg(&conf, seed * 7919 + 11);
                f.num(fp);
                distinct.insert(fp);
            }
            if conf.nrows == 15 {
                assert!(distinct.len() > 8, "seeds do not explore different choices");
            }
        }
        assert_eq!(f.0, GOLDEN_PEG, "fingerprint of PEG results is {:#x}", f.0);
    });
}
