//! Demo for the subcommands that generate the codes defined in standards
//! (dvbs2, ccsds, ccsds-c2): for every valid rate / frame size / block size
//! they print exactly the alist of the matrix that the library constructs (or
//! its girth), and every other rate or size gives an error message and a
//! non-zero exit status.

use ldpc_toolbox::codes::{
    ccsds::{AR4JACode, AR4JAInfoSize, AR4JARate, C2Code},
    dvbs2::Code,
};
use std::process::{Command, Output, Stdio};

const BIN: &str = env!("CARGO_BIN_EXE_ldpc-toolbox");

fn run(args: &[&str]) -> Output {
    Command::new(BIN)
        .args(args)
        .stdin(Stdio::null())
        .output()
        .unwrap()
}

fn assert_prints(args: &[&str], expected: &str) {
    let ret = run(args);
    assert!(ret.status.success(), "{args:?}: {ret:?}");
    assert!(ret.stderr.is_empty(), "{args:?}: unexpected stderr");
    assert!(
        ret.stdout == expected.as_bytes(),
        "{args:?}: output is not what the library gives"
    );
}

fn assert_fails(args: &[&str], message: &str) {
    let ret = run(args);
    assert_eq!(ret.status.code(), Some(1), "{args:?}: {ret:?}");
    assert!(ret.stdout.is_empty(), "{args:?}: unexpected stdout");
    let stderr = String::from_utf8(ret.stderr).unwrap();
    assert!(!stderr.contains("panicked"), "{args:?}: {stderr}");
    assert_eq!(stderr.trim_end(), message, "{args:?}");
}

fn girth_line(girth: Option<usize>) -> String {
    match girth {
        Some(g) => format!("Code girth = {g}\n"),
        None => "Code girth is infinite\n".to_string(),
    }
}

const DVBS2: [(&str, Option<Code>, Option<Code>); 11] = [
    ("1/4", Some(Code::R1_4), Some(Code::R1_4short)),
    ("1/3", Some(Code::R1_3), Some(Code::R1_3short)),
    ("2/5", Some(Code::R2_5), Some(Code::R2_5short)),
    ("1/2", Some(Code::R1_2), Some(Code::R1_2short)),
    ("3/5", Some(Code::R3_5), Some(Code::R3_5short)),
    ("2/3", Some(Code::R2_3), Some(Code::R2_3short)),
    ("3/4", Some(Code::R3_4), Some(Code::R3_4short)),
    ("4/5", Some(Code::R4_5), Some(Code::R4_5short)),
    ("5/6", Some(Code::R5_6), Some(Code::R5_6short)),
    ("8/9", Some(Code::R8_9), Some(Code::R8_9short)),
    ("9/10", Some(Code::R9_10), None),
];

#[test]
fn dvbs2_alist_exhaustive() {
    let mut seen = Vec::new();
    for (rate, normal, short) in DVBS2 {
        let normal = normal.unwrap();
        let alist = normal.h().alist();
        assert!(alist.starts_with("64800 "));
        assert_prints(&["dvbs2", "--rate", rate], &alist);
        // Other spellings of the arguments
        assert_prints(&["dvbs2", "-r", rate], &alist);
        assert_prints(&["dvbs2", &format!("--rate={rate}")], &alist);
        seen.push(alist);
        match short {
            Some(short) => {
                let alist = short.h().alist();
                assert!(alist.starts_with("16200 "));
                assert_prints(&["dvbs2", "--rate", rate, "--short"], &alist);
                assert_prints(&["dvbs2", "--short", "-r", rate], &alist);
                seen.push(alist);
            }
            None => assert_fails(
                &["dvbs2", "--rate", rate, "--short"],
                &format!("Invalid rate {rate} for short FECFRAME"),
            ),
        }
    }
    // All the codes of the library have been covered, and they are different
    assert_eq!(seen.len(), enum_iterator::cardinality::<Code>());
    for (j, a) in seen.iter().enumerate() {
        assert!(seen[..j].iter().all(|b| a != b));
    }
}

#[test]
fn dvbs2_girth() {
    // Documented value
    assert_prints(&["dvbs2", "--rate", "1/2", "--girth"], "Code girth = 6\n");
    // Against the library
    for (rate, normal, short) in DVBS2 {
        if let Some(short) = short {
            let line = girth_line(short.h().girth());
            assert_prints(&["dvbs2", "--rate", rate, "--short", "--girth"], &line);
        }
        if rate == "9/10" {
            let line = girth_line(normal.unwrap().h().girth());
            assert_prints(&["dvbs2", "--rate", rate, "--girth"], &line);
        }
    }
    assert_fails(
        &["dvbs2", "--rate", "9/10", "--short", "--girth"],
        "Invalid rate 9/10 for short FECFRAME",
    );
}

#[test]
fn dvbs2_invalid_rates() {
    let invalid = [
        "", " ", "1/5", "1/6", "7/8", "9/10 ", " 1/2", "1/2 ", "01/2", "1/02", "2/4", "4/8",
        "6/10", "0.5", "1:2", "1/2/", "/1/2", "1 / 2", "1/", "/2", "12", "1/2short", "short",
        "R1_2", "r1_2", "1_2", "1/2,3/5", "1/2\n", "１/２", "10/9", "1/1", "0/1", "3/5x",
    ];
    for rate in invalid {
        for short in [false, true] {
            for girth in [false, true] {
                let mut args = vec!["dvbs2", "--rate", rate];
                if short {
                    args.push("--short");
                }
                if girth {
                    args.push("--girth");
                }
                let frame = if short { "short" } else { "normal" };
                // (the trailing white space of the message is not compared)
                let message = format!("Invalid rate {rate} for {frame} FECFRAME");
                let ret = run(&args);
                assert_eq!(ret.status.code(), Some(1), "{args:?}: {ret:?}");
                assert!(ret.stdout.is_empty());
                let stderr = String::from_utf8(ret.stderr).unwrap();
                assert!(!stderr.contains("panicked"));
                assert_eq!(stderr.trim_end(), message.trim_end(), "{args:?}");
            }
        }
    }
    // The rate is required
    let ret = run(&["dvbs2"]);
    assert_eq!(ret.status.code(), Some(2));
    let ret = run(&["dvbs2", "--short"]);
    assert_eq!(ret.status.code(), Some(2));
    let ret = run(&["dvbs2", "--rate", "1/2", "--long"]);
    assert_eq!(ret.status.code(), Some(2));
}

const RATES: [(&str, AR4JARate); 3] = [
    ("1/2", AR4JARate::R1_2),
    ("2/3", AR4JARate::R2_3),
    ("4/5", AR4JARate::R4_5),
];

const SIZES: [(&str, AR4JAInfoSize); 3] = [
    ("1024", AR4JAInfoSize::K1024),
    ("4096", AR4JAInfoSize::K4096),
    ("16384", AR4JAInfoSize::K16384),
];

#[test]
fn ccsds_exhaustive() {
    assert_prints(
        &["ccsds", "--rate", "1/2", "--block-size", "1024", "--girth"],
        "Code girth = 6\n",
    );
    let mut seen = Vec::new();
    for (rate, r) in RATES {
        for (size, k) in SIZES {
            let h = AR4JACode::new(r, k).h();
            let alist = h.alist();
            assert_prints(&["ccsds", "--rate", rate, "--block-size", size], &alist);
            assert_prints(&["ccsds", "--block-size", size, "-r", rate], &alist);
            assert_prints(
                &["ccsds", &format!("--block-size={size}"), &format!("--rate={rate}")],
                &alist,
            );
            // Numbers are parsed as such
            assert_prints(
                &["ccsds", "--rate", rate, "--block-size", &format!("+0{size}")],
                &alist,
            );
            if size != "16384" {
                let line = girth_line(h.girth());
                assert_prints(
                    &["ccsds", "--rate", rate, "--block-size", size, "--girth"],
                    &line,
                );
            }
            assert!(!seen.contains(&alist));
            seen.push(alist);
        }
    }
    assert_eq!(seen.len(), 9);
}

#[test]
fn ccsds_invalid() {
    let bad_rates = [
        "", "1/3", "3/4", "7/8", "1/2 ", " 2/3", "04/5", "4/05", "8/10", "0.5", "4/5/", "r1_2",
        "R4_5", "2_3", "1/2,2/3", "4/5\n", "5/4",
    ];
    let bad_sizes = [
        "0", "1", "512", "1023", "1025", "2048", "4095", "4097", "8192", "16383", "16385",
        "32768", "65536", "10240", "40960", "18446744073709551615",
    ];
    for rate in bad_rates {
        // The rate is reported, whether or not the block size is valid
        for size in ["1024", "4096", "16384", "1000", "0"] {
            for girth in [false, true] {
                let mut args = vec!["ccsds", "--rate", rate, "--block-size", size];
                if girth {
                    args.push("--girth");
                }
                let message = format!("Invalid code rate {rate}");
                let ret = run(&args);
                assert_eq!(ret.status.code(), Some(1), "{args:?}: {ret:?}");
                assert!(ret.stdout.is_empty());
                let stderr = String::from_utf8(ret.stderr).unwrap();
                assert!(!stderr.contains("panicked"));
                assert_eq!(stderr.trim_end(), message.trim_end(), "{args:?}");
            }
        }
    }
    for size in bad_sizes {
        for (rate, _) in RATES {
            let message = format!("Invalid information block size k = {size}");
            assert_fails(&["ccsds", "--rate", rate, "--block-size", size], &message);
            assert_fails(
                &["ccsds", "--girth", "--block-size", size, "-r", rate],
                &message,
            );
        }
    }
    // Block sizes that are not numbers are rejected when parsing the arguments
    for size in ["", "1k", "1024.0", "-1024", "0x400", "1024 ", "18446744073709551616"] {
        let ret = run(&["ccsds", "--rate", "1/2", &format!("--block-size={size}")]);
        assert_eq!(ret.status.code(), Some(2), "{size:?}");
        assert!(ret.stdout.is_empty());
    }
    // Missing arguments
    for args in [
        &["ccsds"][..],
        &["ccsds", "--rate", "1/2"],
        &["ccsds", "--block-size", "1024"],
        &["ccsds", "--girth"],
    ] {
        assert_eq!(run(args).status.code(), Some(2), "{args:?}");
    }
}

#[test]
fn ccsds_c2() {
    let alist = C2Code::new().h().alist();
    assert!(alist.starts_with("8176 1022\n"));
    assert_prints(&["ccsds-c2"], &alist);
    // There are no arguments
    assert_eq!(run(&["ccsds-c2", "--girth"]).status.code(), Some(2));
    assert_eq!(run(&["ccsds-c2", "--rate", "7/8"]).status.code(), Some(2));
}
