//! Demonstration for property C13: the statistics of the BER engine are exact
//! (they are those of a set of whole simulated frames), each Eb/N0 stops exactly
//! when the required number of frame errors has been collected, a final
//! `Finished` report follows the last statistics, all the workers are joined,
//! and configurations whose frames cannot be processed return an error instead
//! of hanging.
//!
//! A scripted decoder is used: the channel is so good that the hard decisions
//! on the LLRs are the transmitted codeword, and the decoder then deliberately
//! damages a scripted number of systematic bits, claims a scripted number of
//! iterations and a scripted success flag, after a pseudo-random delay. Every
//! frame type has a distinct signature, so that the number of frames of each
//! type that went into some statistics can be solved from the totals, and
//! compared with what the decoders really produced. The decoder also checks
//! that what it receives is a codeword of its parity check matrix (several BER
//! tests for the same and for different codes are run from the same thread).
//!
//! The `cli_*` tests run the `ldpc-toolbox ber` binary and check its result
//! files.

use ldpc_toolbox::{
    decoder::{DecoderOutput, LdpcDecoder, factory::DecoderFactory},
    simulation::{
        ber::{BerTest, CodeStatistics, Report, Reporter, Statistics},
        modulation::{Bpsk, Modulation, Psk8},
    },
    sparse::SparseMatrix,
};
use std::{
    fmt::Display,
    sync::{
        Arc, Mutex,
        atomic::{AtomicUsize, Ordering},
        mpsc,
    },
    time::Duration,
};

const MAX_ITER: usize = 50;
const NUM_TYPES: usize = 5;
// (bit errors, iterations, decoder claims success)
const TYPES: [(u64, u64, bool); NUM_TYPES] = [
    (0, 3, true),               // correct frame
    (1, 7, true),               // false decode
    (2, MAX_ITER as u64, false), // wrong frame that an outer code with t >= 2 corrects
    (5, MAX_ITER as u64, false), // wrong frame
    (0, MAX_ITER as u64, false), // decoder gives up, but the systematic bits are right
];

/// When (if ever) a decoder panics.
#[derive(Debug, Clone, Copy, PartialEq)]
enum Sabotage {
    Never,
    /// The first `how_many` decoders that get to their n-th frame of the given
    /// bucket panic there (these are all the workers if there are few).
    SomeDecoders {
        bucket: usize,
        frame: usize,
        how_many: usize,
    },
    /// Every decoder panics on its n-th frame of the given bucket.
    AllDecoders { bucket: usize, frame: usize },
}

#[derive(Debug)]
struct Shared {
    k: usize,
    seed: u64,
    // Expected mean |LLR| of each bucket (a bucket is a distinct Eb/N0 value).
    // Empty if the frames are not to be classified (everything is bucket 0).
    bucket_scales: Vec<f64>,
    // Frames produced by the decoders: per bucket, per type
    produced: Mutex<Vec<[u64; NUM_TYPES]>>,
    built: AtomicUsize,
    sabotage: Sabotage,
    sabotaged: AtomicUsize,
    // The frames are not punctured, so every received word must be a codeword
    check_parity: bool,
}

#[derive(Debug, Clone)]
struct ScriptedFactory(Arc<Shared>);

impl Display for ScriptedFactory {
    fn fmt(&self, f: &mut std::fmt::Formatter<'_>) -> std::fmt::Result {
        write!(f, "Scripted")
    }
}

impl DecoderFactory for ScriptedFactory {
    fn build_decoder(&self, h: SparseMatrix) -> Box<dyn LdpcDecoder> {
        let id = self.0.built.fetch_add(1, Ordering::SeqCst);
        Box::new(ScriptedDecoder {
            shared: Arc::clone(&self.0),
            id,
            n_cw: h.num_cols(),
            state: self
                .0
                .seed
                .wrapping_mul(0x9E37_79B9_7F4A_7C15)
                .wrapping_add(id as u64 + 1),
            frames_in_bucket: vec![0; self.0.bucket_scales.len().max(1)],
            h: if self.0.check_parity { Some(h) } else { None },
        })
    }
}

#[derive(Debug)]
struct ScriptedDecoder {
    shared: Arc<Shared>,
    id: usize,
    n_cw: usize,
    state: u64,
    frames_in_bucket: Vec<usize>,
    // Parity check matrix, if the hard decisions are to be checked against it
    h: Option<SparseMatrix>,
}

impl ScriptedDecoder {
    fn next(&mut self) -> u64 {
        // splitmix64
        self.state = self.state.wrapping_add(0x9E37_79B9_7F4A_7C15);
        let mut z = self.state;
        z = (z ^ (z >> 30)).wrapping_mul(0xBF58_476D_1CE4_E5B9);
        z = (z ^ (z >> 27)).wrapping_mul(0x94D0_49BB_1331_11EB);
        z ^ (z >> 31)
    }
}

impl LdpcDecoder for ScriptedDecoder {
    fn decode(
        &mut self,
        llrs: &[f64],
        max_iterations: usize,
    ) -> Result<DecoderOutput, DecoderOutput> {
        assert_eq!(llrs.len(), self.n_cw);
        assert_eq!(max_iterations, MAX_ITER);
        // Which Eb/N0 does this frame belong to?
        let bucket = if self.shared.bucket_scales.is_empty() {
            0
        } else {
            let k = self.shared.k;
            let scale = llrs[..k].iter().map(|x| x.abs()).sum::<f64>() / k as f64;
            let mut best = 0;
            for (j, s) in self.shared.bucket_scales.iter().enumerate() {
                if (scale / s).ln().abs() < (scale / self.shared.bucket_scales[best]).ln().abs() {
                    best = j;
                }
            }
            assert!(
                (scale / self.shared.bucket_scales[best]).ln().abs() < 0.2,
                "cannot classify a frame with mean |LLR| {scale}"
            );
            best
        };
        let frame_in_bucket = self.frames_in_bucket[bucket];
        self.frames_in_bucket[bucket] += 1;
        match self.shared.sabotage {
            Sabotage::SomeDecoders {
                bucket: b,
                frame,
                how_many,
            } if b == bucket && frame == frame_in_bucket => {
                if self.shared.sabotaged.fetch_add(1, Ordering::SeqCst) < how_many {
                    panic!("scripted decoder panic (some workers, decoder {})", self.id)
                }
            }
            Sabotage::AllDecoders { bucket: b, frame }
                if b == bucket && frame == frame_in_bucket =>
            {
                panic!("scripted decoder panic (every worker, decoder {})", self.id)
            }
            _ => (),
        }

        // Perturb the timing
        let r = self.next();
        match r % 8 {
            0 => std::thread::sleep(Duration::from_micros((r >> 8) % 400)),
            1 | 2 => std::thread::yield_now(),
            3 => std::thread::sleep(Duration::from_micros((r >> 8) % 40)),
            _ => (),
        }

        let frame_type = match self.next() % 16 {
            0..=6 => 0,
            7..=8 => 1,
            9..=10 => 2,
            11..=13 => 3,
            _ => 4,
        };
        let (bit_errors, iterations, success) = TYPES[frame_type];
        let mut codeword: Vec<u8> = llrs.iter().map(|&x| u8::from(x <= 0.0)).collect();
        if let Some(h) = &self.h {
            for row in 0..h.num_rows() {
                let parity = h.iter_row(row).map(|&col| codeword[col]).sum::<u8>() % 2;
                assert_eq!(parity, 0, "the frame is not a codeword of the code");
            }
        }
        // Damage systematic bits only
        let offset = (self.next() % (self.shared.k as u64 - bit_errors)) as usize;
        for bit in &mut codeword[offset..offset + bit_errors as usize] {
            *bit ^= 1;
        }
        // The frame only counts as produced when it is handed over
        self.shared.produced.lock().unwrap()[bucket][frame_type] += 1;
        let output = DecoderOutput {
            codeword,
            iterations: iterations as usize,
        };
        if success { Ok(output) } else { Err(output) }
    }
}

/// Parity check matrix [P | I] with k = 24 and n = 36. The last 12 columns
/// are the identity, so that the encoder exists and puncturing the last third
/// of the codeword only removes parity bits. Different variants give different
/// codes with the same size.
fn parity_check(k: usize, m: usize, variant: usize) -> SparseMatrix {
    let mut h = SparseMatrix::new(m, k + m);
    for row in 0..m {
        for j in 0..5 {
            h.insert(row, (row * 7 + j * 5 + j * j + variant * 3 + (variant * row) % 5) % k);
        }
        h.insert(row, k + row);
    }
    h
}

/// Parity check matrix that does not have an encoder: two rows of the square
/// submatrix formed by the last columns are equal.
fn singular_parity_check(k: usize, m: usize) -> SparseMatrix {
    let mut h = parity_check(k, m, 0);
    h.remove(1, k + 1);
    h.insert(1, k);
    h
}

/// Solves the number of frames of each type from some statistics, checking
/// that the statistics are those of a set of whole frames.
fn frames_by_type(s: &Statistics, k: usize, bch_max_errors: u64) -> [u64; NUM_TYPES] {
    let ctx = format!("{s:?}");
    let ldpc = &s.ldpc;
    assert!(ldpc.frame_errors <= s.num_frames, "{ctx}");
    assert!(s.false_decodes <= ldpc.frame_errors, "{ctx}");
    let c1 = s.false_decodes;
    // c2 + c3 = rest, 2 c2 + 5 c3 = bit errors not from type 1
    let rest = ldpc.frame_errors - c1;
    assert!(ldpc.bit_errors >= c1 + 2 * rest, "{ctx}");
    let excess = ldpc.bit_errors - c1 - 2 * rest;
    assert_eq!(excess % 3, 0, "bit errors are not those of whole frames: {ctx}");
    let c3 = excess / 3;
    assert!(c3 <= rest, "{ctx}");
    let c2 = rest - c3;
    // c0 + c4 = correct, 3 c0 + 50 c4 = correct iterations
    let correct = s.num_frames - ldpc.frame_errors;
    assert!(ldpc.correct_iterations >= 3 * correct, "{ctx}");
    let excess = ldpc.correct_iterations - 3 * correct;
    assert_eq!(
        excess % (MAX_ITER as u64 - 3),
        0,
        "correct iterations are not those of whole frames: {ctx}"
    );
    let c4 = excess / (MAX_ITER as u64 - 3);
    assert!(c4 <= correct, "{ctx}");
    let c0 = correct - c4;
    let counts = [c0, c1, c2, c3, c4];
    assert_eq!(counts.iter().sum::<u64>(), s.num_frames, "{ctx}");
    let total_iterations: u64 = counts.iter().zip(TYPES.iter()).map(|(c, t)| c * t.1).sum();
    assert_eq!(s.total_iterations, total_iterations, "{ctx}");

    check_ratios(s, ldpc, k, &ctx);
    if bch_max_errors > 0 {
        let bch = s.bch.as_ref().expect("statistics of the outer code");
        let (mut bits, mut frames, mut iterations) = (0, 0, 0);
        for (c, t) in counts.iter().zip(TYPES.iter()) {
            if t.0 > bch_max_errors {
                bits += c * t.0;
                frames += c;
            } else {
                iterations += c * t.1;
            }
        }
        assert_eq!(bch.bit_errors, bits, "{ctx}");
        assert_eq!(bch.frame_errors, frames, "{ctx}");
        assert_eq!(bch.correct_iterations, iterations, "{ctx}");
        check_ratios(s, bch, k, &ctx);
    } else {
        assert!(s.bch.is_none(), "{ctx}");
    }
    counts
}

fn same(a: f64, b: f64) -> bool {
    (a.is_nan() && b.is_nan()) || a == b || (a - b).abs() <= 1e-12 * a.abs().max(b.abs())
}

fn check_ratios(s: &Statistics, c: &CodeStatistics, k: usize, ctx: &str) {
    let frames = s.num_frames as f64;
    assert!(same(c.ber, c.bit_errors as f64 / (k as f64 * frames)), "{ctx}");
    assert!(same(c.fer, c.frame_errors as f64 / frames), "{ctx}");
    assert!(
        same(
            c.average_iterations_correct,
            c.correct_iterations as f64 / (s.num_frames - c.frame_errors) as f64
        ),
        "{ctx}"
    );
    assert!(
        same(s.average_iterations, s.total_iterations as f64 / frames),
        "{ctx}"
    );
}

fn errors_for_termination(s: &Statistics) -> u64 {
    s.bch.as_ref().map_or(s.ldpc.frame_errors, |b| b.frame_errors)
}

fn same_counts(a: &Statistics, b: &Statistics) -> bool {
    let code = |x: &CodeStatistics, y: &CodeStatistics| {
        x.bit_errors == y.bit_errors
            && x.frame_errors == y.frame_errors
            && x.correct_iterations == y.correct_iterations
            && same(x.ber, y.ber)
            && same(x.fer, y.fer)
            && same(x.average_iterations_correct, y.average_iterations_correct)
    };
    a.ebn0_db.to_bits() == b.ebn0_db.to_bits()
        && a.num_frames == b.num_frames
        && a.total_iterations == b.total_iterations
        && a.false_decodes == b.false_decodes
        && same(a.average_iterations, b.average_iterations)
        && code(&a.ldpc, &b.ldpc)
        && match (&a.bch, &b.bch) {
            (Some(x), Some(y)) => code(x, y),
            (None, None) => true,
            _ => false,
        }
}

#[derive(Debug, Clone)]
struct Scenario {
    name: &'static str,
    puncturing: Option<Vec<bool>>,
    interleaving: Option<isize>,
    ebn0s: Vec<f32>,
    max_frame_errors: u64,
    bch_max_errors: u64,
    report_interval: Option<Duration>,
    sabotage: Sabotage,
    seed: u64,
    // None: the run must succeed. Some(text): the run must fail with an error
    // that contains the text.
    expected_error: Option<&'static str>,
    // Number of Eb/N0 that are completed before the failure
    completed_before_failure: usize,
    classify: bool,
    // Which of the codes is used
    code: usize,
    // Every frame that the decoders have produced must have been counted
    // (every worker has died and the required errors were not reached).
    all_counted: bool,
}

impl Scenario {
    fn new(name: &'static str, ebn0s: &[f32]) -> Scenario {
        Scenario {
            name,
            puncturing: None,
            interleaving: None,
            ebn0s: ebn0s.to_vec(),
            max_frame_errors: 20,
            bch_max_errors: 0,
            report_interval: Some(Duration::ZERO),
            sabotage: Sabotage::Never,
            seed: 1,
            expected_error: None,
            completed_before_failure: 0,
            classify: true,
            code: 0,
            all_counted: false,
        }
    }
}

const K: usize = 24;
const M: usize = 12;

fn run_scenario<Mod: Modulation>(sc: Scenario) {
    let (done_tx, done_rx) = mpsc::channel();
    let name = sc.name;
    let thread = std::thread::Builder::new()
        .name(format!("scenario {name}"))
        .spawn(move || {
            scenario_body::<Mod>(&sc);
            let _ = done_tx.send(());
        })
        .unwrap();
    match done_rx.recv_timeout(Duration::from_secs(180)) {
        Ok(()) => thread.join().unwrap(),
        Err(mpsc::RecvTimeoutError::Timeout) => panic!("scenario {name} hangs"),
        Err(mpsc::RecvTimeoutError::Disconnected) => {
            // The scenario has panicked: propagate
            if let Err(e) = thread.join() {
                std::panic::resume_unwind(e);
            }
            unreachable!()
        }
    }
}

fn scenario_body<Mod: Modulation>(sc: &Scenario) {
    let h = parity_check(K, M, sc.code);
    let n_cw = K + M;
    let n = match &sc.puncturing {
        Some(p) => {
            let trues = p.iter().filter(|&&b| b).count();
            (n_cw as f64 * trues as f64 / p.len() as f64).round() as usize
        }
        None => n_cw,
    };
    let rate = K as f64 / n as f64;
    // Distinct Eb/N0 values, in order of first appearance
    let mut distinct: Vec<f32> = Vec::new();
    for e in &sc.ebn0s {
        if !distinct.contains(e) {
            distinct.push(*e);
        }
    }
    let bucket_of = |e: f32| {
        if sc.classify {
            distinct.iter().position(|&d| d == e).unwrap()
        } else {
            0
        }
    };
    let bucket_scales: Vec<f64> = if sc.classify {
        distinct
            .iter()
            .map(|&e| 4.0 * rate * 10.0_f64.powf(0.1 * f64::from(e)))
            .collect()
    } else {
        Vec::new()
    };
    let num_buckets = bucket_scales.len().max(1);
    let shared = Arc::new(Shared {
        k: K,
        seed: sc.seed,
        bucket_scales,
        produced: Mutex::new(vec![[0; NUM_TYPES]; num_buckets]),
        built: AtomicUsize::new(0),
        sabotage: sc.sabotage,
        sabotaged: AtomicUsize::new(0),
        check_parity: sc.puncturing.is_none(),
    });
    let (report_tx, report_rx) = mpsc::channel();
    let reporter = sc.report_interval.map(|interval| Reporter {
        tx: report_tx,
        interval,
    });
    let test = BerTest::<Mod, ScriptedFactory>::new(
        h,
        ScriptedFactory(Arc::clone(&shared)),
        sc.puncturing.as_deref(),
        sc.interleaving,
        sc.max_frame_errors,
        MAX_ITER,
        &sc.ebn0s,
        reporter,
        sc.bch_max_errors,
    )
    .expect("the encoder exists");
    let outcome = test.run().map_err(|e| e.to_string());
    let name = sc.name;

    // The reports: statistics (in the order of the Eb/N0 list) and a single
    // Finished at the very end. The sender is gone by now.
    let reports: Vec<Report> = report_rx.try_iter().collect();
    assert!(
        matches!(
            report_rx.try_recv(),
            Err(mpsc::TryRecvError::Disconnected)
        ),
        "[{name}] the reporter is still alive after the run"
    );
    let mut last_of_point: Vec<Statistics> = Vec::new();
    if sc.report_interval.is_some() {
        assert_eq!(
            reports.last(),
            Some(&Report::Finished),
            "[{name}] the last report is not Finished"
        );
        let body: Vec<&Statistics> = reports[..reports.len() - 1]
            .iter()
            .map(|r| match r {
                Report::Statistics(s) => s,
                Report::Finished => panic!("[{name}] Finished in the middle of the reports"),
            })
            .collect();
        // Split the reports into Eb/N0 points. The reports of a point are
        // periodic reports (each with more frames than the one before) and a
        // final forced report, which may repeat the last periodic report. A
        // point that completes ends with the required number of errors.
        let periodic_reports = sc.report_interval.unwrap() < Duration::from_secs(3600);
        let mut current: Vec<&Statistics> = Vec::new();
        let mut j = 0;
        while j < body.len() {
            let s = body[j];
            let point = last_of_point.len();
            assert!(point < sc.ebn0s.len(), "[{name}] too many reports");
            assert_eq!(
                s.ebn0_db.to_bits(),
                sc.ebn0s[point].to_bits(),
                "[{name}] report for the wrong Eb/N0"
            );
            // every report describes a set of whole frames
            let counts = frames_by_type(s, K, sc.bch_max_errors);
            assert!(
                errors_for_termination(s) <= sc.max_frame_errors,
                "[{name}] overshoot: {s:?}"
            );
            if let Some(p) = current.last() {
                let before = frames_by_type(p, K, sc.bch_max_errors);
                let grown = counts.iter().zip(before.iter()).all(|(a, b)| a >= b);
                assert!(grown, "[{name}] statistics went backwards: {p:?} -> {s:?}");
            }
            current.push(s);
            j += 1;
            if errors_for_termination(s) == sc.max_frame_errors {
                // (Scenarios with periodic reports do not have consecutive
                // points with the same Eb/N0, so this is not ambiguous.)
                if periodic_reports
                    && sc.max_frame_errors > 0
                    && j < body.len()
                    && same_counts(body[j], s)
                {
                    // periodic report followed by the forced report
                    j += 1;
                }
                last_of_point.push(s.clone());
                current.clear();
            }
        }
        // A point that did not reach the required number of errors (a failed
        // point) ends with its forced report.
        if let Some(p) = current.last() {
            last_of_point.push((*p).clone());
        }
        if !periodic_reports {
            // only the forced reports
            assert_eq!(body.len(), last_of_point.len(), "[{name}] periodic reports?");
        }
    } else {
        assert!(reports.is_empty());
    }

    // Classified production, to bound what can have been counted
    let produced = shared.produced.lock().unwrap().clone();
    let mut counted = vec![[0u64; NUM_TYPES]; num_buckets];

    match (&outcome, sc.expected_error) {
        (Ok(stats), None) => {
            assert_eq!(stats.len(), sc.ebn0s.len(), "[{name}] one result per Eb/N0");
            for (j, s) in stats.iter().enumerate() {
                assert_eq!(s.ebn0_db.to_bits(), sc.ebn0s[j].to_bits(), "[{name}]");
                let counts = frames_by_type(s, K, sc.bch_max_errors);
                assert_eq!(
                    errors_for_termination(s),
                    sc.max_frame_errors,
                    "[{name}] the point did not stop exactly at the required frame errors: {s:?}"
                );
                if sc.max_frame_errors == 0 {
                    assert_eq!(s.num_frames, 0, "[{name}]");
                }
                for t in 0..NUM_TYPES {
                    counted[bucket_of(s.ebn0_db)][t] += counts[t];
                }
                if sc.report_interval.is_some() {
                    assert!(
                        same_counts(&last_of_point[j], s),
                        "[{name}] the last report of point {j} differs from its result:\n{:?}\n{s:?}",
                        last_of_point[j]
                    );
                }
            }
            if sc.report_interval.is_some() {
                assert_eq!(last_of_point.len(), stats.len(), "[{name}]");
            }
        }
        (Err(e), Some(text)) => {
            assert!(e.contains(text), "[{name}] unexpected error: {e}");
            if sc.report_interval.is_some() {
                // completed points, and the forced report of the failed point
                assert_eq!(
                    last_of_point.len(),
                    sc.completed_before_failure + 1,
                    "[{name}] reports: {reports:?}"
                );
                for s in &last_of_point {
                    let counts = frames_by_type(s, K, sc.bch_max_errors);
                    for t in 0..NUM_TYPES {
                        counted[bucket_of(s.ebn0_db)][t] += counts[t];
                    }
                }
                for s in &last_of_point[..sc.completed_before_failure] {
                    assert_eq!(errors_for_termination(s), sc.max_frame_errors, "[{name}]");
                }
            }
        }
        (Ok(_), Some(text)) => panic!("[{name}] the run succeeded, expected error: {text}"),
        (Err(e), None) => panic!("[{name}] the run failed: {e}"),
    }
    for b in 0..num_buckets {
        for t in 0..NUM_TYPES {
            if sc.all_counted {
                assert_eq!(
                    counted[b][t], produced[b][t],
                    "[{name}] frames of type {t} in bucket {b} were lost"
                );
            }
            assert!(
                counted[b][t] <= produced[b][t],
                "[{name}] {} frames of type {t} counted in bucket {b}, but the decoders only produced {}",
                counted[b][t],
                produced[b][t]
            );
        }
    }
    // All the workers have been joined: nobody else holds the shared state of
    // the decoders (the test and all its decoders are gone).
    let mut holders = Arc::strong_count(&shared);
    for _ in 0..200 {
        if holders == 1 {
            break;
        }
        std::thread::sleep(Duration::from_millis(10));
        holders = Arc::strong_count(&shared);
    }
    if sc.expected_error.is_none() {
        assert_eq!(holders, 1, "[{name}] decoders are still alive after the run");
    }
}

#[test]
fn exact_statistics_plain() {
    let mut sc = Scenario::new("plain", &[30.0, 36.0, 42.0, 36.0, 48.0]);
    sc.max_frame_errors = 25;
    run_scenario::<Bpsk>(sc);
    for seed in 2..8 {
        let mut sc = Scenario::new("plain seeds", &[33.0, 39.0, 33.0]);
        sc.seed = seed;
        sc.max_frame_errors = 1 + seed;
        run_scenario::<Bpsk>(sc);
    }
}

#[test]
fn exact_statistics_outer_code() {
    for (seed, t) in [(11, 1), (12, 2), (13, 4), (14, 5), (15, 100)] {
        let mut sc = Scenario::new("outer code", &[30.0, 36.0, 42.0]);
        sc.bch_max_errors = t;
        sc.max_frame_errors = if t >= 5 { 0 } else { 9 };
        sc.seed = seed;
        run_scenario::<Bpsk>(sc);
    }
}

#[test]
fn exact_statistics_punctured_interleaved() {
    let mut sc = Scenario::new("punctured", &[31.0, 37.0, 43.0, 49.0]);
    sc.puncturing = Some(vec![true, true, false]);
    sc.interleaving = Some(4);
    sc.bch_max_errors = 2;
    sc.max_frame_errors = 12;
    sc.seed = 21;
    run_scenario::<Bpsk>(sc);
    let mut sc = Scenario::new("backwards interleaver", &[35.0, 41.0]);
    sc.interleaving = Some(-6);
    sc.seed = 22;
    run_scenario::<Bpsk>(sc);
}

#[test]
fn exact_statistics_8psk() {
    let mut sc = Scenario::new("8psk", &[40.0, 44.0, 40.0]);
    sc.interleaving = Some(3);
    sc.classify = false;
    sc.max_frame_errors = 15;
    sc.seed = 31;
    run_scenario::<Psk8>(sc);
}

#[test]
fn slow_reports_and_no_reports() {
    let mut sc = Scenario::new("no reporter", &[30.0, 36.0, 42.0]);
    sc.report_interval = None;
    sc.seed = 41;
    run_scenario::<Bpsk>(sc);
    // Only the forced reports; consecutive points with the same Eb/N0
    let mut sc = Scenario::new("slow reporter", &[30.0, 30.0, 36.0, 36.0, 36.0]);
    sc.report_interval = Some(Duration::from_secs(7200));
    sc.seed = 42;
    sc.max_frame_errors = 6;
    run_scenario::<Bpsk>(sc);
    let mut sc = Scenario::new("slow reporter, outer code", &[30.0, 30.0]);
    sc.report_interval = Some(Duration::from_secs(7200));
    sc.seed = 43;
    sc.bch_max_errors = 3;
    sc.max_frame_errors = 1;
    run_scenario::<Bpsk>(sc);
}

#[test]
fn zero_errors_required_and_empty_list() {
    let mut sc = Scenario::new("zero frame errors", &[30.0, 36.0]);
    sc.max_frame_errors = 0;
    run_scenario::<Bpsk>(sc);
    let sc = Scenario::new("no Eb/N0", &[]);
    run_scenario::<Bpsk>(sc);
}

#[test]
fn puncturing_that_does_not_fit_is_an_error() {
    // 36 is not divisible by 5
    let mut sc = Scenario::new("puncturing misfit", &[30.0, 36.0]);
    sc.puncturing = Some(vec![true, true, true, true, false]);
    sc.expected_error = Some("not divisible");
    sc.classify = false;
    run_scenario::<Bpsk>(sc);
    // Without a reporter
    let mut sc = Scenario::new("puncturing misfit, no reporter", &[30.0, 36.0]);
    sc.puncturing = Some(vec![true, true, true, true, false]);
    sc.expected_error = Some("not divisible");
    sc.report_interval = None;
    sc.classify = false;
    run_scenario::<Bpsk>(sc);
}

#[test]
fn interleaver_that_does_not_fit_is_an_error() {
    let mut sc = Scenario::new("interleaver misfit", &[30.0, 36.0]);
    sc.interleaving = Some(7);
    sc.expected_error = Some("panicked");
    sc.classify = false;
    run_scenario::<Bpsk>(sc);
}

#[test]
fn modulator_that_does_not_fit_is_an_error() {
    // 36 * 2 / 4 = 18 fits 8PSK, but 36 * 5 / 9 = 20 does not
    let mut sc = Scenario::new("modulator misfit", &[30.0, 36.0]);
    sc.puncturing = Some(vec![
        true, true, true, true, true, false, false, false, false,
    ]);
    sc.expected_error = Some("panicked");
    sc.classify = false;
    run_scenario::<Psk8>(sc);
}

#[test]
fn decoder_panics_in_some_workers() {
    // In the first Eb/N0
    let mut sc = Scenario::new("some decoders panic at once", &[30.0, 36.0]);
    sc.sabotage = Sabotage::SomeDecoders {
        bucket: 0,
        frame: 0,
        how_many: 2,
    };
    sc.expected_error = Some("panicked");
    sc.seed = 51;
    run_scenario::<Bpsk>(sc);
    // In the second Eb/N0, after some frames
    let mut sc = Scenario::new("some decoders panic later", &[30.0, 36.0, 42.0]);
    sc.sabotage = Sabotage::SomeDecoders {
        bucket: 1,
        frame: 2,
        how_many: 1,
    };
    sc.expected_error = Some("panicked");
    sc.completed_before_failure = 1;
    sc.max_frame_errors = 200;
    sc.seed = 52;
    run_scenario::<Bpsk>(sc);
}

#[test]
fn decoder_panics_in_every_worker() {
    let mut sc = Scenario::new("every decoder panics at once", &[30.0, 36.0]);
    sc.sabotage = Sabotage::AllDecoders {
        bucket: 0,
        frame: 0,
    };
    sc.expected_error = Some("panicked");
    sc.all_counted = true;
    run_scenario::<Bpsk>(sc);
    // Every worker dies in the third Eb/N0 before producing anything.
    let mut sc = Scenario::new("every decoder panics in the third point", &[30.0, 36.0, 42.0, 48.0]);
    sc.sabotage = Sabotage::AllDecoders {
        bucket: 2,
        frame: 0,
    };
    sc.expected_error = Some("panicked");
    sc.completed_before_failure = 2;
    sc.max_frame_errors = 10;
    sc.seed = 53;
    run_scenario::<Bpsk>(sc);
    // Every worker produces four whole frames and then dies. The required
    // number of errors cannot be reached, and every frame has to be counted.
    for (seed, t) in [(54, 0), (55, 2)] {
        let mut sc = Scenario::new("every decoder panics after four frames", &[42.0]);
        sc.sabotage = Sabotage::AllDecoders {
            bucket: 0,
            frame: 4,
        };
        sc.expected_error = Some("panicked");
        sc.max_frame_errors = 1_000_000;
        sc.bch_max_errors = t;
        sc.all_counted = true;
        sc.seed = seed;
        run_scenario::<Bpsk>(sc);
    }
}

/// Several BER tests, for the same and for different codes (and for a parity
/// check matrix without encoder), run one after another from the same thread.
#[test]
fn many_tests_from_one_thread() {
    let (done_tx, done_rx) = mpsc::channel();
    let thread = std::thread::spawn(move || {
        let codes = [0, 0, 1, 0, 2, 3, 4, 5, 0, 6, 7, 1, 1, 0, 5];
        for (j, &code) in codes.iter().enumerate() {
            let mut sc = Scenario::new("one thread", &[32.0, 38.0]);
            sc.code = code;
            sc.seed = 70 + j as u64;
            sc.max_frame_errors = 5;
            sc.bch_max_errors = (j % 3) as u64;
            if j % 4 == 3 {
                sc.interleaving = Some(2);
            }
            scenario_body::<Bpsk>(&sc);
            if j % 3 == 1 {
                // the encoder does not exist: always the same error, and no
                // harm to the tests that follow
                let (tx, rx) = mpsc::channel();
                let outcome = BerTest::<Bpsk, ScriptedFactory>::new(
                    singular_parity_check(K, M),
                    ScriptedFactory(Arc::new(Shared {
                        k: K,
                        seed: 0,
                        bucket_scales: Vec::new(),
                        produced: Mutex::new(vec![[0; NUM_TYPES]; 1]),
                        built: AtomicUsize::new(0),
                        sabotage: Sabotage::Never,
                        sabotaged: AtomicUsize::new(0),
                        check_parity: true,
                    })),
                    None,
                    None,
                    5,
                    MAX_ITER,
                    &[30.0],
                    Some(Reporter {
                        tx,
                        interval: Duration::ZERO,
                    }),
                    0,
                );
                let e = outcome.err().expect("there is no encoder for this matrix");
                assert!(e.to_string().contains("not invertible"), "{e}");
                // nothing has run, nothing is reported
                assert!(matches!(rx.try_recv(), Err(mpsc::TryRecvError::Disconnected)));
            }
            // a failing configuration in between
            if j % 5 == 2 {
                let mut sc = Scenario::new("one thread, misfit", &[32.0, 38.0]);
                sc.code = code;
                sc.puncturing = Some(vec![true, true, true, true, false]);
                sc.expected_error = Some("not divisible");
                sc.classify = false;
                scenario_body::<Bpsk>(&sc);
            }
        }
        // The same code with the two modulations
        let mut sc = Scenario::new("one thread, 8psk", &[40.0]);
        sc.code = 1;
        sc.classify = false;
        sc.interleaving = Some(3);
        scenario_body::<Psk8>(&sc);
        let _ = done_tx.send(());
    });
    match done_rx.recv_timeout(Duration::from_secs(300)) {
        Ok(()) => thread.join().unwrap(),
        Err(mpsc::RecvTimeoutError::Timeout) => panic!("the sequence of BER tests hangs"),
        Err(mpsc::RecvTimeoutError::Disconnected) => {
            if let Err(e) = thread.join() {
                std::panic::resume_unwind(e);
            }
            unreachable!()
        }
    }
}

// ---------------------------------------------------------------------------
// The command line interface
// ---------------------------------------------------------------------------

const BIN: &str = env!("CARGO_BIN_EXE_ldpc-toolbox");

struct Sandbox(std::path::PathBuf);

impl Sandbox {
    fn new(name: &str) -> Sandbox {
        let dir = std::env::temp_dir().join(format!("c13-demo-{}-{name}", std::process::id()));
        let _ = std::fs::remove_dir_all(&dir);
        std::fs::create_dir_all(&dir).unwrap();
        std::fs::write(dir.join("good.alist"), parity_check(K, M, 0).alist()).unwrap();
        std::fs::write(dir.join("singular.alist"), singular_parity_check(K, M).alist()).unwrap();
        Sandbox(dir)
    }

    fn path(&self, name: &str) -> String {
        self.0.join(name).to_str().unwrap().to_string()
    }

    /// Runs `ldpc-toolbox ber` and returns its exit status, stdout and stderr.
    /// Panics if it does not finish in two minutes.
    fn ber(&self, args: &[&str]) -> (bool, String, String) {
        use std::io::Read;
        let mut child = std::process::Command::new(BIN)
            .arg("ber")
            .args(args)
            .stdin(std::process::Stdio::null())
            .stdout(std::process::Stdio::piped())
            .stderr(std::process::Stdio::piped())
            .spawn()
            .expect("running ldpc-toolbox");
        let mut stdout = child.stdout.take().unwrap();
        let mut stderr = child.stderr.take().unwrap();
        let out = std::thread::spawn(move || {
            let mut s = Vec::new();
            let _ = stdout.read_to_end(&mut s);
            String::from_utf8_lossy(&s).into_owned()
        });
        let err = std::thread::spawn(move || {
            let mut s = Vec::new();
            let _ = stderr.read_to_end(&mut s);
            String::from_utf8_lossy(&s).into_owned()
        });
        let start = std::time::Instant::now();
        let status = loop {
            if let Some(status) = child.try_wait().unwrap() {
                break status;
            }
            if start.elapsed() > Duration::from_secs(120) {
                let _ = child.kill();
                panic!("ldpc-toolbox ber {args:?} hangs");
            }
            std::thread::sleep(Duration::from_millis(5));
        };
        (status.success(), out.join().unwrap(), err.join().unwrap())
    }
}

impl Drop for Sandbox {
    fn drop(&mut self) {
        let _ = std::fs::remove_dir_all(&self.0);
    }
}

#[derive(Debug)]
struct Row {
    ebn0: f64,
    frames: u64,
    bit_errors: u64,
    frame_errors: u64,
    false_decodes: u64,
    average_iterations: String,
}

/// Checks the layout of a result file and the exactness of its rows, and
/// returns the rows.
fn read_table(path: &str, banner: Option<&str>, ebn0s: &[f64], frame_errors: Option<u64>) -> Vec<Row> {
    let text = std::fs::read_to_string(path).unwrap_or_else(|e| panic!("{path}: {e}"));
    assert!(text.ends_with('\n'), "{path} does not end with a whole line");
    let lines: Vec<&str> = text.lines().collect();
    assert_eq!(lines[0], "BER TEST PARAMETERS", "{path}");
    assert_eq!(lines[1], "-------------------", "{path}");
    assert!(lines.contains(&" - Information bits (k): 24"), "{path}");
    assert!(lines.contains(&" - Codeword size (N_cw): 36"), "{path}");
    let header = lines
        .iter()
        .position(|l| l.starts_with("  Eb/N0 |   Frames | Bit errs | Frame er | False de |     BER |"))
        .unwrap_or_else(|| panic!("{path}: no table header"));
    assert_eq!(lines[header - 1], "", "{path}");
    assert!(lines[header + 1].starts_with("--------|----------|"), "{path}");
    for b in ["LDPC+BCH results", "LDPC-only results"] {
        let found = lines[..header].contains(&b);
        assert_eq!(found, banner == Some(b), "{path}: banner {b}");
        assert!(!lines[header..].contains(&b), "{path}");
    }
    let rows: Vec<Row> = lines[header + 2..]
        .iter()
        .map(|line| {
            let f: Vec<&str> = line.split('|').map(str::trim).collect();
            assert_eq!(f.len(), 11, "{path}: {line}");
            let row = Row {
                ebn0: f[0].parse().unwrap(),
                frames: f[1].parse().unwrap(),
                bit_errors: f[2].parse().unwrap(),
                frame_errors: f[3].parse().unwrap(),
                false_decodes: f[4].parse().unwrap(),
                average_iterations: f[7].to_string(),
            };
            assert!(row.frame_errors <= row.frames, "{path}: {line}");
            assert!(row.bit_errors >= row.frame_errors, "{path}: {line}");
            assert!(row.bit_errors <= row.frame_errors * 24, "{path}: {line}");
            if row.frames > 0 {
                let close = |printed: &str, exact: f64| {
                    let printed: f64 = printed.parse().unwrap();
                    (printed - exact).abs() <= 0.0051 * exact.abs()
                };
                let ber = row.bit_errors as f64 / (24.0 * row.frames as f64);
                let fer = row.frame_errors as f64 / row.frames as f64;
                assert!(close(f[5], ber), "{path}: BER in {line}");
                assert!(close(f[6], fer), "{path}: FER in {line}");
            } else {
                assert_eq!((f[5], f[6]), ("NaN", "NaN"), "{path}: {line}");
            }
            row
        })
        .collect();
    assert_eq!(rows.len(), ebn0s.len(), "{path}: number of rows\n{text}");
    for (row, ebn0) in rows.iter().zip(ebn0s) {
        assert!((row.ebn0 - ebn0).abs() < 1e-9, "{path}: row for {} instead of {ebn0}", row.ebn0);
        if let Some(fe) = frame_errors {
            assert_eq!(row.frame_errors, fe, "{path}: the point must stop exactly at {fe} frame errors");
        }
        if banner.is_none() {
            // (the false decodes are those of the LDPC decoder)
            assert!(row.false_decodes <= row.frame_errors, "{path}");
        }
    }
    rows
}

#[test]
fn cli_plain() {
    let dir = Sandbox::new("plain");
    let out = dir.path("out.txt");
    std::fs::write(&out, "STALE\n".repeat(2000)).unwrap();
    let (ok, stdout, stderr) = dir.ber(&[
        "--min-ebn0", "0.5", "--max-ebn0", "2.6", "--step-ebn0", "1", "--frame-errors", "7",
        "--output-file", &out, "--output-file-ldpc", &dir.path("ldpc.txt"), &dir.path("good.alist"),
    ]);
    assert!(ok, "{stderr}");
    read_table(&out, None, &[0.5, 1.5, 2.5], Some(7));
    assert!(!std::fs::read_to_string(&out).unwrap().contains("STALE"));
    assert!(!std::path::Path::new(&dir.path("ldpc.txt")).exists());
    assert!(stdout.starts_with("BER TEST PARAMETERS\n-------------------\n"), "{stdout}");
    assert!(stdout.contains("\n - Frame size (N): 36\n"));
    // no result files at all
    let (ok, _, stderr) = dir.ber(&[
        "--min-ebn0", "1", "--max-ebn0", "1", "--step-ebn0", "1", "--frame-errors", "2", &dir.path("good.alist"),
    ]);
    assert!(ok, "{stderr}");
}

#[test]
fn cli_outer_code() {
    let dir = Sandbox::new("bch");
    let (bch, ldpc) = (dir.path("bch.txt"), dir.path("ldpc.txt"));
    let (ok, _, stderr) = dir.ber(&[
        "--min-ebn0", "1", "--max-ebn0", "2.2", "--step-ebn0", "0.6", "--frame-errors", "4",
        "--bch-max-errors", "2", "--decoder", "Minstarapproxf32", "--max-iter", "20",
        "--output-file", &bch, "--output-file-ldpc", &ldpc, &dir.path("good.alist"),
    ]);
    assert!(ok, "{stderr}");
    let bch_rows = read_table(&bch, Some("LDPC+BCH results"), &[1.0, 1.6, 2.2], Some(4));
    let ldpc_rows = read_table(&ldpc, Some("LDPC-only results"), &[1.0, 1.6, 2.2], None);
    for (b, l) in bch_rows.iter().zip(&ldpc_rows) {
        // the two files describe the same frames
        assert_eq!(b.frames, l.frames);
        assert_eq!(b.false_decodes, l.false_decodes);
        assert_eq!(b.average_iterations, l.average_iterations);
        assert!(b.frame_errors <= l.frame_errors);
        assert!(b.bit_errors <= l.bit_errors);
        // frames with one or two bit errors are corrected
        assert!(l.bit_errors - b.bit_errors <= 2 * (l.frame_errors - b.frame_errors));
        assert!(l.bit_errors - b.bit_errors >= l.frame_errors - b.frame_errors);
        assert!(b.bit_errors >= 3 * b.frame_errors);
    }
    // the LDPC-only file alone, with puncturing and interleaving that fit
    let alone = dir.path("alone.txt");
    let (ok, _, stderr) = dir.ber(&[
        "--min-ebn0", "3", "--max-ebn0", "3", "--step-ebn0", "1", "--frame-errors", "3", "--bch-max-errors", "1",
        "--puncturing", "1,1,1,0", "--interleaving=-3", "--output-file-ldpc", &alone, &dir.path("good.alist"),
    ]);
    assert!(ok, "{stderr}");
    read_table(&alone, Some("LDPC-only results"), &[3.0], None);
    assert!(std::fs::read_to_string(&alone).unwrap().contains("\n - Frame size (N): 27\n"));
}

#[test]
fn cli_corner_cases() {
    let dir = Sandbox::new("corner");
    // consecutive points with the same Eb/N0 (as f32) share a row
    let same = dir.path("same.txt");
    let (ok, _, stderr) = dir.ber(&[
        "--min-ebn0", "1", "--max-ebn0", "1.00000001", "--step-ebn0", "0.000000005", "--frame-errors", "3",
        "--output-file", &same, &dir.path("good.alist"),
    ]);
    assert!(ok, "{stderr}");
    read_table(&same, None, &[1.0], Some(3));
    // no frame errors required: no frames are counted
    let zero = dir.path("zero.txt");
    let (ok, _, stderr) = dir.ber(&[
        "--min-ebn0", "1", "--max-ebn0", "2", "--step-ebn0", "1", "--frame-errors", "0",
        "--output-file", &zero, &dir.path("good.alist"),
    ]);
    assert!(ok, "{stderr}");
    for row in read_table(&zero, None, &[1.0, 2.0], Some(0)) {
        assert_eq!((row.frames, row.bit_errors), (0, 0));
    }
}

#[test]
fn cli_failures() {
    let dir = Sandbox::new("fail");
    let good = dir.path("good.alist");
    let cases: [(&str, Vec<&str>); 3] = [
        ("puncturing", vec!["--puncturing", "1,1,1,0,1,1,0"]),
        ("interleaver", vec!["--interleaving", "7"]),
        ("modulator", vec!["--modulation", "PSK8", "--puncturing", "1,1,1,1,1,0,0,0,0"]),
    ];
    for (name, extra) in cases {
        let out = dir.path(&format!("{name}.txt"));
        let mut args = vec![
            "--min-ebn0", "1", "--max-ebn0", "2", "--step-ebn0", "1", "--frame-errors", "3", "--output-file", &out,
        ];
        args.extend(extra);
        args.push(&good);
        let (ok, _, stderr) = dir.ber(&args);
        assert!(!ok, "{name} that does not fit was reported as success");
        if name == "puncturing" {
            assert!(stderr.contains("not divisible"), "{stderr}");
        }
        // whatever made it to the file is at most the row of the failed point
        let text = std::fs::read_to_string(&out).unwrap();
        let rows = text.lines().skip_while(|l| !l.starts_with("--------|")).skip(1).count();
        assert!(rows <= 1, "{name}: {text}");
    }
    // no encoder: error before anything runs, the file has been truncated
    let out = dir.path("singular.txt");
    std::fs::write(&out, "stale").unwrap();
    let (ok, _, stderr) = dir.ber(&[
        "--min-ebn0", "1", "--max-ebn0", "2", "--step-ebn0", "1", "--frame-errors", "3",
        "--output-file", &out, &dir.path("singular.alist"),
    ]);
    assert!(!ok);
    assert!(stderr.contains("not invertible"), "{stderr}");
    assert_eq!(std::fs::read_to_string(&out).unwrap(), "");
}

/// The same scenarios with fewer workers: the test binary runs itself again
/// under `taskset` (if it exists), since the number of workers is the number
/// of CPUs that the process may use.
#[test]
fn fewer_workers() {
    if std::env::var_os("C13_DEMO_CHILD").is_some() {
        return;
    }
    let exe = std::env::current_exe().unwrap();
    for cpus in ["0", "0-1", "0-2"] {
        let probe = std::process::Command::new("taskset")
            .args(["-c", cpus, "true"])
            .output();
        match probe {
            Ok(out) if out.status.success() => (),
            _ => {
                eprintln!("taskset -c {cpus} is not usable here, skipping");
                continue;
            }
        }
        let output = std::env::temp_dir().join(format!(
            "c13-demo-child-{}-{}.log",
            std::process::id(),
            cpus.replace('-', "_")
        ));
        let log = std::fs::File::create(&output).unwrap();
        let mut child = std::process::Command::new("taskset")
            .args(["-c", cpus])
            .arg(&exe)
            .env("C13_DEMO_CHILD", "1")
            .arg("--test-threads=2")
            .stdin(std::process::Stdio::null())
            .stdout(log.try_clone().unwrap())
            .stderr(log)
            .spawn()
            .expect("running the test binary under taskset");
        let start = std::time::Instant::now();
        let status = loop {
            if let Some(status) = child.try_wait().unwrap() {
                break status;
            }
            if start.elapsed() > Duration::from_secs(900) {
                let _ = child.kill();
                panic!("the scenarios hang with CPUs {cpus}");
            }
            std::thread::sleep(Duration::from_millis(20));
        };
        let text = std::fs::read_to_string(&output).unwrap_or_default();
        let _ = std::fs::remove_file(&output);
        assert!(
            status.success(),
            "the scenarios fail with CPUs {cpus}:\n{text}"
        );
    }
}
