//! Demonstration for property C19: the C interface is a faithful wrapper of the
//! Rust encoder and decoder.
//!
//! The C entry points are reached through their exported symbols (the rlib of
//! the crate carries them), and every answer is compared with what the public
//! Rust API gives for the same data:
//!
//!  * decoder: `SparseMatrix::from_alist` + `DecoderImplementation::from_str`
//!    + `build_decoder` + `Puncturer::depuncture` + `LdpcDecoder::decode`;
//!  * encoder: the systematic codeword is the only word whose first k symbols
//!    are the message and which is in the kernel of H when the last columns of
//!    H are invertible, so the C output is checked against H itself and
//!    `Encoder::from_h` decides which matrices must be refused;
//!  * constructors: null exactly for malformed alists, unknown implementation
//!    names, malformed puncturing patterns, unreadable / non UTF-8 files and
//!    singular encoder matrices.
//!
//! Only std and the public API of `ldpc_toolbox` are used. Every test body
//! runs under a watchdog so that nothing can hang forever.

use ldpc_toolbox::{
    cli::ber::parse_puncturing_pattern,
    decoder::{
        LdpcDecoder,
        factory::{DecoderFactory, DecoderImplementation},
    },
    encoder::Encoder,
    simulation::puncturing::Puncturer,
    sparse::SparseMatrix,
};
use std::{
    ffi::{CString, c_char, c_void},
    path::PathBuf,
    sync::{
        atomic::{AtomicUsize, Ordering},
        mpsc,
    },
    time::Duration,
};

unsafe extern "C" {
    fn ldpc_toolbox_decoder_ctor(
        alist_file_path: *const c_char,
        implementation: *const c_char,
        puncturing: *const c_char,
    ) -> *mut c_void;
    fn ldpc_toolbox_decoder_ctor_alist_string(
        alist: *const c_char,
        implementation: *const c_char,
        puncturing: *const c_char,
    ) -> *mut c_void;
    fn ldpc_toolbox_decoder_dtor(decoder: *mut c_void);
    fn ldpc_toolbox_decoder_decode_f64(
        decoder: *mut c_void,
        output: *mut u8,
        output_len: usize,
        llrs: *const f64,
        llrs_len: usize,
        max_iterations: u32,
    ) -> i32;
    fn ldpc_toolbox_decoder_decode_f32(
        decoder: *mut c_void,
        output: *mut u8,
        output_len: usize,
        llrs: *const f32,
        llrs_len: usize,
        max_iterations: u32,
    ) -> i32;
    fn ldpc_toolbox_encoder_ctor(
        alist_file_path: *const c_char,
        puncturing: *const c_char,
    ) -> *mut c_void;
    fn ldpc_toolbox_encoder_ctor_alist_string(
        alist: *const c_char,
        puncturing: *const c_char,
    ) -> *mut c_void;
    fn ldpc_toolbox_encoder_dtor(encoder: *mut c_void);
    fn ldpc_toolbox_encoder_encode(
        encoder: *mut c_void,
        output: *mut u8,
        output_len: usize,
        input: *const u8,
        input_len: usize,
    );
}

// ---------------------------------------------------------------------------
// Infrastructure
// ---------------------------------------------------------------------------

/// Runs `f` on its own thread and fails the test if it does not finish in time.
fn with_watchdog<F: FnOnce() + Send + 'static>(seconds: u64, f: F) {
    let (tx, rx) = mpsc::channel();
    let worker = std::thread::spawn(move || {
        f();
        let _ = tx.send(());
    });
    match rx.recv_timeout(Duration::from_secs(seconds)) {
        Ok(()) => worker.join().unwrap(),
        Err(mpsc::RecvTimeoutError::Disconnected) => {
            // the body panicked: propagate the panic
            if let Err(e) = worker.join() {
                std::panic::resume_unwind(e);
            }
            panic!("test body ended without reporting");
        }
        Err(mpsc::RecvTimeoutError::Timeout) => panic!("test body timed out"),
    }
}

/// Small deterministic generator (splitmix64).
struct Rng(u64);

impl Rng {
    fn next(&mut self) -> u64 {
        self.0 = self.0.wrapping_add(0x9e37_79b9_7f4a_7c15);
        let mut z = self.0;
        z = (z ^ (z >> 30)).wrapping_mul(0xbf58_476d_1ce4_e5b9);
        z = (z ^ (z >> 27)).wrapping_mul(0x94d0_49bb_1331_11eb);
        z ^ (z >> 31)
    }

    fn below(&mut self, n: usize) -> usize {
        (self.next() % n as u64) as usize
    }

    fn unit(&mut self) -> f64 {
        (self.next() >> 11) as f64 / (1u64 << 53) as f64
    }

    /// Roughly normal (sum of uniforms), exactly reproducible.
    fn gauss(&mut self) -> f64 {
        let mut s = 0.0;
        for _ in 0..12 {
            s += self.unit();
        }
        s - 6.0
    }
}

fn cstr(s: &str) -> CString {
    CString::new(s).unwrap()
}

fn cbytes(b: &[u8]) -> CString {
    CString::new(b.to_vec()).unwrap()
}

static FILE_COUNTER: AtomicUsize = AtomicUsize::new(0);

/// A scratch directory removed on drop.
struct Scratch(PathBuf);

impl Scratch {
    fn new() -> Scratch {
        let dir = std::env::temp_dir().join(format!(
            "ldpc_c19_demo_{}_{}",
            std::process::id(),
            FILE_COUNTER.fetch_add(1, Ordering::SeqCst)
        ));
        std::fs::create_dir_all(&dir).unwrap();
        Scratch(dir)
    }

    fn file(&self, contents: &[u8]) -> String {
        let path = self.0.join(format!(
            "f{}.alist",
            FILE_COUNTER.fetch_add(1, Ordering::SeqCst)
        ));
        std::fs::write(&path, contents).unwrap();
        path.to_str().unwrap().to_string()
    }
}

impl Drop for Scratch {
    fn drop(&mut self) {
        let _ = std::fs::remove_dir_all(&self.0);
    }
}

const IMPLEMENTATIONS: &[&str] = &[
    "Phif64",
    "Phif32",
    "Tanhf64",
    "Tanhf32",
    "Minstarapproxf64",
    "Minstarapproxf32",
    "Minstarapproxi8",
    "Minstarapproxi8Jones",
    "Minstarapproxi8PartialHardLimit",
    "Minstarapproxi8JonesPartialHardLimit",
    "Minstarapproxi8Deg1Clip",
    "Minstarapproxi8JonesDeg1Clip",
    "Minstarapproxi8PartialHardLimitDeg1Clip",
    "Minstarapproxi8JonesPartialHardLimitDeg1Clip",
    "Aminstarf64",
    "Aminstarf32",
    "Aminstari8",
    "Aminstari8Jones",
    "Aminstari8PartialHardLimit",
    "Aminstari8JonesPartialHardLimit",
    "Aminstari8Deg1Clip",
    "Aminstari8JonesDeg1Clip",
    "Aminstari8PartialHardLimitDeg1Clip",
    "Aminstari8JonesPartialHardLimitDeg1Clip",
    "HLPhif64",
    "HLPhif32",
    "HLTanhf64",
    "HLTanhf32",
    "HLMinstarapproxf64",
    "HLMinstarapproxf32",
    "HLMinstarapproxi8",
    "HLMinstarapproxi8PartialHardLimit",
    "HLAminstarf64",
    "HLAminstarf32",
    "HLAminstari8",
    "HLAminstari8PartialHardLimit",
];

// ---------------------------------------------------------------------------
// Codes
// ---------------------------------------------------------------------------

#[derive(Clone, Copy, Debug, PartialEq, Eq)]
enum Parity {
    /// Lower triangular with unit diagonal: invertible, dense generator.
    Triangular,
    /// Double diagonal: the repeat-accumulate special case of the encoder.
    Staircase,
    /// Two equal columns: cannot be inverted.
    Singular,
}

/// Builds an m x n parity check matrix [H0 H1] with H1 of the requested kind.
fn make_code(rng: &mut Rng, n: usize, m: usize, parity: Parity) -> SparseMatrix {
    let k = n - m;
    let mut h = SparseMatrix::new(m, n);
    for col in 0..k {
        let weight = 2 + rng.below(2);
        let mut placed = 0;
        while placed < weight.min(m) {
            let row = rng.below(m);
            if !h.contains(row, col) {
                h.insert(row, col);
                placed += 1;
            }
        }
    }
    // make sure that no check is empty on the systematic side
    for row in 0..m {
        if !(0..k).any(|col| h.contains(row, col)) {
            h.insert(row, rng.below(k));
        }
    }
    match parity {
        Parity::Triangular => {
            for j in 0..m {
                h.insert(j, k + j);
                for i in j + 1..m {
                    if rng.below(4) == 0 {
                        h.insert(i, k + j);
                    }
                }
            }
            // a one far from the diagonal so that this is never a staircase
            if m >= 3 && !h.contains(m - 1, k) {
                h.insert(m - 1, k);
            }
        }
        Parity::Staircase => {
            for j in 0..m {
                h.insert(j, k + j);
                if j + 1 < m {
                    h.insert(j + 1, k + j);
                }
            }
        }
        Parity::Singular => {
            for j in 0..m {
                h.insert(j, k + j);
            }
            // last column equal to the previous one (m ones in all, so this
            // is not a staircase either)
            h.remove(m - 1, k + m - 1);
            h.insert(m - 2, k + m - 1);
        }
    }
    h
}

fn in_kernel(h: &SparseMatrix, word: &[u8]) -> bool {
    assert_eq!(word.len(), h.num_cols());
    (0..h.num_rows()).all(|r| h.iter_row(r).map(|&c| word[c]).fold(0, |a, b| a ^ b) == 0)
}

/// Keeps the blocks of `word` selected by `pattern` (what a transmitter does).
fn puncture<T: Copy>(pattern: &[bool], word: &[T]) -> Vec<T> {
    assert_eq!(word.len() % pattern.len(), 0);
    let block = word.len() / pattern.len();
    let mut out = Vec::new();
    for (j, &keep) in pattern.iter().enumerate() {
        if keep {
            out.extend_from_slice(&word[j * block..(j + 1) * block]);
        }
    }
    out
}

// ---------------------------------------------------------------------------
// Handles
// ---------------------------------------------------------------------------

struct CDecoder(*mut c_void);

impl CDecoder {
    fn from_text(alist: &str, implementation: &str, puncturing: &str) -> Option<CDecoder> {
        let (a, i, p) = (cstr(alist), cstr(implementation), cstr(puncturing));
        let handle =
            unsafe { ldpc_toolbox_decoder_ctor_alist_string(a.as_ptr(), i.as_ptr(), p.as_ptr()) };
        (!handle.is_null()).then(|| CDecoder(handle))
    }

    fn from_file(path: &str, implementation: &str, puncturing: &str) -> Option<CDecoder> {
        let (a, i, p) = (cstr(path), cstr(implementation), cstr(puncturing));
        let handle = unsafe { ldpc_toolbox_decoder_ctor(a.as_ptr(), i.as_ptr(), p.as_ptr()) };
        (!handle.is_null()).then(|| CDecoder(handle))
    }

    /// Decodes into a guarded buffer; returns the return code and the bits.
    fn decode_f64(&mut self, out_len: usize, llrs: &[f64], max_iterations: u32) -> (i32, Vec<u8>) {
        let mut buffer = vec![0xa5u8; out_len + 16];
        let ret = unsafe {
            ldpc_toolbox_decoder_decode_f64(
                self.0,
                buffer[8..].as_mut_ptr(),
                out_len,
                llrs.as_ptr(),
                llrs.len(),
                max_iterations,
            )
        };
        check_guards(&buffer, out_len);
        (ret, buffer[8..8 + out_len].to_vec())
    }

    fn decode_f32(&mut self, out_len: usize, llrs: &[f32], max_iterations: u32) -> (i32, Vec<u8>) {
        let mut buffer = vec![0xa5u8; out_len + 16];
        let ret = unsafe {
            ldpc_toolbox_decoder_decode_f32(
                self.0,
                buffer[8..].as_mut_ptr(),
                out_len,
                llrs.as_ptr(),
                llrs.len(),
                max_iterations,
            )
        };
        check_guards(&buffer, out_len);
        (ret, buffer[8..8 + out_len].to_vec())
    }
}

impl Drop for CDecoder {
    fn drop(&mut self) {
        unsafe { ldpc_toolbox_decoder_dtor(self.0) };
    }
}

unsafe impl Send for CDecoder {}

struct CEncoder(*mut c_void);

impl CEncoder {
    fn from_text(alist: &str, puncturing: &str) -> Option<CEncoder> {
        let (a, p) = (cstr(alist), cstr(puncturing));
        let handle = unsafe { ldpc_toolbox_encoder_ctor_alist_string(a.as_ptr(), p.as_ptr()) };
        (!handle.is_null()).then(|| CEncoder(handle))
    }

    fn from_file(path: &str, puncturing: &str) -> Option<CEncoder> {
        let (a, p) = (cstr(path), cstr(puncturing));
        let handle = unsafe { ldpc_toolbox_encoder_ctor(a.as_ptr(), p.as_ptr()) };
        (!handle.is_null()).then(|| CEncoder(handle))
    }

    fn encode(&self, out_len: usize, message: &[u8]) -> Vec<u8> {
        let mut buffer = vec![0xa5u8; out_len + 16];
        // the message is copied so that it can be checked that it is not modified
        let input = message.to_vec();
        unsafe {
            ldpc_toolbox_encoder_encode(
                self.0,
                buffer[8..].as_mut_ptr(),
                out_len,
                input.as_ptr(),
                input.len(),
            )
        };
        assert_eq!(input, message, "the encoder modified its input");
        check_guards(&buffer, out_len);
        buffer[8..8 + out_len].to_vec()
    }
}

impl Drop for CEncoder {
    fn drop(&mut self) {
        unsafe { ldpc_toolbox_encoder_dtor(self.0) };
    }
}

unsafe impl Send for CEncoder {}

fn check_guards(buffer: &[u8], out_len: usize) {
    assert!(
        buffer[..8].iter().all(|&b| b == 0xa5),
        "bytes before the output buffer were written"
    );
    assert!(
        buffer[8 + out_len..].iter().all(|&b| b == 0xa5),
        "bytes after the output buffer were written"
    );
}

// ---------------------------------------------------------------------------
// Rust side reference for the decoder
// ---------------------------------------------------------------------------

struct Reference {
    h: SparseMatrix,
    implementation: DecoderImplementation,
    puncturer: Option<Puncturer>,
    /// Decoder that sees the same history as the C handle.
    persistent: Box<dyn LdpcDecoder>,
}

impl Reference {
    fn new(alist: &str, implementation: &str, puncturing: &str) -> Reference {
        let h = SparseMatrix::from_alist(alist).unwrap();
        let implementation: DecoderImplementation = implementation.parse().unwrap();
        let puncturer = if puncturing.is_empty() {
            None
        } else {
            Some(Puncturer::new(
                &parse_puncturing_pattern(puncturing).unwrap(),
            ))
        };
        let persistent = implementation.build_decoder(h.clone());
        Reference {
            h,
            implementation,
            puncturer,
            persistent,
        }
    }

    /// Expected (return code, full word) for these received LLRs.
    fn decode(&mut self, received: &[f64], max_iterations: u32) -> (i32, Vec<u8>) {
        let full = match &self.puncturer {
            Some(p) => p.depuncture(received).unwrap(),
            None => received.to_vec(),
        };
        let fold = |r: Result<_, _>| match r {
            Ok(ldpc_toolbox::decoder::DecoderOutput {
                codeword,
                iterations,
            }) => (i32::try_from(iterations).unwrap(), codeword),
            Err(ldpc_toolbox::decoder::DecoderOutput { codeword, .. }) => (-1, codeword),
        };
        let same_history = fold(self.persistent.decode(&full, max_iterations as usize));
        // calls are independent of each other: a brand new decoder agrees
        let mut fresh = self.implementation.build_decoder(self.h.clone());
        let no_history = fold(fresh.decode(&full, max_iterations as usize));
        assert_eq!(same_history, no_history);
        same_history
    }
}

/// LLR vectors (for the full codeword) of several flavours around `codeword`.
fn llr_menu(rng: &mut Rng, codeword: &[u8]) -> Vec<Vec<f64>> {
    let n = codeword.len();
    let sign = |b: u8| if b == 0 { 1.0 } else { -1.0 };
    let mut menu = Vec::new();
    // clean
    menu.push(codeword.iter().map(|&b| 4.0 * sign(b)).collect::<Vec<f64>>());
    // one and two hard errors
    let mut v = menu[0].clone();
    v[rng.below(n)] *= -1.0;
    menu.push(v.clone());
    v[rng.below(n)] *= -0.5;
    menu.push(v);
    // noise of growing strength
    for sigma in [0.5, 1.0, 2.0, 4.0] {
        menu.push(
            codeword
                .iter()
                .map(|&b| 2.0 * (sign(b) + sigma * rng.gauss()) / (sigma * sigma))
                .collect(),
        );
    }
    // garbage that is not related to any codeword
    menu.push((0..n).map(|_| 10.0 * rng.gauss()).collect());
    // erasures only, and negative zeros
    menu.push(vec![0.0; n]);
    menu.push(vec![-0.0; n]);
    // a few erasures inside a clean word
    let mut v = menu[0].clone();
    for _ in 0..3 {
        v[rng.below(n)] = 0.0;
    }
    menu.push(v);
    // extreme magnitudes (infinities and NaN make some of the Rust decoders
    // panic, which is outside of what can be compared here)
    let mut v = menu[0].clone();
    v[rng.below(n)] = 1e30;
    v[rng.below(n)] = -1e30;
    v[rng.below(n)] = 3e15;
    v[rng.below(n)] = -1e-300;
    v[rng.below(n)] = f64::MIN_POSITIVE / 4.0;
    menu.push(v);
    // values that are not representable in f32 and round differently
    menu.push(
        codeword
            .iter()
            .map(|&b| sign(b) * (1.0 + rng.unit() * 1e-9) * 1e-3)
            .collect(),
    );
    menu
}

const PATTERNS: &[&str] = &["", "1", "1,1", "1,0", "0,1", "1,1,0", "0,1,1", "1,0,1,1", "0,0,1,0,1,1"];

/// Runs a complete call sequence on a handle and compares it with the reference.
fn exercise_decoder(
    rng: &mut Rng,
    handle: &mut CDecoder,
    reference: &mut Reference,
    pattern: &str,
    codeword: &[u8],
    k: usize,
) {
    let n = codeword.len();
    let pattern = if pattern.is_empty() {
        vec![true]
    } else {
        parse_puncturing_pattern(pattern).unwrap()
    };
    let menu = llr_menu(rng, codeword);
    for (round, full) in menu.iter().enumerate() {
        let received = puncture(&pattern, full);
        let max_iterations = [0u32, 1, 2, 7, 25][rng.below(5)];
        let out_len = [0usize, 1, k, n - 1, n][rng.below(5)];
        if round % 2 == 0 {
            let (code, word) = reference.decode(&received, max_iterations);
            let (ret, out) = handle.decode_f64(out_len, &received, max_iterations);
            assert_eq!(ret, code, "f64 return code");
            assert_eq!(out, &word[..out_len], "f64 output");
            assert_eq!(word.len(), n);
        } else {
            let narrow = received.iter().map(|&x| x as f32).collect::<Vec<f32>>();
            let widened = narrow.iter().map(|&x| f64::from(x)).collect::<Vec<f64>>();
            let (code, word) = reference.decode(&widened, max_iterations);
            let (ret, out) = handle.decode_f32(out_len, &narrow, max_iterations);
            assert_eq!(ret, code, "f32 return code");
            assert_eq!(out, &word[..out_len], "f32 output");
        }
    }
    // the same input twice in a row, after all of the above, still gives the
    // same answer (and the full word this time)
    let received = puncture(&pattern, &menu[4]);
    let first = handle.decode_f64(n, &received, 10);
    let second = handle.decode_f64(n, &received, 10);
    assert_eq!(first, second);
    assert_eq!(first, reference.decode(&received, 10));
}

struct Code {
    n: usize,
    k: usize,
    h: SparseMatrix,
    alist: String,
}

fn code_menu(rng: &mut Rng) -> Vec<Code> {
    let mut codes = Vec::new();
    for &(n, m, parity) in &[
        (12usize, 6usize, Parity::Triangular),
        (24, 8, Parity::Staircase),
        (60, 24, Parity::Triangular),
        (36, 12, Parity::Staircase),
    ] {
        let h = make_code(rng, n, m, parity);
        let alist = if codes.len() % 2 == 0 {
            h.alist()
        } else {
            h.alist_no_padding()
        };
        codes.push(Code {
            n,
            k: n - m,
            h,
            alist,
        });
    }
    codes
}

/// A random codeword of the code, obtained from the C encoder and verified
/// against the parity check matrix.
fn random_codeword(rng: &mut Rng, code: &Code) -> Vec<u8> {
    let encoder = CEncoder::from_text(&code.alist, "").expect("encodable code");
    let message = (0..code.k).map(|_| rng.below(2) as u8).collect::<Vec<u8>>();
    let word = encoder.encode(code.n, &message);
    assert_eq!(&word[..code.k], &message[..]);
    assert!(in_kernel(&code.h, &word));
    word
}

// ---------------------------------------------------------------------------
// Tests: decoder
// ---------------------------------------------------------------------------

#[test]
fn decoder_matches_rust_for_every_implementation() {
    with_watchdog(600, || {
        let mut rng = Rng(0xc19_0001);
        let codes = code_menu(&mut rng);
        for (c, code) in codes.iter().enumerate() {
            let codeword = random_codeword(&mut rng, code);
            for (i, implementation) in IMPLEMENTATIONS.iter().enumerate() {
                // every implementation sees every pattern on the first code, and
                // a rotating choice of patterns on the others
                for (p, pattern) in PATTERNS.iter().enumerate() {
                    if c != 0 && (i + p + c) % 4 != 0 {
                        continue;
                    }
                    let mut handle = CDecoder::from_text(&code.alist, implementation, pattern)
                        .expect("valid decoder arguments");
                    let mut reference = Reference::new(&code.alist, implementation, pattern);
                    exercise_decoder(
                        &mut rng,
                        &mut handle,
                        &mut reference,
                        pattern,
                        &codeword,
                        code.k,
                    );
                }
            }
        }
    });
}

#[test]
fn decoder_handles_do_not_interfere() {
    with_watchdog(300, || {
        let mut rng = Rng(0xc19_0002);
        let codes = code_menu(&mut rng);
        let code = &codes[2];
        let codeword = random_codeword(&mut rng, code);
        let zero = vec![0u8; code.n];
        // two handles with different settings used alternately, one of them
        // from several threads in turn
        let mut a = CDecoder::from_text(&code.alist, "Phif64", "1,1,0").unwrap();
        let mut b = CDecoder::from_text(&code.alist, "HLAminstari8", "").unwrap();
        let mut ra = Reference::new(&code.alist, "Phif64", "1,1,0");
        let mut rb = Reference::new(&code.alist, "HLAminstari8", "");
        for round in 0..6 {
            let word = if round % 2 == 0 { &codeword } else { &zero };
            exercise_decoder(&mut rng, &mut a, &mut ra, "1,1,0", word, code.k);
            let (b_back, rb_back, rng_back) = std::thread::spawn({
                let word = word.clone();
                let k = code.k;
                let mut rng = Rng(rng.next());
                move || {
                    exercise_decoder(&mut rng, &mut b, &mut rb, "", &word, k);
                    (b, rb, rng)
                }
            })
            .join()
            .unwrap();
            b = b_back;
            rb = rb_back;
            rng = rng_back;
        }
        // destroying one handle leaves the other one usable
        drop(a);
        exercise_decoder(&mut rng, &mut b, &mut rb, "", &codeword, code.k);
    });
}

#[test]
fn decoder_constructor_refuses_bad_arguments() {
    with_watchdog(120, || {
        let mut rng = Rng(0xc19_0003);
        let codes = code_menu(&mut rng);
        let good = &codes[0].alist;
        assert!(CDecoder::from_text(good, "Phif64", "").is_some());

        // implementation names
        for name in [
            "", " ", "phif64", "PHIF64", "Phif64 ", " Phif64", "Phif64\n", "Phif", "Phif640",
            "HLPhif64x", "HL", "Minstarapproxi16", "Phif64,Phif32", "0",
        ] {
            assert!(
                CDecoder::from_text(good, name, "").is_none(),
                "implementation {name:?} accepted"
            );
            assert!(name.parse::<DecoderImplementation>().is_err());
        }
        for name in IMPLEMENTATIONS {
            assert!(CDecoder::from_text(good, name, "1,0").is_some());
        }
        // a name that is not UTF-8
        {
            let (a, i, p) = (cstr(good), cbytes(b"Phif64\xff"), cstr(""));
            let handle = unsafe {
                ldpc_toolbox_decoder_ctor_alist_string(a.as_ptr(), i.as_ptr(), p.as_ptr())
            };
            assert!(handle.is_null());
        }

        // puncturing patterns
        for pattern in BAD_PATTERNS {
            assert!(
                CDecoder::from_text(good, "Phif64", pattern).is_none(),
                "pattern {pattern:?} accepted"
            );
            assert!(parse_puncturing_pattern(pattern).is_err());
        }
        for pattern in PATTERNS.iter().chain(["0", "0,0", "1,1,1,1,1,1,1"].iter()) {
            // patterns are validated on their own: the constructor does not
            // look at whether they divide the code length
            assert!(
                CDecoder::from_text(good, "Tanhf32", pattern).is_some(),
                "pattern {pattern:?} refused"
            );
        }

        // alists
        for alist in bad_alists(good) {
            assert!(SparseMatrix::from_alist(&alist).is_err());
            assert!(
                CDecoder::from_text(&alist, "Phif64", "").is_none(),
                "alist {alist:?} accepted"
            );
            // other faults at the same time do not change the answer
            assert!(CDecoder::from_text(&alist, "nope", "2").is_none());
        }
    });
}

const BAD_PATTERNS: &[&str] = &[
    ",", "1,", ",1", "1,,0", "1,2", "2", "1 ,0", "1, 0", " 1", "1 ", " ", "1;0", "01", "10", "true",
    "1,0,", "1,0\n", "-1", "1.0", "١",
];

/// Texts that the alist parser refuses.
fn bad_alists(good: &str) -> Vec<String> {
    let lines = good.split('\n').collect::<Vec<_>>();
    let ncols: usize = lines[0].split_whitespace().next().unwrap().parse().unwrap();
    let mut bad = vec![
        String::new(),
        String::from("\n"),
        String::from("hello"),
        String::from("12"),
        String::from("12 x\n"),
        String::from("x 12\n"),
        String::from("-3 2\n"),
        String::from("3.0 2\n"),
        String::from("3 2\n"),
        String::from("3 2\n2 3\n2 2 2\n3 3\n1 2\n1 2"),
        String::from("3 2\n2 3\n2 2 2\n3 3\n1 2\n1 2\n1 3\n"),
        String::from("3 2\n2 3\n2 2 2\n3 3\n1 2\n1 2\n1 b\n"),
        String::from("3 2\n2 3\n2 2 2\n3 3\n1 2\n1 2\n1 -2\n"),
    ];
    // the good text cut after each of its first lines (columns missing)
    for keep in 1..4 + ncols {
        bad.push(lines[..keep].join("\n"));
    }
    // a row index beyond the number of rows
    let mut broken = lines.clone();
    let replaced = format!("{} 99999", broken[4]);
    broken[4] = &replaced;
    bad.push(broken.join("\n"));
    bad
}

// ---------------------------------------------------------------------------
// Tests: encoder
// ---------------------------------------------------------------------------

#[test]
fn encoder_writes_the_punctured_systematic_codeword() {
    with_watchdog(300, || {
        let mut rng = Rng(0xc19_0004);
        let mut codes = code_menu(&mut rng);
        // a few more shapes: tiny, rate close to one, and rate close to zero
        for &(n, m, parity) in &[
            (6usize, 3usize, Parity::Staircase),
            (6, 3, Parity::Triangular),
            (48, 4, Parity::Triangular),
            (48, 44, Parity::Triangular),
            (30, 25, Parity::Staircase),
        ] {
            let h = make_code(&mut rng, n, m, parity);
            let alist = h.alist();
            codes.push(Code {
                n,
                k: n - m,
                h,
                alist,
            });
        }
        for code in &codes {
            assert!(Encoder::from_h(&code.h).is_ok());
            let plain = CEncoder::from_text(&code.alist, "").unwrap();
            let patterns = PATTERNS
                .iter()
                .chain(["0", "0,0,0", "1,1,1,1,1,1", "0,0,0,0,0,1"].iter())
                .copied()
                .filter(|p| !p.is_empty())
                .map(|p| (p, parse_puncturing_pattern(p).unwrap()))
                .filter(|(_, v)| code.n % v.len() == 0)
                .map(|(p, v)| (v, CEncoder::from_text(&code.alist, p).unwrap()))
                .collect::<Vec<_>>();
            assert!(patterns.len() >= 6);
            let mut history: Vec<(Vec<u8>, Vec<u8>)> = Vec::new();
            for round in 0..40 {
                let message = match round {
                    0 => vec![0u8; code.k],
                    1 => vec![1u8; code.k],
                    // bytes other than 1 are zeros for the encoder
                    2 => (0..code.k).map(|j| [0u8, 1, 2, 255, 128, 3][j % 6]).collect(),
                    // unit messages
                    r if r < 3 + code.k.min(8) => {
                        let mut v = vec![0u8; code.k];
                        v[(r - 3) * code.k / code.k.min(8)] = 1;
                        v
                    }
                    _ => (0..code.k).map(|_| rng.below(2) as u8).collect(),
                };
                let bits = message.iter().map(|&b| u8::from(b == 1)).collect::<Vec<u8>>();
                let word = plain.encode(code.n, &message);
                assert!(word.iter().all(|&b| b <= 1));
                assert_eq!(&word[..code.k], &bits[..], "systematic part");
                assert!(in_kernel(&code.h, &word), "not a codeword");
                for (pattern, encoder) in &patterns {
                    let expected = puncture(pattern, &word);
                    assert_eq!(encoder.encode(expected.len(), &message), expected);
                }
                history.push((message, word));
            }
            // earlier messages give the same words again, in another order
            for (message, word) in history.iter().rev().step_by(3) {
                assert_eq!(&plain.encode(code.n, message), word);
                for (pattern, encoder) in patterns.iter().rev() {
                    let expected = puncture(pattern, word);
                    assert_eq!(encoder.encode(expected.len(), message), expected);
                }
            }
            // linearity ties all of the words together
            let (m0, w0) = &history[10];
            let (m1, w1) = &history[11];
            let sum = m0.iter().zip(m1).map(|(a, b)| a ^ b).collect::<Vec<u8>>();
            let expected = w0.iter().zip(w1).map(|(a, b)| a ^ b).collect::<Vec<u8>>();
            assert_eq!(plain.encode(code.n, &sum), expected);
        }
    });
}

#[test]
fn encoder_constructor_refuses_bad_arguments() {
    with_watchdog(120, || {
        let mut rng = Rng(0xc19_0005);
        let codes = code_menu(&mut rng);
        let good = &codes[1].alist;
        assert!(CEncoder::from_text(good, "").is_some());
        for pattern in BAD_PATTERNS {
            assert!(
                CEncoder::from_text(good, pattern).is_none(),
                "pattern {pattern:?} accepted"
            );
        }
        for pattern in PATTERNS.iter().chain(["0", "0,0", "1,1,1,1,1,1,1"].iter()) {
            assert!(CEncoder::from_text(good, pattern).is_some());
        }
        for alist in bad_alists(good) {
            assert!(
                CEncoder::from_text(&alist, "").is_none(),
                "alist {alist:?} accepted"
            );
            assert!(CEncoder::from_text(&alist, "1,x").is_none());
        }
        // matrices whose last columns cannot be inverted
        for &(n, m) in &[(6usize, 3usize), (12, 6), (24, 8), (40, 30)] {
            let h = make_code(&mut rng, n, m, Parity::Singular);
            assert!(Encoder::from_h(&h).is_err());
            for text in [h.alist(), h.alist_no_padding()] {
                assert!(CEncoder::from_text(&text, "").is_none());
                assert!(CEncoder::from_text(&text, "1,0").is_none());
                // a decoder has no such requirement
                assert!(CDecoder::from_text(&text, "Phif64", "").is_some());
            }
            // an all-zero parity part as well
            let mut z = SparseMatrix::new(m, n);
            for (r, c) in h.iter_all().filter(|&(_, c)| c < n - m) {
                z.insert(r, c);
            }
            assert!(Encoder::from_h(&z).is_err());
            assert!(CEncoder::from_text(&z.alist(), "").is_none());
        }
    });
}

// ---------------------------------------------------------------------------
// Tests: file constructors
// ---------------------------------------------------------------------------

/// The alist followed by filler that the parser never looks at, so that the
/// file has exactly `total` bytes. The filler is made of characters of 1 to 4
/// bytes, shifted by `phase` so that every kind straddles every boundary.
fn padded(alist: &str, total: usize, phase: usize) -> Vec<u8> {
    let mut text = String::from(alist);
    assert!(text.ends_with('\n'));
    assert!(text.len() <= total);
    let filler = ["é", "€", "𝄞", "x", "\n", "ß", "\r\n", "漢"];
    for _ in 0..phase.min(total - text.len()) {
        text.push('#');
    }
    let mut j = 0;
    while text.len() < total {
        let next = filler[j % filler.len()];
        if text.len() + next.len() <= total {
            text.push_str(next);
        } else {
            text.push('.');
        }
        j += 1;
    }
    assert_eq!(text.len(), total);
    text.into_bytes()
}

#[test]
fn file_constructors_read_whole_files_of_any_size() {
    with_watchdog(300, || {
        let mut rng = Rng(0xc19_0006);
        let codes = code_menu(&mut rng);
        let scratch = Scratch::new();
        let code = &codes[3];
        let codeword = random_codeword(&mut rng, code);
        let base = code.alist.len();
        let mut sizes = vec![base, base + 1, base + 2, base + 3, base + 4, base + 5];
        for boundary in [512usize, 1024, 4096, 8192, 16384, 32768, 65536, 131072] {
            for delta in -4i64..=4 {
                let size = (boundary as i64 + delta) as usize;
                if size >= base {
                    sizes.push(size);
                }
            }
        }
        sizes.push(1_000_003);
        for (s, &size) in sizes.iter().enumerate() {
            for phase in 0..4 {
                if size > 70_000 && phase > 0 {
                    continue;
                }
                let contents = padded(&code.alist, size, phase);
                let path = scratch.file(&contents);
                let pattern = PATTERNS[(s + phase) % PATTERNS.len()];
                let implementation = IMPLEMENTATIONS[(7 * s + phase) % IMPLEMENTATIONS.len()];
                let mut handle =
                    CDecoder::from_file(&path, implementation, pattern).expect("readable file");
                let mut reference = Reference::new(&code.alist, implementation, pattern);
                exercise_decoder(
                    &mut rng,
                    &mut handle,
                    &mut reference,
                    pattern,
                    &codeword,
                    code.k,
                );
                let encoder = CEncoder::from_file(&path, "").expect("readable file");
                assert_eq!(encoder.encode(code.n, &codeword[..code.k]), codeword);
                let encoder = CEncoder::from_file(&path, "0,1,1").expect("readable file");
                assert_eq!(
                    encoder.encode(code.n / 3 * 2, &codeword[..code.k]),
                    &codeword[code.n / 3..]
                );

                // one byte of the filler damaged: the text is no longer UTF-8 and
                // the file must be refused, wherever the damage is
                if size > base {
                    let mut damaged = contents.clone();
                    let at = match phase {
                        0 => size - 1,
                        1 => base,
                        2 => base + rng.below(size - base),
                        _ => (size - 1).min(base + 4096 - (base % 4096)),
                    };
                    damaged[at] = [0xffu8, 0xc0, 0xf8, 0x80][phase];
                    if std::str::from_utf8(&damaged).is_err() {
                        let path = scratch.file(&damaged);
                        assert!(CDecoder::from_file(&path, implementation, pattern).is_none());
                        assert!(CEncoder::from_file(&path, "").is_none());
                    }
                }
            }
        }
        // files that end inside a multi-byte character
        for tail in [&b"\xc3"[..], b"\xe2\x82", b"\xe2", b"\xf0\x9d\x84", b"\xf0\x9d", b"\xf0"] {
            for total in [base + 7, 4096, 4097, 4098, 4099, 8192, 8193] {
                let mut contents = padded(&code.alist, total - tail.len(), 1);
                contents.extend_from_slice(tail);
                let path = scratch.file(&contents);
                assert!(CDecoder::from_file(&path, "Phif64", "").is_none());
                assert!(CEncoder::from_file(&path, "").is_none());
                // completing the character makes the file acceptable
                let whole = match tail[0] {
                    0xc3 => "é",
                    0xe2 => "€",
                    _ => "𝄞",
                };
                contents.extend_from_slice(&whole.as_bytes()[tail.len()..]);
                let path = scratch.file(&contents);
                assert!(CDecoder::from_file(&path, "Phif64", "").is_some());
                assert!(CEncoder::from_file(&path, "").is_some());
            }
        }
    });
}

#[test]
fn file_constructors_refuse_what_cannot_be_read_or_parsed() {
    with_watchdog(120, || {
        let mut rng = Rng(0xc19_0007);
        let codes = code_menu(&mut rng);
        let scratch = Scratch::new();
        let good = &codes[0].alist;
        let good_path = scratch.file(good.as_bytes());
        assert!(CDecoder::from_file(&good_path, "Phif64", "").is_some());
        assert!(CEncoder::from_file(&good_path, "").is_some());

        // paths that cannot be opened or read
        let directory = scratch.0.to_str().unwrap().to_string();
        let missing = format!("{directory}/does/not/exist.alist");
        let below_file = format!("{good_path}/x");
        for path in [
            missing.as_str(),
            directory.as_str(),
            below_file.as_str(),
            "",
            "/",
            ".",
        ] {
            assert!(
                CDecoder::from_file(path, "Phif64", "").is_none(),
                "decoder opened {path:?}"
            );
            assert!(
                CEncoder::from_file(path, "").is_none(),
                "encoder opened {path:?}"
            );
        }
        // the alist text itself is not a path
        assert!(CDecoder::from_file(good, "Phif64", "").is_none());
        assert!(CEncoder::from_file(good, "").is_none());
        // and a path is not an alist
        assert!(CDecoder::from_text(&good_path, "Phif64", "").is_none());
        assert!(CEncoder::from_text(&good_path, "").is_none());
        // a path that is not UTF-8 names no file here
        {
            let mut raw = good_path.clone().into_bytes();
            raw.push(0xff);
            let (a, i, p) = (cbytes(&raw), cstr("Phif64"), cstr(""));
            assert!(
                unsafe { ldpc_toolbox_decoder_ctor(a.as_ptr(), i.as_ptr(), p.as_ptr()) }.is_null()
            );
            assert!(unsafe { ldpc_toolbox_encoder_ctor(a.as_ptr(), p.as_ptr()) }.is_null());
        }

        // readable files with the wrong contents
        for alist in bad_alists(good) {
            let path = scratch.file(alist.as_bytes());
            assert!(CDecoder::from_file(&path, "Phif64", "").is_none());
            assert!(CEncoder::from_file(&path, "").is_none());
        }
        // bytes that are not UTF-8 in the part that matters
        for at in [0, 1, 3, good.len() / 2, good.len() - 1] {
            for byte in [0xffu8, 0x80, 0xc3] {
                let mut damaged = good.clone().into_bytes();
                damaged[at] = byte;
                if std::str::from_utf8(&damaged).is_ok() {
                    continue;
                }
                let path = scratch.file(&damaged);
                assert!(CDecoder::from_file(&path, "Phif64", "").is_none());
                assert!(CEncoder::from_file(&path, "").is_none());
            }
        }
        // good file, other arguments wrong
        for pattern in BAD_PATTERNS {
            assert!(CDecoder::from_file(&good_path, "Phif64", pattern).is_none());
            assert!(CEncoder::from_file(&good_path, pattern).is_none());
        }
        assert!(CDecoder::from_file(&good_path, "Phif65", "").is_none());
        // singular matrix in a file
        let h = make_code(&mut rng, 12, 6, Parity::Singular);
        let path = scratch.file(h.alist().as_bytes());
        assert!(CEncoder::from_file(&path, "").is_none());
        assert!(CDecoder::from_file(&path, "Phif64", "").is_some());

        // the file is read when the handle is made, not later
        let h = make_code(&mut rng, 12, 6, Parity::Triangular);
        let path = scratch.file(h.alist().as_bytes());
        let encoder = CEncoder::from_file(&path, "").unwrap();
        let mut decoder = CDecoder::from_file(&path, "Phif64", "").unwrap();
        std::fs::remove_file(&path).unwrap();
        let word = encoder.encode(12, &[1, 0, 1, 1, 0, 1]);
        assert!(in_kernel(&h, &word));
        let llrs = word
            .iter()
            .map(|&b| if b == 0 { 3.0 } else { -3.0 })
            .collect::<Vec<f64>>();
        assert_eq!(decoder.decode_f64(12, &llrs, 5), (0, word));
        assert!(CEncoder::from_file(&path, "").is_none());
        assert!(CDecoder::from_file(&path, "Phif64", "").is_none());
    });
}

#[test]
fn file_constructors_see_every_byte() {
    with_watchdog(300, || {
        let mut rng = Rng(0xc19_0008);
        let scratch = Scratch::new();
        // a code whose alist takes several read buffers
        let (n, m) = (900usize, 300usize);
        let h = make_code(&mut rng, n, m, Parity::Staircase);
        let plain = h.alist();
        assert!(plain.len() > 3 * 4096);
        // the separators inside the lines are replaced by white space of 1, 2
        // and 3 bytes, so that characters of every length are cut by every
        // buffer boundary in the part of the file that defines the matrix
        let spaces = [" ", "\u{a0}", "\u{2003}", "\t", "\u{3000} ", "\u{2009}\u{a0}"];
        for phase in 0..12 {
            let mut text = " ".repeat(phase);
            for (j, c) in plain.chars().enumerate() {
                if c == ' ' {
                    text.push_str(spaces[(j + phase) % spaces.len()]);
                } else {
                    text.push(c);
                }
            }
            let same = SparseMatrix::from_alist(&text).unwrap();
            assert_eq!(same.alist(), plain);
            let path = scratch.file(text.as_bytes());
            let pattern = PATTERNS[phase % PATTERNS.len()];
            let implementation = IMPLEMENTATIONS[(5 * phase) % IMPLEMENTATIONS.len()];

            let from_file = CEncoder::from_file(&path, "").unwrap();
            let from_text = CEncoder::from_text(&text, "").unwrap();
            let message = (0..n - m).map(|_| rng.below(2) as u8).collect::<Vec<u8>>();
            let word = from_file.encode(n, &message);
            assert_eq!(word, from_text.encode(n, &message));
            assert_eq!(&word[..n - m], &message[..]);
            assert!(in_kernel(&h, &word));

            let mut handle = CDecoder::from_file(&path, implementation, pattern).unwrap();
            let mut reference = Reference::new(&plain, implementation, pattern);
            exercise_decoder(&mut rng, &mut handle, &mut reference, pattern, &word, n - m);

            // one entry of the matrix changed near a buffer boundary changes
            // the code that the handles implement
            let mut other = text.clone().into_bytes();
            let at = (4096 * (1 + phase % 2)..other.len())
                .find(|&j| other[j] == b'7')
                .unwrap();
            other[at] = b'8';
            let other = String::from_utf8(other).unwrap();
            if let Ok(g) = SparseMatrix::from_alist(&other) {
                let path = scratch.file(other.as_bytes());
                if let Some(encoder) = CEncoder::from_file(&path, "") {
                    let changed = CEncoder::from_text(&other, "").unwrap();
                    for _ in 0..4 {
                        let message = (0..n - m).map(|_| rng.below(2) as u8).collect::<Vec<u8>>();
                        let word = encoder.encode(n, &message);
                        assert_eq!(word, changed.encode(n, &message));
                        assert!(in_kernel(&g, &word));
                    }
                } else {
                    assert!(Encoder::from_h(&g).is_err());
                }
                let mut handle = CDecoder::from_file(&path, implementation, pattern).unwrap();
                let mut reference = Reference::new(&other, implementation, pattern);
                let zero = vec![0u8; n];
                exercise_decoder(&mut rng, &mut handle, &mut reference, pattern, &zero, n - m);
            } else {
                let path = scratch.file(other.as_bytes());
                assert!(CDecoder::from_file(&path, implementation, pattern).is_none());
                assert!(CEncoder::from_file(&path, "").is_none());
            }
        }
    });
}

#[test]
fn decoder_degenerate_sizes() {
    with_watchdog(120, || {
        // a code without symbols: there is nothing to receive and nothing to
        // write, whatever the puncturing pattern is
        for alist in ["0 0\n0 0\n\n\n", "0 0", "0 0\n"] {
            assert!(SparseMatrix::from_alist(alist).is_ok());
            for pattern in ["", "1", "1,0", "0,1,1"] {
                for implementation in ["Phif64", "Aminstari8", "HLTanhf32"] {
                    let mut handle = CDecoder::from_text(alist, implementation, pattern).unwrap();
                    let mut reference = Reference::new(alist, implementation, pattern);
                    for max_iterations in [0, 1, 10] {
                        let expected = reference.decode(&[], max_iterations);
                        assert_eq!(expected, (0, vec![]));
                        assert_eq!(handle.decode_f64(0, &[], max_iterations), expected);
                        assert_eq!(handle.decode_f32(0, &[], max_iterations), expected);
                    }
                }
            }
        }
        // a code with symbols but without checks: every word is a codeword
        let alist = "6 0\n0 0\n0 0 0 0 0 0\n\n\n\n\n\n\n\n";
        let h = SparseMatrix::from_alist(alist).unwrap();
        assert_eq!((h.num_rows(), h.num_cols()), (0, 6));
        for pattern in ["", "1,0", "0,1,1", "1,0,1,1,0,1"] {
            let keep = if pattern.is_empty() {
                vec![true]
            } else {
                parse_puncturing_pattern(pattern).unwrap()
            };
            for implementation in ["Phif32", "Minstarapproxi8Jones", "HLAminstarf64"] {
                let mut handle = CDecoder::from_text(alist, implementation, pattern).unwrap();
                let mut reference = Reference::new(alist, implementation, pattern);
                let full = [1.5, -2.5, 0.0, -0.0, 1e-9, -7.0];
                let received = puncture(&keep, &full);
                let (code, word) = reference.decode(&received, 3);
                assert_eq!(code, 0);
                for out_len in 0..=6 {
                    let (ret, out) = handle.decode_f64(out_len, &received, 3);
                    assert_eq!((ret, &out[..]), (code, &word[..out_len]));
                    let narrow = received.iter().map(|&x| x as f32).collect::<Vec<f32>>();
                    let widened = narrow.iter().map(|&x| f64::from(x)).collect::<Vec<f64>>();
                    let (code32, word32) = reference.decode(&widened, 3);
                    let (ret, out) = handle.decode_f32(out_len, &narrow, 3);
                    assert_eq!((ret, &out[..]), (code32, &word32[..out_len]));
                }
            }
        }
    });
}

#[test]
fn encoder_staircase_with_trailing_symbols() {
    with_watchdog(120, || {
        // The Rust encoder for staircase codes accepts a message that is longer
        // than k: the extra symbols take no part in the parity and the word is
        // the whole message followed by the parity. The C encoder gives the
        // same word (and punctures it as a word of that length).
        let mut rng = Rng(0xc19_0009);
        for &(n, m) in &[(6usize, 3usize), (24, 8), (36, 12)] {
            let h = make_code(&mut rng, n, m, Parity::Staircase);
            let k = n - m;
            let alist = h.alist();
            let plain = CEncoder::from_text(&alist, "").unwrap();
            for extra in [1usize, 2, 6, 12] {
                let message = (0..k + extra)
                    .map(|_| [0u8, 1, 1, 0, 7][rng.below(5)])
                    .collect::<Vec<u8>>();
                let bits = message.iter().map(|&b| u8::from(b == 1)).collect::<Vec<u8>>();
                let regular = plain.encode(n, &message[..k]);
                assert!(in_kernel(&h, &regular));
                let mut expected = bits.clone();
                expected.extend_from_slice(&regular[k..]);
                assert_eq!(plain.encode(n + extra, &message), expected);
                for pattern in ["1", "1,0", "0,1", "0,1,1", "1,0,1", "0,0,1,0,1,1", "0,0"] {
                    let keep = parse_puncturing_pattern(pattern).unwrap();
                    if (n + extra) % keep.len() != 0 {
                        continue;
                    }
                    let encoder = CEncoder::from_text(&alist, pattern).unwrap();
                    let sent = puncture(&keep, &expected);
                    assert_eq!(encoder.encode(sent.len(), &message), sent);
                    // and the usual length still works on the same handle
                    if n % keep.len() == 0 {
                        let sent = puncture(&keep, &regular);
                        assert_eq!(encoder.encode(sent.len(), &message[..k]), sent);
                    }
                }
            }
        }
    });
}
