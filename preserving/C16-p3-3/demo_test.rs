// Demonstration for the Progressive Edge Growth construction
// (`ldpc_toolbox::peg::Config::run`).
//
// What is checked, over a large set of configurations and seeds:
//  - a run fails only when there are no rows to choose from; a successful run
//    gives a matrix of the requested size in which every column has weight
//    min(wc, rows);
//  - each edge was placed on a check node that at insertion time was
//    unreachable from the column (or, if all were reachable, at maximal
//    distance) and of least degree among those. This is checked by replaying
//    the edges in the order in which they were inserted (which is the order in
//    which the matrix stores the entries of each column);
//  - the same configuration and seed always give the same matrix, and
//    different seeds give different matrices;
//  - the outcomes are, entry by entry and in the same internal order, the
//    ones that this construction has always produced for these configurations
//    and seeds (a fingerprint of all the outcomes is compared with a recorded
//    value).
//
// Only the public API of the crate and std are used. Every test body runs in
// a helper thread that is awaited with a timeout, so the test fails instead of
// hanging if something never returns.

use ldpc_toolbox::peg::{Config, Error};
use ldpc_toolbox::sparse::{Node, SparseMatrix};
use std::sync::mpsc;
use std::time::Duration;

fn with_timeout<F: FnOnce() + Send + 'static>(secs: u64, f: F) {
    let (tx, rx) = mpsc::channel();
    let handle = std::thread::spawn(move || {
        f();
        let _ = tx.send(());
    });
    match rx.recv_timeout(Duration::from_secs(secs)) {
        Ok(()) => handle.join().unwrap(),
        Err(mpsc::RecvTimeoutError::Disconnected) => {
            // the body panicked: propagate the panic
            if let Err(e) = handle.join() {
                std::panic::resume_unwind(e);
            }
            panic!("test body ended without reporting");
        }
        Err(mpsc::RecvTimeoutError::Timeout) => panic!("timed out after {secs} s"),
    }
}

// FNV-1a, 64 bits
struct Fingerprint(u64);

impl Fingerprint {
    fn new() -> Fingerprint {
        Fingerprint(0xcbf2_9ce4_8422_2325)
    }

    fn byte(&mut self, b: u8) {
        self.0 ^= u64::from(b);
        self.0 = self.0.wrapping_mul(0x0000_0100_0000_01b3);
    }

    fn number(&mut self, n: usize) {
        for b in (n as u64).to_le_bytes() {
            self.byte(b);
        }
    }

    // Absorbs the outcome of a run. For a matrix, the entries of each column
    // and of each row are absorbed in the order in which the matrix stores
    // them (which is the order in which they were inserted), so this is
    // sensitive to more than the alist.
    fn outcome(&mut self, outcome: &Result<SparseMatrix, Error>) {
        match outcome {
            Ok(h) => {
                self.byte(b'M');
                self.number(h.num_rows());
                self.number(h.num_cols());
                for c in 0..h.num_cols() {
                    self.number(h.col_weight(c));
                    for &r in h.iter_col(c) {
                        self.number(r);
                    }
                }
                for r in 0..h.num_rows() {
                    self.number(h.row_weight(r));
                    for &c in h.iter_row(r) {
                        self.number(c);
                    }
                }
            }
            Err(Error::NoAvailRows) => self.byte(b'E'),
        }
    }
}

// Small deterministic generator for the pseudorandom configurations
// (splitmix64).
struct Gen(u64);

impl Gen {
    fn next(&mut self) -> u64 {
        self.0 = self.0.wrapping_add(0x9e37_79b9_7f4a_7c15);
        let mut z = self.0;
        z = (z ^ (z >> 30)).wrapping_mul(0xbf58_476d_1ce4_e5b9);
        z = (z ^ (z >> 27)).wrapping_mul(0x94d0_49bb_1331_11eb);
        z ^ (z >> 31)
    }

    fn between(&mut self, lo: usize, hi: usize) -> usize {
        lo + (self.next() % ((hi - lo + 1) as u64)) as usize
    }
}

// Distances from column `col` to each of the rows of `g`, computed here with
// a plain relaxation until nothing changes (independent of the crate's BFS).
fn row_distances(g: &SparseMatrix, col: usize) -> Vec<Option<usize>> {
    let mut row_dist: Vec<Option<usize>> = vec![None; g.num_rows()];
    let mut col_dist: Vec<Option<usize>> = vec![None; g.num_cols()];
    col_dist[col] = Some(0);
    let mut level = 0;
    loop {
        let mut changed = false;
        for c in 0..g.num_cols() {
            if col_dist[c] == Some(level) {
                for &r in g.iter_col(c) {
                    if row_dist[r].is_none() {
                        row_dist[r] = Some(level + 1);
                        changed = true;
                    }
                }
            }
        }
        for r in 0..g.num_rows() {
            if row_dist[r] == Some(level + 1) {
                for &c in g.iter_row(r) {
                    if col_dist[c].is_none() {
                        col_dist[c] = Some(level + 2);
                        changed = true;
                    }
                }
            }
        }
        if !changed {
            return row_dist;
        }
        level += 2;
    }
}

// Replays the edges of `h` in insertion order and checks that each of them
// obeys the selection rule of the PEG algorithm.
fn check_edge_rule(h: &SparseMatrix, use_crate_bfs: bool) {
    let mut g = SparseMatrix::new(h.num_rows(), h.num_cols());
    for c in 0..h.num_cols() {
        for &r in h.iter_col(c) {
            let dist = if use_crate_bfs {
                g.bfs(Node::Col(c)).row_nodes_distance
            } else {
                row_distances(&g, c)
            };
            assert!(!g.contains(r, c));
            let rivals: Vec<usize> = if dist.iter().any(|d| d.is_none()) {
                assert_eq!(dist[r], None, "edge ({r}, {c}) on a reachable check");
                (0..g.num_rows()).filter(|&j| dist[j].is_none()).collect()
            } else {
                let furthest = dist.iter().max().unwrap();
                assert_eq!(dist[r], *furthest, "edge ({r}, {c}) not at maximal distance");
                (0..g.num_rows()).filter(|&j| dist[j] == *furthest).collect()
            };
            let least = rivals.iter().map(|&j| g.row_weight(j)).min().unwrap();
            assert_eq!(g.row_weight(r), least, "edge ({r}, {c}) not of least degree");
            g.insert(r, c);
        }
    }
    // the same entries inserted in the same order give an equal matrix
    assert_eq!(&g, h);
}

fn check_matrix(conf: &Config, h: &SparseMatrix) {
    assert_eq!(h.num_rows(), conf.nrows, "{conf:?}");
    assert_eq!(h.num_cols(), conf.ncols, "{conf:?}");
    for c in 0..h.num_cols() {
        assert_eq!(h.col_weight(c), conf.wc.min(conf.nrows), "{conf:?}");
        let mut rows: Vec<usize> = h.iter_col(c).copied().collect();
        rows.sort_unstable();
        rows.dedup();
        assert_eq!(rows.len(), h.col_weight(c), "repeated entries in {conf:?}");
        for r in rows {
            assert!(r < conf.nrows);
            assert_eq!(h.iter_row(r).filter(|&&x| x == c).count(), 1);
        }
    }
    let total: usize = (0..h.num_rows()).map(|r| h.row_weight(r)).sum();
    assert_eq!(total, conf.ncols * conf.wc.min(conf.nrows));
}

struct Tally {
    fingerprint: Fingerprint,
    runs: usize,
    successes: usize,
}

impl Tally {
    fn new() -> Tally {
        Tally {
            fingerprint: Fingerprint::new(),
            runs: 0,
            successes: 0,
        }
    }

    fn run(&mut self, conf: &Config, seed: u64, independent_distances: bool) -> Option<SparseMatrix> {
        let outcome = conf.run(seed);
        assert_eq!(outcome, conf.run(seed), "not reproducible: {conf:?} {seed}");
        // a run fails exactly when an edge is needed and there are no rows
        let must_fail = conf.nrows == 0 && conf.ncols > 0 && conf.wc > 0;
        assert_eq!(outcome.is_err(), must_fail, "{conf:?} {seed}");
        self.runs += 1;
        if let Ok(h) = &outcome {
            self.successes += 1;
            check_matrix(conf, h);
            check_edge_rule(h, true);
            if independent_distances {
                check_edge_rule(h, false);
            }
        }
        self.fingerprint.outcome(&outcome);
        outcome.ok()
    }

    fn summary(&self) -> (usize, usize, u64) {
        (self.runs, self.successes, self.fingerprint.0)
    }
}

#[test]
fn all_tiny_configurations() {
    with_timeout(1500, || {
        let mut tally = Tally::new();
        for nrows in 0..=7 {
            for ncols in 0..=9 {
                // this includes column weights larger than the number of rows
                for wc in 0..=9 {
                    let conf = Config { nrows, ncols, wc };
                    for seed in [0, 1, 2, 0xdead_beef_0000_0007] {
                        tally.run(&conf, seed, true);
                    }
                }
            }
        }
        assert_eq!(tally.summary(), GOLDEN_TINY);
    });
}

#[test]
fn pseudorandom_configurations() {
    with_timeout(1500, || {
        let mut g = Gen(31337);
        let mut tally = Tally::new();
        for k in 0..400 {
            let nrows = g.between(1, if k % 8 == 0 { 70 } else { 25 });
            let ncols = g.between(1, 3 * nrows + 5);
            let wc = match k % 5 {
                0 => g.between(1, nrows + 2),
                _ => g.between(1, 6),
            };
            let conf = Config { nrows, ncols, wc };
            let seed = g.next();
            tally.run(&conf, seed, k % 4 == 0);
            tally.run(&conf, !seed, false);
        }
        assert_eq!(tally.summary(), GOLDEN_RANDOM);
    });
}

#[test]
fn larger_codes() {
    with_timeout(1500, || {
        let mut tally = Tally::new();
        let confs = [
            Config { nrows: 120, ncols: 240, wc: 3 },
            Config { nrows: 200, ncols: 300, wc: 4 },
            Config { nrows: 50, ncols: 400, wc: 3 },
            Config { nrows: 300, ncols: 310, wc: 2 },
            Config { nrows: 48, ncols: 64, wc: 9 },
            Config { nrows: 30, ncols: 20, wc: 30 },
            Config { nrows: 1, ncols: 50, wc: 3 },
            Config { nrows: 90, ncols: 1, wc: 45 },
        ];
        for conf in &confs {
            let mut alists = Vec::new();
            for seed in 10..13 {
                let h = tally.run(conf, seed, false).unwrap();
                // PEG should do well in terms of girth when there is room
                if conf.nrows == 120 {
                    assert!(h.girth().unwrap() >= 6);
                }
                alists.push(h.alist());
            }
            alists.sort();
            alists.dedup();
            if conf.nrows > 1 && conf.wc < conf.nrows {
                assert_eq!(alists.len(), 3, "two seeds gave the same matrix");
            } else {
                // all the rows are used in every column
                assert_eq!(alists.len(), 1);
            }
        }
        assert_eq!(tally.summary(), GOLDEN_LARGER);
    });
}

#[test]
fn seeds_explore_different_choices() {
    with_timeout(600, || {
        let conf = Config { nrows: 10, ncols: 20, wc: 3 };
        let mut distinct = Vec::new();
        for seed in 0..100 {
            let h = conf.run(seed).unwrap();
            assert_eq!(Ok(&h), conf.run(seed).as_ref());
            let alist = h.alist();
            if !distinct.contains(&alist) {
                distinct.push(alist);
            }
        }
        assert_eq!(distinct.len(), 100);
    });
}

#[test]
fn degenerate_sizes() {
    with_timeout(600, || {
        for seed in 0..5 {
            // no rows
            assert_eq!(Config { nrows: 0, ncols: 3, wc: 2 }.run(seed), Err(Error::NoAvailRows));
            assert_eq!(Config { nrows: 0, ncols: 1, wc: 1 }.run(seed), Err(Error::NoAvailRows));
            // nothing to insert
            for (nrows, ncols, wc) in [(0, 0, 0), (0, 0, 5), (0, 7, 0), (4, 0, 2), (4, 6, 0)] {
                let h = Config { nrows, ncols, wc }.run(seed).unwrap();
                assert_eq!(h, SparseMatrix::new(nrows, ncols));
            }
            // a single row takes all the edges
            let h = Config { nrows: 1, ncols: 4, wc: 1 }.run(seed).unwrap();
            let mut expected = SparseMatrix::new(1, 4);
            expected.insert_row(0, 0..4);
            assert_eq!(h, expected);
            // more edges than rows: all ones
            let h = Config { nrows: 3, ncols: 2, wc: 1000 }.run(seed).unwrap();
            for c in 0..2 {
                for r in 0..3 {
                    assert!(h.contains(r, c));
                }
            }
        }
    });
}

// (runs, successes, fingerprint of all the outcomes), as recorded from the
// construction before any change.
const GOLDEN_TINY: (usize, usize, u64) = (3200, 2876, 9148647944854331036);
const GOLDEN_RANDOM: (usize, usize, u64) = (800, 800, 6582860127879540484);
const GOLDEN_LARGER: (usize, usize, u64) = (24, 24, 8616159089317446219);
