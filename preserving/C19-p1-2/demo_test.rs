// Demo for change 2: the C encoder wrapper writes the transmitted runs of the
// codeword directly into the output buffer.
//
// The test compares the C interface against the Rust encoder followed by the
// Rust puncturer, for a dense-generator code and a staircase code, many
// puncturing patterns (no runs, one run, several runs, everything punctured),
// all or many messages, input bytes other than 0 and 1, and interleaved call
// sequences on a single handle.

use ldpc_toolbox::{
    encoder::Encoder, gf2::GF2, simulation::puncturing::Puncturer, sparse::SparseMatrix,
};
use ndarray::Array1;
use num_traits::{One, Zero};
use std::ffi::{CString, c_char, c_void};

unsafe extern "C" {
    fn ldpc_toolbox_encoder_ctor_alist_string(
        alist: *const c_char,
        puncturing: *const c_char,
    ) -> *mut c_void;
    fn ldpc_toolbox_encoder_dtor(encoder: *mut c_void);
    fn ldpc_toolbox_encoder_encode(
        encoder: *mut c_void,
        output: *mut u8,
        output_len: usize,
        input: *const u8,
        input_len: usize,
    );
}

const ALIST_12_4: &str = "12 4
3 9
3 3 3 3 3 3 3 3 3 3 3 3
9 9 9 9
1 2 3
1 3 4
2 3 4
2 3 4
1 2 4
1 2 3
1 3 4
1 2 4
1 2 3
2 3 4
1 2 4
1 3 4
1 2 5 6 7 8 9 11 12
1 3 4 5 6 8 9 10 11
1 2 3 4 6 7 9 10 12
2 3 4 5 7 8 10 11 12
";

struct Rng(u64);

impl Rng {
    fn next(&mut self) -> u64 {
        // xorshift64*
        self.0 ^= self.0 >> 12;
        self.0 ^= self.0 << 25;
        self.0 ^= self.0 >> 27;
        self.0.wrapping_mul(0x2545F4914F6CDD1D)
    }

    fn below(&mut self, n: usize) -> usize {
        (self.next() >> 33) as usize % n
    }
}

// Repeat-accumulate (staircase) code with 24 columns and 12 rows
fn staircase_alist() -> String {
    let (n, k) = (24, 12);
    let m = n - k;
    let mut h = SparseMatrix::new(m, n);
    let mut rng = Rng(0x1234_5678_9abc_def1);
    for col in 0..k {
        let mut inserted = 0;
        while inserted < 3 {
            let row = rng.below(m);
            if !h.contains(row, col) {
                h.insert(row, col);
                inserted += 1;
            }
        }
    }
    for j in 0..m {
        h.insert(j, k + j);
        if j > 0 {
            h.insert(j, k + j - 1);
        }
    }
    h.alist()
}

fn parse_pattern(s: &str) -> Option<Vec<bool>> {
    if s.is_empty() {
        None
    } else {
        Some(s.split(',').map(|a| a == "1").collect())
    }
}

fn ctor(alist: &str, puncturing: &str) -> *mut c_void {
    let alist = CString::new(alist).unwrap();
    let puncturing = CString::new(puncturing).unwrap();
    unsafe { ldpc_toolbox_encoder_ctor_alist_string(alist.as_ptr(), puncturing.as_ptr()) }
}

struct CEncoder(*mut c_void);

impl CEncoder {
    fn new(alist: &str, puncturing: &str) -> CEncoder {
        let p = ctor(alist, puncturing);
        assert!(!p.is_null());
        CEncoder(p)
    }

    fn encode(&self, output_len: usize, input: &[u8]) -> Vec<u8> {
        // canary values to check that the whole output is written
        let mut output = vec![0xa5u8; output_len];
        unsafe {
            ldpc_toolbox_encoder_encode(
                self.0,
                output.as_mut_ptr(),
                output.len(),
                input.as_ptr(),
                input.len(),
            )
        };
        output
    }
}

impl Drop for CEncoder {
    fn drop(&mut self) {
        unsafe { ldpc_toolbox_encoder_dtor(self.0) };
    }
}

// Reference: Rust encoder followed by Rust puncturer. Only input bytes equal
// to 1 count as ones.
fn reference(encoder: &Encoder, pattern: &Option<Vec<bool>>, input: &[u8]) -> Vec<u8> {
    let message = Array1::from_iter(
        input
            .iter()
            .map(|&b| if b == 1 { GF2::one() } else { GF2::zero() }),
    );
    let codeword = encoder.encode(&message);
    let codeword = match pattern {
        Some(p) => Puncturer::new(p).puncture(&codeword).unwrap(),
        None => codeword,
    };
    codeword
        .iter()
        .map(|x| if x.is_one() { 1 } else { 0 })
        .collect()
}

fn messages(k: usize, rng: &mut Rng) -> Vec<Vec<u8>> {
    let mut messages = Vec::new();
    if k <= 8 {
        // all the messages
        for m in 0..1usize << k {
            messages.push((0..k).map(|j| ((m >> j) & 1) as u8).collect());
        }
    } else {
        messages.push(vec![0; k]);
        messages.push(vec![1; k]);
        for j in 0..k {
            // unit vectors
            messages.push((0..k).map(|i| u8::from(i == j)).collect());
        }
        for _ in 0..150 {
            messages.push((0..k).map(|_| rng.below(2) as u8).collect());
        }
    }
    // bytes other than 0 and 1
    for _ in 0..40 {
        messages.push(
            (0..k)
                .map(|_| [0u8, 1, 2, 3, 0x80, 0xff, 1, 0][rng.below(8)])
                .collect(),
        );
    }
    messages.push(vec![2; k]);
    messages.push(vec![0xff; k]);
    messages
}

fn run_code(alist: &str, patterns: &[&str], seed: u64) {
    let h = SparseMatrix::from_alist(alist).unwrap();
    let n = h.num_cols();
    let k = n - h.num_rows();
    let encoder = Encoder::from_h(&h).unwrap();
    let mut rng = Rng(seed);
    let messages = messages(k, &mut rng);
    for &puncturing in patterns {
        let pattern = parse_pattern(puncturing);
        let output_len = match &pattern {
            Some(p) => n / p.len() * p.iter().filter(|&&b| b).count(),
            None => n,
        };
        // single handle for the whole sequence of calls
        let c_encoder = CEncoder::new(alist, puncturing);
        let mut outputs = Vec::new();
        for message in &messages {
            let expected = reference(&encoder, &pattern, message);
            assert_eq!(expected.len(), output_len);
            let got = c_encoder.encode(output_len, message);
            assert_eq!(got, expected, "puncturing={puncturing:?} message={message:?}");
            assert!(got.iter().all(|&b| b <= 1));
            outputs.push(got);
        }
        // second pass in reverse order: results do not depend on the history
        for (message, expected) in messages.iter().zip(outputs.iter()).rev() {
            assert_eq!(&c_encoder.encode(output_len, message), expected);
        }
        // two handles for the same code are independent of each other
        let other = CEncoder::new(alist, puncturing);
        assert_eq!(other.encode(output_len, &messages[3]), outputs[3]);
        assert_eq!(c_encoder.encode(output_len, &messages[5]), outputs[5]);
    }
}

#[test]
fn c_encoder_matches_rust_encoder_dense_code() {
    run_code(
        ALIST_12_4,
        &[
            "",
            "1",
            "0",
            "1,1",
            "1,0",
            "0,1",
            "0,0",
            "1,1,0",
            "1,0,1",
            "0,1,1",
            "0,0,1",
            "1,1,1,0",
            "0,1,1,0",
            "1,0,0,1",
            "1,1,0,1,1,0",
            "1,0,1,0,1,0",
            "0,1,0,1,0,1",
            "0,1,0,1,1,1,1,1,0,1,1,1",
            "1,1,1,1,1,1,1,1,1,1,1,1",
            "0,0,0,0,0,0,0,0,0,0,0,1",
            "1,0,0,0,0,0,0,0,0,0,0,0",
        ],
        0xfeed_0000_0000_0001,
    );
}

#[test]
fn c_encoder_matches_rust_encoder_staircase_code() {
    run_code(
        &staircase_alist(),
        &[
            "",
            "1",
            "1,1,1,0",
            "1,0,1",
            "0,1,1",
            "1,1,0,1,1,1,0,1",
            "1,0,1,1,1,1,1,1,1,1,1,0",
            "1,0,1,0,1,0,1,0,1,0,1,0,1,0,1,0,1,0,1,0,1,0,1,0",
            "0,1,1,0,0,1,1,1,0,0,0,1,1,1,1,0,0,0,0,1,1,1,1,1",
        ],
        0xfeed_0000_0000_0002,
    );
}

#[test]
fn unpunctured_output_is_systematic_codeword() {
    // The first k output bits are the message and the whole output satisfies
    // all the parity checks.
    for alist in [ALIST_12_4.to_string(), staircase_alist()] {
        let h = SparseMatrix::from_alist(&alist).unwrap();
        let n = h.num_cols();
        let k = n - h.num_rows();
        let c_encoder = CEncoder::new(&alist, "");
        let c_encoder_ones = CEncoder::new(&alist, "1");
        let mut rng = Rng(5);
        for _ in 0..100 {
            let message = (0..k).map(|_| rng.below(2) as u8).collect::<Vec<u8>>();
            let codeword = c_encoder.encode(n, &message);
            assert_eq!(&codeword[..k], &message[..]);
            for row in 0..h.num_rows() {
                let parity = h.iter_row(row).map(|&col| codeword[col]).sum::<u8>() % 2;
                assert_eq!(parity, 0);
            }
            assert_eq!(c_encoder_ones.encode(n, &message), codeword);
        }
    }
}

#[test]
fn constructor_null_cases() {
    let null_or_free = |p: *mut c_void| {
        let is_null = p.is_null();
        if !is_null {
            unsafe { ldpc_toolbox_encoder_dtor(p) };
        }
        is_null
    };
    // valid
    assert!(!null_or_free(ctor(ALIST_12_4, "")));
    assert!(!null_or_free(ctor(ALIST_12_4, "1,0,1")));
    // a pattern whose length does not divide the codeword size is only
    // detected when encoding
    assert!(!null_or_free(ctor(ALIST_12_4, "1,0,1,1,1")));
    // malformed puncturing patterns
    for puncturing in [",", "1,", ",1", "1,,0", "2", "1,2", "1 ,0", " ", "10", "1;0", "true"] {
        assert!(null_or_free(ctor(ALIST_12_4, puncturing)), "{puncturing:?}");
    }
    // malformed alists
    for alist in ["", "12", "12 x", "3 2\n1 1\n1 1 1\n1 1\n1\n7\n1\n"] {
        assert!(null_or_free(ctor(alist, "")), "{alist:?}");
        assert!(null_or_free(ctor(alist, "1")), "{alist:?}");
    }
    // last columns singular: H = [1 1 1; 1 1 1]
    let mut h = SparseMatrix::new(2, 3);
    for row in 0..2 {
        for col in 0..3 {
            h.insert(row, col);
        }
    }
    assert!(null_or_free(ctor(&h.alist(), "")));
    assert!(null_or_free(ctor(&h.alist(), "1")));
    // last columns singular and bad pattern
    assert!(null_or_free(ctor(&h.alist(), "x")));
}
