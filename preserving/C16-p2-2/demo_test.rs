// Demonstration for rewrite 2 (internals of the PEG construction).
//
// Through the public API only:
//  * every column of a successful run has weight min(wc, nrows) and the matrix
//    has the requested size;
//  * replaying the edges in insertion order (`iter_col` yields the rows of a
//    column in the order in which they were inserted), every edge was placed on
//    a check node that, at insertion time, was unreachable from the column or
//    (if all the check nodes were reachable) at maximal distance, and of least
//    degree among those;
//  * the same configuration and seed give the same matrix (`==` on
//    `SparseMatrix`, which is sensitive to the internal order of the entries),
//    different seeds give different matrices;
//  * a table of fingerprints of the matrices (internal entry order included)
//    obtained with the implementation before the rewrite pins the exact result
//    per (configuration, seed);
//  * corner cases: zero rows, zero columns, zero weight, wc >= nrows, one row.

use ldpc_toolbox::peg::{Config, Error};
use ldpc_toolbox::sparse::{Node, SparseMatrix};
use std::sync::mpsc;
use std::time::Duration;

const TIMEOUT: Duration = Duration::from_secs(600);

fn with_timeout<F: FnOnce() + Send + 'static>(f: F) {
    let (tx, rx) = mpsc::channel();
    let handle = std::thread::spawn(move || {
        f();
        let _ = tx.send(());
    });
    match rx.recv_timeout(TIMEOUT) {
        Ok(()) => handle.join().unwrap(),
        Err(mpsc::RecvTimeoutError::Disconnected) => {
            if let Err(e) = handle.join() {
                std::panic::resume_unwind(e);
            }
            panic!("worker ended without reporting");
        }
        Err(mpsc::RecvTimeoutError::Timeout) => panic!("timed out"),
    }
}

fn fnv(acc: &mut u64, x: u64) {
    for b in x.to_le_bytes() {
        *acc ^= b as u64;
        *acc = acc.wrapping_mul(0x100000001b3);
    }
}

// Fingerprint of a matrix, including the internal order of the entries.
fn fingerprint(h: &SparseMatrix) -> u64 {
    let mut acc = 0xcbf29ce484222325u64;
    fnv(&mut acc, h.num_rows() as u64);
    fnv(&mut acc, h.num_cols() as u64);
    for c in 0..h.num_cols() {
        fnv(&mut acc, u64::MAX);
        for &r in h.iter_col(c) {
            fnv(&mut acc, r as u64);
        }
    }
    for r in 0..h.num_rows() {
        fnv(&mut acc, u64::MAX - 1);
        for &c in h.iter_row(r) {
            fnv(&mut acc, c as u64);
        }
    }
    acc
}

// Replays the construction edge by edge and checks every placement.
fn check_peg(conf: &Config, h: &SparseMatrix) {
    assert_eq!(h.num_rows(), conf.nrows);
    assert_eq!(h.num_cols(), conf.ncols);
    let expected_weight = std::cmp::min(conf.wc, conf.nrows);
    let mut g = SparseMatrix::new(conf.nrows, conf.ncols);
    for c in 0..conf.ncols {
        assert_eq!(h.col_weight(c), expected_weight, "{conf:?} column {c}");
        for &r in h.iter_col(c) {
            assert!(!g.contains(r, c), "repeated entry");
            let dist = g.bfs(Node::Col(c)).row_nodes_distance;
            assert_eq!(dist.len(), conf.nrows);
            let any_unreachable = dist.iter().any(|d| d.is_none());
            let admissible: Vec<usize> = if any_unreachable {
                (0..conf.nrows).filter(|&j| dist[j].is_none()).collect()
            } else {
                let far = dist.iter().map(|d| d.unwrap()).max().unwrap();
                (0..conf.nrows).filter(|&j| dist[j] == Some(far)).collect()
            };
            assert!(
                admissible.contains(&r),
                "{conf:?}: edge ({r}, {c}) not unreachable / not at maximal distance"
            );
            let least = admissible.iter().map(|&j| g.row_weight(j)).min().unwrap();
            assert_eq!(
                g.row_weight(r),
                least,
                "{conf:?}: edge ({r}, {c}) not on a check of least degree"
            );
            g.insert(r, c);
        }
    }
    assert!(g == *h, "replay does not rebuild the same matrix");
    // the row lists must be consistent with the column lists
    let mut n = 0;
    for r in 0..conf.nrows {
        for &c in h.iter_row(r) {
            assert!(h.contains(r, c));
            n += 1;
        }
    }
    assert_eq!(n, conf.ncols * expected_weight);
}

fn conf(nrows: usize, ncols: usize, wc: usize) -> Config {
    Config { nrows, ncols, wc }
}

#[test]
fn exhaustive_small_configurations() {
    with_timeout(|| {
        for nrows in 0..10usize {
            for ncols in 0..12usize {
                for wc in 0..6usize {
                    let cf = conf(nrows, ncols, wc);
                    for seed in 0..5u64 {
                        let a = cf.run(seed);
                        let b = cf.run(seed);
                        if nrows == 0 && ncols > 0 && wc > 0 {
                            assert_eq!(a.unwrap_err(), Error::NoAvailRows);
                            assert_eq!(b.unwrap_err(), Error::NoAvailRows);
                            continue;
                        }
                        let a = a.expect("PEG failed");
                        let b = b.unwrap();
                        assert!(a == b, "not reproducible {cf:?} {seed}");
                        check_peg(&cf, &a);
                    }
                }
            }
        }
    });
}

#[test]
fn medium_configurations() {
    with_timeout(|| {
        let confs = [
            conf(50, 100, 3),
            conf(30, 90, 4),
            conf(40, 44, 5),
            conf(7, 120, 3),
            conf(64, 64, 2),
            conf(3, 40, 9),
            conf(1, 30, 1),
            conf(1, 30, 4),
            conf(25, 1, 25),
            conf(25, 2, 40),
            conf(120, 240, 3),
        ];
        for cf in confs {
            let mut distinct = std::collections::HashSet::new();
            for seed in 1000..1012u64 {
                let h = cf.run(seed).unwrap();
                assert!(h == cf.run(seed).unwrap());
                check_peg(&cf, &h);
                distinct.insert(fingerprint(&h));
            }
            if cf.nrows > 1 && cf.ncols > 1 && cf.wc < cf.nrows {
                assert!(distinct.len() > 1, "seeds do not matter for {cf:?}");
            }
        }
    });
}

#[test]
fn degenerate_sizes() {
    for seed in 0..20u64 {
        // no columns: nothing to do, whatever the rest
        let h = conf(0, 0, 3).run(seed).unwrap();
        assert_eq!((h.num_rows(), h.num_cols()), (0, 0));
        let h = conf(5, 0, 3).run(seed).unwrap();
        assert_eq!((h.num_rows(), h.num_cols()), (5, 0));
        // zero weight
        let h = conf(0, 6, 0).run(seed).unwrap();
        assert_eq!((h.num_rows(), h.num_cols()), (0, 6));
        let h = conf(4, 6, 0).run(seed).unwrap();
        assert_eq!(h.iter_all().count(), 0);
        // no rows but edges requested
        assert_eq!(conf(0, 1, 1).run(seed), Err(Error::NoAvailRows));
        assert_eq!(conf(0, 9, 4).run(seed), Err(Error::NoAvailRows));
        assert_eq!(
            conf(0, 9, 4).run(seed).unwrap_err().to_string(),
            "not enough rows available"
        );
        // wc >= nrows: complete columns
        for wc in 3..8 {
            let h = conf(3, 5, wc).run(seed).unwrap();
            for c in 0..5 {
                let mut rows: Vec<usize> = h.iter_col(c).copied().collect();
                rows.sort_unstable();
                assert_eq!(rows, vec![0, 1, 2]);
            }
        }
    }
}

#[test]
fn girth_is_large_for_sparse_codes() {
    // PEG maximises the local girth greedily: with column weight 2 and as many
    // rows as columns + 1 the graph can and must be cycle free.
    with_timeout(|| {
        for seed in 0..10u64 {
            let h = conf(21, 20, 2).run(seed).unwrap();
            assert_eq!(h.girth(), None);
            let h = conf(60, 120, 3).run(seed).unwrap();
            assert!(h.girth().unwrap() >= 6);
        }
    });
}

// (nrows, ncols, wc, seed, fingerprint) obtained before the rewrite
const GOLDEN: &[(usize, usize, usize, u64, u64)] = &[
(4, 8, 2, 0, 193788585096129065),
    (4, 8, 2, 1, 2153481305360269257),
    (4, 8, 2, 42, 10297195851456075049),
    (4, 8, 2, 187, 5121649286907368361),
    (4, 8, 2, 18446744073709551615, 15109966503542345865),
    (5, 10, 3, 0, 16004122665131080338),
    (5, 10, 3, 1, 9341020406274999810),
    (5, 10, 3, 42, 3661812624623612258),
    (5, 10, 3, 187, 10789012707034121538),
    (5, 10, 3, 18446744073709551615, 5273271359409445666),
    (3, 7, 5, 0, 5323288721322851220),
    (3, 7, 5, 1, 14211609049499686676),
    (3, 7, 5, 42, 6898520486623442452),
    (3, 7, 5, 187, 7976554454974225588),
    (3, 7, 5, 18446744073709551615, 14547802774539696820),
    (1, 6, 2, 0, 7225777371681573546),
    (1, 6, 2, 1, 7225777371681573546),
    (1, 6, 2, 42, 7225777371681573546),
    (1, 6, 2, 187, 7225777371681573546),
    (1, 6, 2, 18446744073709551615, 7225777371681573546),
    (9, 9, 4, 0, 318197655775773844),
    (9, 9, 4, 1, 17309445099834063860),
    (9, 9, 4, 42, 16298074482799638351),
    (9, 9, 4, 187, 11865197227632000694),
    (9, 9, 4, 18446744073709551615, 3213891237425143732),
    (16, 40, 3, 0, 10200856133611993798),
    (16, 40, 3, 1, 15812391169268108614),
    (16, 40, 3, 42, 10540187453145508953),
    (16, 40, 3, 187, 17798288433539794333),
    (16, 40, 3, 18446744073709551615, 7691839219906980586),
    (50, 100, 3, 0, 6011902431545309420),
    (50, 100, 3, 1, 9032163627612924096),
    (50, 100, 3, 42, 10403327218382247481),
    (50, 100, 3, 187, 1970279214851446552),
    (50, 100, 3, 18446744073709551615, 7712038342116200126),
    (33, 77, 4, 0, 3268971737847084529),
    (33, 77, 4, 1, 6829324194708123670),
    (33, 77, 4, 42, 10245489287399010070),
    (33, 77, 4, 187, 14122306172138310775),
    (33, 77, 4, 18446744073709551615, 3607338670143987997),
    (100, 150, 2, 0, 7751016914615237004),
    (100, 150, 2, 1, 9324007739625407493),
    (100, 150, 2, 42, 15307605292591374731),
    (100, 150, 2, 187, 2867555938763517931),
    (100, 150, 2, 18446744073709551615, 13783074396099856255),
    (12, 100, 6, 0, 14895891705105089117),
    (12, 100, 6, 1, 18330489531748834941),
    (12, 100, 6, 42, 1292645350343526829),
    (12, 100, 6, 187, 16598848498339165549),
    (12, 100, 6, 18446744073709551615, 15966607931925923293),
];

#[test]
fn golden_fingerprints() {
    with_timeout(|| {
        assert!(GOLDEN.len() >= 40);
        for &(nrows, ncols, wc, seed, fp) in GOLDEN {
            let h = conf(nrows, ncols, wc).run(seed).unwrap();
            assert_eq!(
                fingerprint(&h),
                fp,
                "matrix for {nrows} {ncols} {wc} seed {seed} changed"
            );
        }
    });
}

#[test]
#[ignore]
fn print_golden() {
    for (nrows, ncols, wc) in [
        (4usize, 8usize, 2usize),
        (5, 10, 3),
        (3, 7, 5),
        (1, 6, 2),
        (9, 9, 4),
        (16, 40, 3),
        (50, 100, 3),
        (33, 77, 4),
        (100, 150, 2),
        (12, 100, 6),
    ] {
        for seed in [0u64, 1, 42, 187, u64::MAX] {
            let h = conf(nrows, ncols, wc).run(seed).unwrap();
            println!("    ({nrows}, {ncols}, {wc}, {seed}, {}),", fingerprint(&h));
        }
    }
}
