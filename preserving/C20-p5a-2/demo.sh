#!/bin/sh
# Demonstration for property C20 (encode subcommand part): for every complete
# input word the output file holds exactly the (punctured) codeword and nothing
# more; invalid patterns/files give a non-zero exit status with a message and no
# panic.
#
# usage: demo.sh <checkout>      (binary at <checkout>/target/debug/ldpc-toolbox)
#
# The expected codewords are not taken from the tool: a systematic codeword is
# uniquely determined by (a) its first k symbols being the message and (b)
# H c = 0 (the last n-k columns of H are invertible), and both are checked here
# with awk directly from the alist. Punctured outputs are compared with the
# block selection of the verified unpunctured output.

set -u
ROOT=${1:?usage: demo.sh <checkout>}
BIN=$ROOT/target/debug/ldpc-toolbox
[ -x "$BIN" ] || { echo "binary not found: $BIN" >&2; exit 2; }

LC_ALL=C
export LC_ALL

T=$(mktemp -d 2>/dev/null || echo "/tmp/c20demo.$$")
mkdir -p "$T" || exit 2
trap 'rm -rf "$T"' EXIT
trap 'rm -rf "$T"; exit 3' INT TERM HUP

FAILS=0
CHECKS=0
fail() { echo "FAIL: $*" >&2; FAILS=$((FAILS + 1)); }
ok() { CHECKS=$((CHECKS + 1)); }

# run with a time limit (seconds) if a `timeout` utility exists
if command -v timeout >/dev/null 2>&1; then
    lim() { _s=$1; shift; timeout "$_s" "$@"; }
else
    lim() { shift; "$@"; }
fi

enc() { lim 300 "$BIN" encode "$@"; }

# ---------------------------------------------------------------- generators

# gen_code <n> <m> <seed> <kind> : writes an alist for an m x n matrix [H0 H1]
#   kind=tri   : H1 lower triangular with unit diagonal and random entries below
#   kind=stair : H1 has ones on the diagonal and the diagonal below (staircase)
#   kind=sing  : like tri but the last row of H1 is zero (not invertible)
# H0 is random with density about 1/3 (at least one entry per column).
gen_code() {
    awk -v n="$1" -v m="$2" -v seed="$3" -v kind="$4" 'BEGIN {
        s = seed + 12345
        k = n - m
        printf "%d %d\n\n\n\n", n, m
        for (c = 0; c < n; c++) {
            line = ""
            cnt = 0
            for (r = 0; r < m; r++) {
                s = (s * 1103515245 + 12345) % 2147483648
                rnd = int(s / 65536) % 3
                bit = 0
                if (c < k) {
                    bit = (rnd == 0)
                } else {
                    d = c - k
                    if (kind == "stair") {
                        bit = (r == d || r == d + 1)
                    } else {
                        if (r == d) bit = 1
                        else if (r > d) bit = (rnd == 0)
                        if (kind == "sing" && r == m - 1) bit = 0
                    }
                }
                if (bit) { line = line (r + 1) " "; cnt++ }
            }
            if (c < k && cnt == 0) line = (c % m + 1) " "
            print line
        }
    }'
}

# gen_input <nbytes> <seed> : pseudo-random bytes, mostly 0/1 with some 2 and 255
gen_input() {
    awk -v len="$1" -v seed="$2" 'BEGIN {
        s = seed + 777
        line = ""
        for (i = 0; i < len; i++) {
            s = (s * 1103515245 + 12345) % 2147483648
            v = int(s / 65536) % 16
            if (v < 7) ch = "0"; else if (v < 14) ch = "1"; else if (v == 14) ch = "2"; else ch = "3"
            line = line ch
            if (length(line) >= 4096) { printf "%s", line; line = "" }
        }
        printf "%s", line
    }' | tr '0123' '\000\001\002\377'
}

dump() { od -An -v -tu1 "$1"; }

# check_plain <alist> <input> <output> : unpunctured output is exactly the
# codewords of the complete input words
check_plain() {
    dump "$2" > "$T/.in.txt"
    dump "$3" > "$T/.out.txt"
    awk -v AL="$1" -v IN="$T/.in.txt" -v OUT="$T/.out.txt" 'BEGIN {
        getline l < AL
        split(l, a, " "); n = a[1] + 0; m = a[2] + 0; k = n - m
        getline l < AL; getline l < AL; getline l < AL
        for (c = 0; c < n; c++) {
            if ((getline l < AL) <= 0) { print "short alist"; exit 1 }
            cnt[c] = split(l, a, " ")
            for (j = 1; j <= cnt[c]; j++) rows[c, j] = a[j] + 0
        }
        ni = 0
        while ((getline l < IN) > 0) { q = split(l, a, " "); for (j = 1; j <= q; j++) inp[ni++] = a[j] + 0 }
        no = 0
        while ((getline l < OUT) > 0) { q = split(l, a, " "); for (j = 1; j <= q; j++) out[no++] = a[j] + 0 }
        if (k <= 0) { print "k <= 0"; exit 1 }
        words = int(ni / k)
        if (no != words * n) { printf "output length %d, expected %d (%d words of %d)\n", no, words * n, words, n; exit 1 }
        for (w = 0; w < words; w++) {
            for (r = 1; r <= m; r++) par[r] = 0
            for (c = 0; c < n; c++) {
                b = out[w * n + c]
                if (b != 0 && b != 1) { printf "word %d symbol %d is %d\n", w, c, b; exit 1 }
                if (c < k) {
                    e = (inp[w * k + c] == 1) ? 1 : 0
                    if (b != e) { printf "word %d: systematic symbol %d is %d, expected %d\n", w, c, b, e; exit 1 }
                }
                if (b) for (j = 1; j <= cnt[c]; j++) if (rows[c, j] > 0) par[rows[c, j]] = 1 - par[rows[c, j]]
            }
            for (r = 1; r <= m; r++) if (par[r]) { printf "word %d: parity check %d fails\n", w, r; exit 1 }
        }
        exit 0
    }'
}

# check_punct <n> <pattern> <plain output> <punctured output>
check_punct() {
    dump "$3" > "$T/.pl.txt"
    dump "$4" > "$T/.pu.txt"
    awk -v n="$1" -v pat="$2" -v PL="$T/.pl.txt" -v PU="$T/.pu.txt" 'BEGIN {
        p = split(pat, pa, ",")
        if (n % p != 0) { print "bad pattern for check"; exit 1 }
        bs = n / p
        np = 0
        while ((getline l < PL) > 0) { q = split(l, a, " "); for (j = 1; j <= q; j++) pl[np++] = a[j] + 0 }
        nu = 0
        while ((getline l < PU) > 0) { q = split(l, a, " "); for (j = 1; j <= q; j++) pu[nu++] = a[j] + 0 }
        words = np / n
        e = 0
        for (w = 0; w < words; w++)
            for (b = 1; b <= p; b++)
                if (pa[b] == "1")
                    for (i = 0; i < bs; i++) {
                        v = pl[w * n + (b - 1) * bs + i]
                        if (e >= nu || pu[e] != v) { printf "punctured output differs at offset %d\n", e; exit 1 }
                        e++
                    }
        if (e != nu) { printf "punctured output has %d symbols, expected %d\n", nu, e; exit 1 }
        exit 0
    }'
}

# stale <file> : plant a long stale output file
stale() {
    awk 'BEGIN { for (i = 0; i < 3000; i++) printf "STALE-OUTPUT-STALE-OUTPUT-STALE-" }' > "$1"
}

# expect_fail <label> <args...> : non-zero status, a message, no panic
expect_fail() {
    _label=$1; shift
    enc "$@" > "$T/.so" 2> "$T/.se"
    _st=$?
    if [ "$_st" -eq 0 ]; then fail "$_label: exit status 0"; return; fi
    if [ "$_st" -ge 124 ]; then fail "$_label: exit status $_st (timeout/signal)"; return; fi
    if grep -qi "panicked" "$T/.se"; then fail "$_label: panic: $(head -2 "$T/.se")"; return; fi
    if [ ! -s "$T/.se" ]; then fail "$_label: no message on stderr"; return; fi
    ok
}

# run_plain <label> <alist> <input> : encode to a stale output file and verify
run_plain() {
    _o="$T/out.$CHECKS.bin"
    stale "$_o"
    if ! enc "$2" "$3" "$_o" > "$T/.so" 2> "$T/.se"; then fail "$1: encode failed: $(head -2 "$T/.se")"; return 1; fi
    if [ -s "$T/.so" ]; then fail "$1: unexpected output on stdout"; return 1; fi
    if ! _m=$(check_plain "$2" "$3" "$_o"); then fail "$1: $_m"; return 1; fi
    LAST_OUT=$_o
    ok
    return 0
}

# run_punct <label> <alist> <n> <input> <pattern> <plain output>
run_punct() {
    _o="$T/outp.$CHECKS.bin"
    stale "$_o"
    if ! enc "$2" "$4" "$_o" --puncturing "$5" > "$T/.so" 2> "$T/.se"; then fail "$1: encode failed: $(head -2 "$T/.se")"; return 1; fi
    if ! _m=$(check_punct "$3" "$5" "$6" "$_o"); then fail "$1: $_m"; return 1; fi
    ok
    return 0
}

# no stray files are left beside the output
check_dir_clean() {
    _d=$1; shift
    _have=$(ls -A "$_d" | sort | tr '\n' ' ')
    _want=$(printf '%s\n' "$@" | sort | tr '\n' ' ')
    if [ "$_have" != "$_want" ]; then fail "directory $_d holds [$_have], expected [$_want]"; else ok; fi
}

# ------------------------------------------------------------------- codes

gen_code 12 4 1 tri > "$T/c12.alist"       # k = 8, dense generator
gen_code 12 4 2 stair > "$T/s12.alist"     # k = 8, staircase
gen_code 2 1 3 stair > "$T/rep.alist"      # k = 1 (repetition), n = 2
gen_code 7 6 4 tri > "$T/k1.alist"         # k = 1, n = 7
gen_code 60 24 5 tri > "$T/c60.alist"      # k = 36
gen_code 600 300 6 tri > "$T/c600.alist"   # k = 300
gen_code 30 29 7 stair > "$T/s30.alist"    # k = 1, n = 30
gen_code 12 4 8 sing > "$T/sing.alist"     # not invertible

# ------------------------------------------- 1. sizes around every boundary

: > "$T/empty.bin"
for code in c12 s12; do
    for len in 0 1 7 8 9 15 16 17 4095 4096 4097 8184 8191 8192 8193 8200 65535 65536 65537 131083; do
        gen_input "$len" "$len" > "$T/in.bin"
        run_plain "$code len=$len" "$T/$code.alist" "$T/in.bin"
    done
done
for len in 0 1 2 3 4098 8191 8192 20001; do
    gen_input "$len" "$len" > "$T/in.bin"
    run_plain "rep len=$len" "$T/rep.alist" "$T/in.bin"
    run_plain "k1 len=$len" "$T/k1.alist" "$T/in.bin"
done
for len in 0 1 5000 8191; do
    gen_input "$len" "$len" > "$T/in.bin"
    run_plain "s30 len=$len" "$T/s30.alist" "$T/in.bin"
done
for len in 0 35 36 37 71 72 3599 3600 36000 36035 73737; do
    gen_input "$len" "$len" > "$T/in.bin"
    run_plain "c60 len=$len" "$T/c60.alist" "$T/in.bin"
done
for len in 299 300 301 8100 8400 30000 30299; do
    gen_input "$len" "$len" > "$T/in.bin"
    run_plain "c600 len=$len" "$T/c600.alist" "$T/in.bin"
done

# ------------------------------------------------------------ 2. puncturing

gen_input 8003 99 > "$T/inp.bin"
if run_plain "c12 plain for puncturing" "$T/c12.alist" "$T/inp.bin"; then
    PL=$LAST_OUT
    for pat in 1 1,1 1,0 0,1 1,1,0 0,1,1 1,0,1,0 1,1,1,1,1,0 0,0,1 0 0,0 1,1,1,1,1,1,1,1,1,1,1,0; do
        run_punct "c12 pattern $pat" "$T/c12.alist" 12 "$T/inp.bin" "$pat" "$PL"
    done
fi
gen_input 36000 98 > "$T/inp60.bin"
if run_plain "c60 plain for puncturing" "$T/c60.alist" "$T/inp60.bin"; then
    PL=$LAST_OUT
    for pat in 1,1,1,1,0 0,1,0,1,1,0 1,1,1,1,1,1,1,1,1,1,1,1,1,1,1,1,1,1,1,1,1,1,1,1,1,1,1,1,1,0 0,0,0; do
        run_punct "c60 pattern $pat" "$T/c60.alist" 60 "$T/inp60.bin" "$pat" "$PL"
    done
fi
# A pattern that does not divide the codeword size is only an error once a
# complete word has to be punctured.
gen_input 7 1 > "$T/in7.bin"
stale "$T/o.bin"
if enc "$T/c12.alist" "$T/in7.bin" "$T/o.bin" --puncturing 1,1,1,1,0 2> "$T/.se" && [ ! -s "$T/o.bin" ]; then ok; else fail "indivisible pattern without complete word"; fi
stale "$T/o.bin"
if enc "$T/c12.alist" "$T/empty.bin" "$T/o.bin" --puncturing 1,1,1,1,0 2> "$T/.se" && [ ! -s "$T/o.bin" ]; then ok; else fail "indivisible pattern with empty input"; fi
gen_input 8 1 > "$T/in8.bin"
expect_fail "indivisible pattern with one word" "$T/c12.alist" "$T/in8.bin" "$T/o.bin" --puncturing 1,1,1,1,0
gen_input 80000 1 > "$T/in80000.bin"
expect_fail "indivisible pattern with many words" "$T/c12.alist" "$T/in80000.bin" "$T/o.bin" --puncturing 1,1,1,1,0

# ------------------------------------------------------------ 3. error paths

mkdir "$T/e"
gen_input 800 5 > "$T/e/in.bin"
expect_fail "missing alist" "$T/e/none.alist" "$T/e/in.bin" "$T/e/o1.bin"
printf 'hello world\n' > "$T/e/bad.alist"
expect_fail "garbage alist" "$T/e/bad.alist" "$T/e/in.bin" "$T/e/o2.bin"
printf '12 4\n\n\n\n1 \n' > "$T/e/short.alist"
expect_fail "truncated alist" "$T/e/short.alist" "$T/e/in.bin" "$T/e/o3.bin"
expect_fail "alist is a directory" "$T/e" "$T/e/in.bin" "$T/e/o4.bin"
expect_fail "missing input" "$T/c12.alist" "$T/e/none.bin" "$T/e/o5.bin"
expect_fail "input is a directory" "$T/c12.alist" "$T/e" "$T/e/o6.bin"
expect_fail "output directory missing" "$T/c12.alist" "$T/e/in.bin" "$T/e/nodir/o.bin"
expect_fail "output is a directory" "$T/c12.alist" "$T/e/in.bin" "$T/e"
expect_fail "output path empty" "$T/c12.alist" "$T/e/in.bin" ""
expect_fail "pattern with a 2" "$T/c12.alist" "$T/e/in.bin" "$T/e/o7.bin" --puncturing 1,2
expect_fail "pattern empty" "$T/c12.alist" "$T/e/in.bin" "$T/e/o8.bin" --puncturing ""
expect_fail "pattern trailing comma" "$T/c12.alist" "$T/e/in.bin" "$T/e/o9.bin" --puncturing 1,0,
expect_fail "pattern with blanks" "$T/c12.alist" "$T/e/in.bin" "$T/e/o10.bin" --puncturing "1, 0"
expect_fail "singular matrix" "$T/sing.alist" "$T/e/in.bin" "$T/e/o11.bin"
expect_fail "missing arguments" "$T/c12.alist" "$T/e/in.bin"
# whatever failed, nothing but the named output files may have appeared, and
# a failed run never leaves more than the codewords of the input
for f in "$T"/e/o*.bin; do
    [ -e "$f" ] || continue
    if [ -s "$f" ]; then fail "failed run left data in $f"; fi
done
_stray=$(ls -A "$T/e" | grep -v -e '^o[0-9]*\.bin$' -e '^in\.bin$' -e '^bad\.alist$' -e '^short\.alist$' | tr '\n' ' ')
if [ -n "$_stray" ]; then fail "stray files after failed runs: $_stray"; else ok; fi

# ------------------------------------------ 4. special inputs and outputs

gen_input 50005 11 > "$T/in5.bin"
if run_plain "reference for special files" "$T/c12.alist" "$T/in5.bin"; then
    REF=$LAST_OUT

    # fresh directory: only the output appears
    mkdir "$T/d1"
    if enc "$T/c12.alist" "$T/in5.bin" "$T/d1/out.bin" && cmp -s "$REF" "$T/d1/out.bin"; then ok; else fail "fresh output file"; fi
    check_dir_clean "$T/d1" out.bin

    # relative output path, in the current directory
    mkdir "$T/d2"
    if (cd "$T/d2" && enc "$T/c12.alist" "$T/in5.bin" out.bin) && cmp -s "$REF" "$T/d2/out.bin"; then ok; else fail "relative output path"; fi
    check_dir_clean "$T/d2" out.bin
    # ... over an existing stale file, twice in a row
    stale "$T/d2/out.bin"
    if (cd "$T/d2" && enc "$T/c12.alist" "$T/in5.bin" out.bin && enc "$T/c12.alist" "$T/in5.bin" ./out.bin) && cmp -s "$REF" "$T/d2/out.bin"; then ok; else fail "relative stale output path"; fi
    check_dir_clean "$T/d2" out.bin

    # input through a pipe on /dev/stdin, output through a pipe on /dev/stdout
    if [ -e /dev/stdin ] && [ -e /dev/stdout ]; then
        if cat "$T/in5.bin" | enc "$T/c12.alist" /dev/stdin "$T/o.bin" && cmp -s "$REF" "$T/o.bin"; then ok; else fail "input from a pipe"; fi
        if enc "$T/c12.alist" /dev/stdin "$T/o.bin" < "$T/in5.bin" && cmp -s "$REF" "$T/o.bin"; then ok; else fail "input from redirected stdin"; fi
        if enc "$T/c12.alist" "$T/in5.bin" /dev/stdout | cat > "$T/o2.bin" && cmp -s "$REF" "$T/o2.bin"; then ok; else fail "output to a pipe"; fi
        stale "$T/o3.bin"
        if enc "$T/c12.alist" "$T/in5.bin" /dev/stdout > "$T/o3.bin" && cmp -s "$REF" "$T/o3.bin"; then ok; else fail "output to redirected stdout"; fi
        # slow producer: words arrive split over several writes
        if (dd if="$T/in5.bin" bs=1001 count=3 2>/dev/null; sleep 1; dd if="$T/in5.bin" bs=1001 skip=3 2>/dev/null) | enc "$T/c12.alist" /dev/stdin "$T/o.bin" && cmp -s "$REF" "$T/o.bin"; then ok; else fail "input from a slow pipe"; fi
    fi
    if [ -e /dev/null ]; then
        if enc "$T/c12.alist" "$T/in5.bin" /dev/null && [ -c /dev/null ]; then ok; else fail "output to /dev/null"; fi
        stale "$T/o.bin"
        if enc "$T/c12.alist" /dev/null "$T/o.bin" && [ ! -s "$T/o.bin" ]; then ok; else fail "input from /dev/null"; fi
    fi

    # named pipes
    if mkfifo "$T/fin" "$T/fout" 2>/dev/null; then
        (cat "$T/in5.bin" > "$T/fin") &
        if enc "$T/c12.alist" "$T/fin" "$T/o.bin" && cmp -s "$REF" "$T/o.bin"; then ok; else fail "input from a fifo"; fi
        wait
        (cat "$T/fout" > "$T/o4.bin") &
        if enc "$T/c12.alist" "$T/in5.bin" "$T/fout"; then :; else fail "output to a fifo (status)"; fi
        wait
        if cmp -s "$REF" "$T/o4.bin"; then ok; else fail "output to a fifo"; fi
        if [ -p "$T/fout" ]; then ok; else fail "output fifo was replaced"; fi
    fi

    # output through a symbolic link: the link stays, the target gets the data
    mkdir "$T/d3"
    stale "$T/d3/target.bin"
    if ln -s target.bin "$T/d3/link.bin" 2>/dev/null; then
        if enc "$T/c12.alist" "$T/in5.bin" "$T/d3/link.bin" && cmp -s "$REF" "$T/d3/link.bin" && cmp -s "$REF" "$T/d3/target.bin" && [ -h "$T/d3/link.bin" ]; then ok; else fail "output through a symlink"; fi
        check_dir_clean "$T/d3" link.bin target.bin
    fi

    # input and output are the same file: it is truncated before it is read
    cp "$T/in5.bin" "$T/same.bin"
    if enc "$T/c12.alist" "$T/same.bin" "$T/same.bin" && [ -e "$T/same.bin" ] && [ ! -s "$T/same.bin" ]; then ok; else fail "input == output"; fi

    # a very long output file name (250 characters)
    _long=$(awk 'BEGIN { for (i = 0; i < 250; i++) printf "a" }')
    mkdir "$T/d5"
    if enc "$T/c12.alist" "$T/in5.bin" "$T/d5/$_long" && cmp -s "$REF" "$T/d5/$_long"; then ok; else fail "long output name"; fi
    check_dir_clean "$T/d5" "$_long"

    # a failing run over a stale output file: nothing stray, no stale data
    mkdir "$T/d4"
    stale "$T/d4/out.bin"
    expect_fail "indivisible pattern over stale output" "$T/c12.alist" "$T/in5.bin" "$T/d4/out.bin" --puncturing 1,1,1,1,0
    check_dir_clean "$T/d4" out.bin
    if [ ! -s "$T/d4/out.bin" ]; then ok; else fail "stale data survived a failed run"; fi
    # ... and a good run afterwards
    if enc "$T/c12.alist" "$T/in5.bin" "$T/d4/out.bin" --puncturing 1,1,1,1,1,1 && cmp -s "$REF" "$T/d4/out.bin"; then ok; else fail "run after failed run"; fi
    check_dir_clean "$T/d4" out.bin

    # a file whose reported size (zero) says nothing about its contents
    if [ -r /proc/version ] && cat /proc/version > "$T/procv.bin" 2>/dev/null && [ -s "$T/procv.bin" ]; then
        stale "$T/o.bin"
        if enc "$T/rep.alist" /proc/version "$T/o.bin"; then
            if _m=$(check_plain "$T/rep.alist" "$T/procv.bin" "$T/o.bin"); then ok; else fail "input from /proc: $_m"; fi
        else
            fail "input from /proc: status"
        fi
    fi

    # read-only input file, output file with odd name
    cp "$T/in5.bin" "$T/ro.bin"; chmod 400 "$T/ro.bin"
    if enc "$T/c12.alist" "$T/ro.bin" "$T/.hidden out.tmp" && cmp -s "$REF" "$T/.hidden out.tmp"; then ok; else fail "odd output name"; fi
fi

# ------------------------------------------------------- 4b. write failures

gen_input 200000 12 > "$T/inbig.bin"      # 300000 output symbols
if [ -c /dev/full ]; then
    expect_fail "device full" "$T/c12.alist" "$T/inbig.bin" /dev/full
    expect_fail "device full, one word" "$T/c12.alist" "$T/in8.bin" /dev/full
    # no word, nothing to write, no failure
    if enc "$T/c12.alist" "$T/in7.bin" /dev/full 2> "$T/.se"; then ok; else fail "device full without complete word"; fi
fi
if [ -e /dev/stdout ]; then
    # the reader goes away: more output than a pipe can hold
    { enc "$T/c12.alist" "$T/inbig.bin" /dev/stdout 2> "$T/.se"; echo $? > "$T/.st"; } | true
    _st=$(cat "$T/.st")
    if [ "$_st" -eq 0 ] || [ "$_st" -ge 124 ]; then fail "broken pipe: exit status $_st"
    elif grep -qi panicked "$T/.se"; then fail "broken pipe: panic"
    elif [ ! -s "$T/.se" ]; then fail "broken pipe: no message"
    else ok; fi
fi

# ------------------------------ 4c. lock step through a pair of named pipes
# Each codeword can be collected before the next word is supplied.

if mkfifo "$T/li" "$T/lo" 2>/dev/null; then
    gen_input 40 13 > "$T/in40.bin"
    if run_plain "reference for lock step" "$T/c12.alist" "$T/in40.bin"; then
        REF=$LAST_OUT
        lim 60 "$BIN" encode "$T/c12.alist" "$T/li" "$T/lo" 2> "$T/.se" &
        _pid=$!
        exec 3> "$T/li"
        exec 4< "$T/lo"
        : > "$T/lock.bin"
        for w in 0 1 2 3 4; do
            dd if="$T/in40.bin" bs=8 skip="$w" count=1 2>/dev/null >&3
            # exactly one codeword (12 symbols) must arrive
            dd bs=1 count=12 <&4 2>/dev/null >> "$T/lock.bin"
        done
        exec 3>&-
        cat <&4 >> "$T/lock.bin"
        exec 4<&-
        if wait "$_pid"; then :; else fail "lock step: exit status"; fi
        if cmp -s "$REF" "$T/lock.bin"; then ok; else fail "lock step output"; fi
    fi
fi

# -------------------------------------------------- 5. codes of the toolbox

"$BIN" dvbs2 --rate 1/2 --short > "$T/dvbs2.alist" || fail "dvbs2 alist"
gen_input 25000 21 > "$T/ind.bin"         # 3 words of 7200 and 3400 spare symbols
if run_plain "dvbs2 1/2 short" "$T/dvbs2.alist" "$T/ind.bin"; then
    run_punct "dvbs2 1/2 short punctured" "$T/dvbs2.alist" 16200 "$T/ind.bin" 1,1,0,1,0,1 "$LAST_OUT"
fi
"$BIN" ccsds --rate 1/2 --block-size 1024 > "$T/ar4ja.alist" || fail "ccsds alist"
gen_input 2500 22 > "$T/ina.bin"          # 2 words of 1024 and 452 spare symbols
stale "$T/oa.bin"
if [ -n "${C20_DEMO_QUICK:-}" ]; then
    :   # (development aid: skip the slow dense code)
elif enc "$T/ar4ja.alist" "$T/ina.bin" "$T/oa.bin" --puncturing 1,1,1,1,0; then
    # the punctured AR4JA codeword keeps the message and has 2048 symbols
    dump "$T/ina.bin" > "$T/.in.txt"; dump "$T/oa.bin" > "$T/.out.txt"
    if awk -v IN="$T/.in.txt" -v OUT="$T/.out.txt" 'BEGIN {
        while ((getline l < IN) > 0) { q = split(l, a, " "); for (j = 1; j <= q; j++) inp[ni++] = a[j] + 0 }
        while ((getline l < OUT) > 0) { q = split(l, a, " "); for (j = 1; j <= q; j++) out[no++] = a[j] + 0 }
        if (no != 4096) exit 1
        for (w = 0; w < 2; w++) for (i = 0; i < 2048; i++) {
            b = out[w * 2048 + i]
            if (b != 0 && b != 1) exit 1
            if (i < 1024 && b != ((inp[w * 1024 + i] == 1) ? 1 : 0)) exit 1
        }
        exit 0 }'; then ok; else fail "ccsds punctured framing"; fi
    # and it is what an unpunctured run gives in its first four fifths
    if run_plain "ccsds 1/2 1024" "$T/ar4ja.alist" "$T/ina.bin"; then
        if _m=$(check_punct 2560 1,1,1,1,0 "$LAST_OUT" "$T/oa.bin"); then ok; else fail "ccsds punctured: $_m"; fi
    fi
else
    fail "ccsds punctured encode failed"
fi

# ---------------------------------------------------------------- verdict

if [ "$FAILS" -ne 0 ]; then
    echo "C20 demo: $FAILS failure(s) after $CHECKS passed checks" >&2
    exit 1
fi
echo "C20 demo: all $CHECKS checks passed"
exit 0
