// Model-based demonstration for property C17:
// "Sparse-matrix editing behaves like a set of (row, column) positions".
//
// A SparseMatrix is driven through long deterministic pseudo-random histories
// of insert / remove / toggle / clear_row / clear_col / set_row / set_col /
// insert_row / insert_col operations, side by side with a BTreeSet model.
// After the operations the whole observable state (dimensions, membership,
// weights, row iterators, column iterators, all-entries iterator, absence of
// duplicates, row/column mirror consistency) is compared with the model.
// Idempotent operations are checked with `==` against a clone taken before.
//
// Only the public API of the crate and std are used. Nothing here depends on
// the order in which iterators return entries.

use ldpc_toolbox::sparse::SparseMatrix;
use std::collections::BTreeSet;
use std::sync::mpsc;
use std::time::Duration;

// ---------------------------------------------------------------- utilities

struct Rng(u64);

impl Rng {
    fn new(seed: u64) -> Rng {
        Rng(seed.wrapping_mul(0x9E37_79B9_7F4A_7C15) | 1)
    }
    fn next(&mut self) -> u64 {
        // xorshift64*
        let mut x = self.0;
        x ^= x >> 12;
        x ^= x << 25;
        x ^= x >> 27;
        self.0 = x;
        x.wrapping_mul(0x2545_F491_4F6C_DD1D)
    }
    fn below(&mut self, n: usize) -> usize {
        assert!(n > 0);
        ((self.next() >> 11) % (n as u64)) as usize
    }
}

fn with_timeout<F: FnOnce() + Send + 'static>(secs: u64, f: F) {
    let (tx, rx) = mpsc::channel();
    let handle = std::thread::spawn(move || {
        f();
        let _ = tx.send(());
    });
    match rx.recv_timeout(Duration::from_secs(secs)) {
        Ok(()) => handle.join().unwrap(),
        Err(mpsc::RecvTimeoutError::Disconnected) => {
            // the worker panicked: propagate its panic
            if let Err(e) = handle.join() {
                std::panic::resume_unwind(e);
            }
            panic!("worker finished without reporting");
        }
        Err(mpsc::RecvTimeoutError::Timeout) => panic!("demo timed out after {} s", secs),
    }
}

// -------------------------------------------------------------------- model

#[derive(Clone)]
struct Model {
    nrows: usize,
    ncols: usize,
    set: BTreeSet<(usize, usize)>,
}

impl Model {
    fn new(nrows: usize, ncols: usize) -> Model {
        Model {
            nrows,
            ncols,
            set: BTreeSet::new(),
        }
    }
    fn clear_row(&mut self, row: usize) {
        self.set.retain(|&(r, _)| r != row);
    }
    fn clear_col(&mut self, col: usize) {
        self.set.retain(|&(_, c)| c != col);
    }
    fn toggle(&mut self, row: usize, col: usize) {
        if !self.set.remove(&(row, col)) {
            self.set.insert((row, col));
        }
    }
}

fn sorted_no_dup(what: &str, idx: usize, mut v: Vec<usize>) -> Vec<usize> {
    let n = v.len();
    v.sort_unstable();
    v.dedup();
    assert_eq!(v.len(), n, "duplicate entries in {} {}", what, idx);
    v
}

/// Compare every observable of `h` with the model.
fn check(h: &SparseMatrix, m: &Model, exhaustive_membership: bool, rng: &mut Rng) {
    assert_eq!(h.num_rows(), m.nrows, "number of rows changed");
    assert_eq!(h.num_cols(), m.ncols, "number of columns changed");

    let mut by_row: Vec<Vec<usize>> = vec![Vec::new(); m.nrows];
    let mut by_col: Vec<Vec<usize>> = vec![Vec::new(); m.ncols];
    for &(r, c) in &m.set {
        by_row[r].push(c);
        by_col[c].push(r);
    }
    // the BTreeSet is ordered by (row, col), so by_row[*] and by_col[*] are sorted

    let mut total = 0;
    for r in 0..m.nrows {
        assert_eq!(h.row_weight(r), by_row[r].len(), "weight of row {}", r);
        let got = sorted_no_dup("row", r, h.iter_row(r).copied().collect());
        assert_eq!(got, by_row[r], "contents of row {}", r);
        total += got.len();
        // mirror: every entry listed in the row is listed in the column
        for &c in h.iter_row(r) {
            assert!(c < m.ncols, "row {} lists column {} out of range", r, c);
            assert!(
                h.iter_col(c).any(|&rr| rr == r),
                "({}, {}) in row view but not in column view",
                r,
                c
            );
            assert!(h.contains(r, c));
        }
    }
    let mut total_c = 0;
    for c in 0..m.ncols {
        assert_eq!(h.col_weight(c), by_col[c].len(), "weight of column {}", c);
        let got = sorted_no_dup("column", c, h.iter_col(c).copied().collect());
        assert_eq!(got, by_col[c], "contents of column {}", c);
        total_c += got.len();
        for &r in h.iter_col(c) {
            assert!(r < m.nrows, "column {} lists row {} out of range", c, r);
            assert!(
                h.iter_row(r).any(|&cc| cc == c),
                "({}, {}) in column view but not in row view",
                r,
                c
            );
            assert!(h.contains(r, c));
        }
    }
    assert_eq!(total, m.set.len());
    assert_eq!(total_c, m.set.len());

    let all: Vec<(usize, usize)> = h.iter_all().collect();
    assert_eq!(all.len(), m.set.len(), "iter_all has the wrong length");
    let all_set: BTreeSet<(usize, usize)> = all.into_iter().collect();
    assert_eq!(all_set, m.set, "iter_all disagrees with the model");

    if m.nrows > 0 && m.ncols > 0 {
        if exhaustive_membership {
            for r in 0..m.nrows {
                for c in 0..m.ncols {
                    assert_eq!(
                        h.contains(r, c),
                        m.set.contains(&(r, c)),
                        "membership of ({}, {})",
                        r,
                        c
                    );
                }
            }
        } else {
            for _ in 0..2000 {
                let r = rng.below(m.nrows);
                let c = rng.below(m.ncols);
                assert_eq!(h.contains(r, c), m.set.contains(&(r, c)));
            }
        }
    }
}

/// alist export + import gives the same set and the same dimensions
fn check_alist_roundtrip(h: &SparseMatrix, m: &Model) {
    for text in [h.alist(), h.alist_no_padding()] {
        let back = SparseMatrix::from_alist(&text).expect("alist written by the crate must parse");
        assert_eq!(back.num_rows(), m.nrows);
        assert_eq!(back.num_cols(), m.ncols);
        let got: BTreeSet<(usize, usize)> = back.iter_all().collect();
        assert_eq!(got, m.set);
        assert_eq!(back.alist(), h.alist());
    }
}

// --------------------------------------------------------------- operations

/// A random list of indices below `n`, of random length, biased so that it
/// often has repeated elements and often overlaps the current line.
fn random_list(rng: &mut Rng, n: usize, current: &[usize], max_len: usize) -> Vec<usize> {
    let len = match rng.below(6) {
        0 => 0,
        1 => 1,
        2 => rng.below(4),
        3 => rng.below(9),
        _ => rng.below(max_len + 1),
    };
    let mut v = Vec::with_capacity(len);
    for _ in 0..len {
        let pick = rng.below(8);
        if pick == 0 && !v.is_empty() {
            // repeat an element of the list itself
            let k = rng.below(v.len());
            let x = v[k];
            v.push(x);
        } else if pick <= 2 && !current.is_empty() {
            // an element that is already present in the line
            v.push(current[rng.below(current.len())]);
        } else if pick == 3 && n > 64 {
            // collide modulo 64 with something in the list or the line
            let base = if !v.is_empty() {
                v[rng.below(v.len())]
            } else if !current.is_empty() {
                current[rng.below(current.len())]
            } else {
                rng.below(n)
            };
            let x = (base % 64) + 64 * rng.below(n / 64);
            v.push(x.min(n - 1));
        } else {
            v.push(rng.below(n));
        }
    }
    v
}

/// Feed a list to a bulk method through iterators of different flavours
/// (items by reference or by value; exact, inexact and zero size hints).
macro_rules! bulk {
    ($h:expr, $method:ident, $line:expr, $list:expr, $flavour:expr) => {
        match $flavour % 5 {
            0 => $h.$method($line, $list.iter()),
            1 => $h.$method($line, $list.clone().into_iter()),
            2 => $h.$method($line, $list.iter().filter(|_| true)),
            3 => $h.$method($line, $list.iter().copied().chain(std::iter::empty())),
            _ => $h.$method($line, $list.iter().rev().rev().map(|x| *x)),
        }
    };
}

fn random_position(rng: &mut Rng, m: &Model, hot: usize) -> (usize, usize) {
    // a "hot" corner makes collisions (double inserts, removals of present
    // entries, long lines) frequent even in large matrices
    if rng.below(3) != 0 {
        (rng.below(m.nrows.min(hot)), rng.below(m.ncols.min(hot)))
    } else {
        (rng.below(m.nrows), rng.below(m.ncols))
    }
}

fn present_entry(rng: &mut Rng, m: &Model) -> Option<(usize, usize)> {
    if m.set.is_empty() {
        return None;
    }
    let k = rng.below(m.set.len().min(50));
    // take from the front or from the back
    if rng.below(2) == 0 {
        m.set.iter().nth(k).copied()
    } else {
        m.set.iter().rev().nth(k).copied()
    }
}

fn absent_entry(rng: &mut Rng, m: &Model, hot: usize) -> Option<(usize, usize)> {
    for _ in 0..50 {
        let p = random_position(rng, m, hot);
        if !m.set.contains(&p) {
            return Some(p);
        }
    }
    None
}

fn run_history(nrows: usize, ncols: usize, nops: usize, seed: u64, check_every: usize) {
    let mut rng = Rng::new(seed);
    let mut h = SparseMatrix::new(nrows, ncols);
    let mut m = Model::new(nrows, ncols);
    let exhaustive = nrows.saturating_mul(ncols) <= 20_000;
    check(&h, &m, exhaustive, &mut rng);
    check_alist_roundtrip(&h, &m);
    if nrows == 0 || ncols == 0 {
        // no position exists: nothing can be edited; clone and equality still work
        let h2 = h.clone();
        assert_eq!(h, h2);
        assert_eq!(h, SparseMatrix::new(nrows, ncols));
        // line-wise operations on the non-empty side with empty lists
        for r in 0..nrows {
            h.clear_row(r);
            h.set_row(r, std::iter::empty::<usize>());
            h.insert_row(r, std::iter::empty::<usize>());
        }
        for c in 0..ncols {
            h.clear_col(c);
            h.set_col(c, std::iter::empty::<usize>());
            h.insert_col(c, std::iter::empty::<usize>());
        }
        assert_eq!(h, h2);
        check(&h, &m, exhaustive, &mut rng);
        return;
    }
    let hot = 6;
    let max_list = 40.min(nrows.max(ncols) + 3);
    for step in 0..nops {
        let flavour = rng.below(5);
        match rng.below(22) {
            0..=4 => {
                let (r, c) = random_position(&mut rng, &m, hot);
                h.insert(r, c);
                m.set.insert((r, c));
                assert!(h.contains(r, c));
            }
            5..=7 => {
                let (r, c) = random_position(&mut rng, &m, hot);
                h.remove(r, c);
                m.set.remove(&(r, c));
                assert!(!h.contains(r, c));
            }
            8..=10 => {
                let (r, c) = random_position(&mut rng, &m, hot);
                let before = h.contains(r, c);
                h.toggle(r, c);
                m.toggle(r, c);
                assert_eq!(h.contains(r, c), !before);
            }
            11 => {
                let r = if rng.below(2) == 0 {
                    rng.below(nrows.min(hot))
                } else {
                    rng.below(nrows)
                };
                h.clear_row(r);
                m.clear_row(r);
                assert_eq!(h.row_weight(r), 0);
            }
            12 => {
                let c = if rng.below(2) == 0 {
                    rng.below(ncols.min(hot))
                } else {
                    rng.below(ncols)
                };
                h.clear_col(c);
                m.clear_col(c);
                assert_eq!(h.col_weight(c), 0);
            }
            13 => {
                // set_row, and the documented equivalence with clear_row + insert_row
                let r = rng.below(nrows.min(hot * 2));
                let current: Vec<usize> = h.iter_row(r).copied().collect();
                let list = random_list(&mut rng, ncols, &current, max_list);
                let mut alt = h.clone();
                bulk!(h, set_row, r, list, flavour);
                alt.clear_row(r);
                bulk!(alt, insert_row, r, list, flavour + 1);
                assert_eq!(h, alt, "set_row differs from clear_row + insert_row");
                m.clear_row(r);
                for &c in &list {
                    m.set.insert((r, c));
                }
            }
            14 => {
                let c = rng.below(ncols.min(hot * 2));
                let current: Vec<usize> = h.iter_col(c).copied().collect();
                let list = random_list(&mut rng, nrows, &current, max_list);
                let mut alt = h.clone();
                bulk!(h, set_col, c, list, flavour);
                alt.clear_col(c);
                bulk!(alt, insert_col, c, list, flavour + 1);
                assert_eq!(h, alt, "set_col differs from clear_col + insert_col");
                m.clear_col(c);
                for &r in &list {
                    m.set.insert((r, c));
                }
            }
            15 => {
                // insert_row, and the documented equivalence with repeated insert
                let r = rng.below(nrows.min(hot * 2));
                let current: Vec<usize> = h.iter_row(r).copied().collect();
                let list = random_list(&mut rng, ncols, &current, max_list);
                let mut alt = h.clone();
                bulk!(h, insert_row, r, list, flavour);
                for &c in &list {
                    alt.insert(r, c);
                }
                assert_eq!(h, alt, "insert_row differs from repeated insert");
                for &c in &list {
                    m.set.insert((r, c));
                }
            }
            16 => {
                let c = rng.below(ncols.min(hot * 2));
                let current: Vec<usize> = h.iter_col(c).copied().collect();
                let list = random_list(&mut rng, nrows, &current, max_list);
                let mut alt = h.clone();
                bulk!(h, insert_col, c, list, flavour);
                for &r in &list {
                    alt.insert(r, c);
                }
                assert_eq!(h, alt, "insert_col differs from repeated insert");
                for &r in &list {
                    m.set.insert((r, c));
                }
            }
            17 => {
                // inserting something present: the matrix stays equal to what it was
                if let Some((r, c)) = present_entry(&mut rng, &m) {
                    let before = h.clone();
                    h.insert(r, c);
                    assert_eq!(h, before, "insert of a present entry changed the matrix");
                    // bulk insertion of present entries only
                    let row_now: Vec<usize> = h.iter_row(r).copied().collect();
                    let mut again = row_now.clone();
                    again.extend_from_slice(&row_now);
                    bulk!(h, insert_row, r, again, flavour);
                    assert_eq!(h, before, "insert_row of present entries changed the matrix");
                    let col_now: Vec<usize> = h.iter_col(c).copied().collect();
                    bulk!(h, insert_col, c, col_now, flavour);
                    assert_eq!(h, before, "insert_col of present entries changed the matrix");
                }
            }
            18 => {
                // removing something absent: the matrix stays equal to what it was
                if let Some((r, c)) = absent_entry(&mut rng, &m, hot) {
                    let before = h.clone();
                    h.remove(r, c);
                    assert_eq!(h, before, "remove of an absent entry changed the matrix");
                }
                // clearing an empty line as well
                let r = rng.below(nrows);
                if m.set.range((r, 0)..=(r, usize::MAX)).next().is_none() {
                    let before = h.clone();
                    h.clear_row(r);
                    assert_eq!(h, before);
                }
            }
            19 => {
                // continue on a clone (the clone must be a faithful, independent copy)
                let copy = h.clone();
                assert_eq!(copy, h);
                let old = std::mem::replace(&mut h, copy);
                drop(old);
            }
            20 => {
                // fill a line completely, or nearly (long lines, many residues)
                if rng.below(2) == 0 {
                    let r = rng.below(nrows.min(hot));
                    let upto = ncols.min(300);
                    let list: Vec<usize> = (0..upto).rev().collect();
                    bulk!(h, insert_row, r, list, flavour);
                    for &c in &list {
                        m.set.insert((r, c));
                    }
                    assert!(h.row_weight(r) >= upto);
                } else {
                    let c = rng.below(ncols.min(hot));
                    let upto = nrows.min(300);
                    let list: Vec<usize> = (0..upto).collect();
                    bulk!(h, insert_col, c, list, flavour);
                    for &r in &list {
                        m.set.insert((r, c));
                    }
                    assert!(h.col_weight(c) >= upto);
                }
            }
            _ => {
                // shrink a line step by step through remove / toggle (crosses
                // every length on the way down), checking the weight each time
                let r = rng.below(nrows.min(hot));
                let entries: Vec<usize> = h.iter_row(r).copied().collect();
                let mut w = entries.len();
                for (k, &c) in entries.iter().enumerate() {
                    if k % 3 == 2 {
                        continue;
                    }
                    if k % 2 == 0 {
                        h.remove(r, c);
                    } else {
                        h.toggle(r, c);
                    }
                    m.set.remove(&(r, c));
                    w -= 1;
                    assert_eq!(h.row_weight(r), w);
                    assert!(!h.contains(r, c));
                }
            }
        }
        if step % check_every == check_every - 1 {
            check(&h, &m, exhaustive, &mut rng);
        }
    }
    check(&h, &m, exhaustive, &mut rng);
    check_alist_roundtrip(&h, &m);

    // undo everything through toggles: the matrix must be empty again
    let everything: Vec<(usize, usize)> = h.iter_all().collect();
    for (r, c) in everything {
        h.toggle(r, c);
    }
    let empty = Model::new(nrows, ncols);
    check(&h, &empty, exhaustive, &mut rng);
    assert_eq!(h, SparseMatrix::new(nrows, ncols));
}

const SEED_BASE: u64 = 2000003;

// -------------------------------------------------------------------- tests

#[test]
fn degenerate_shapes() {
    with_timeout(120, || {
        for &(r, c) in &[(0, 0), (0, 5), (5, 0), (0, 70), (70, 0)] {
            run_history(r, c, 10, 1, 1);
        }
    });
}

#[test]
fn tiny_and_boundary_shapes() {
    with_timeout(600, || {
        let shapes = [
            (1, 1),
            (1, 2),
            (2, 1),
            (2, 2),
            (1, 70),
            (70, 1),
            (3, 4),
            (4, 5),
            (5, 4),
            (3, 63),
            (3, 64),
            (3, 65),
            (64, 3),
            (65, 3),
            (7, 130),
            (64, 64),
            (65, 129),
        ];
        for (k, &(r, c)) in shapes.iter().enumerate() {
            for seed in 0..3u64 {
                run_history(r, c, 1500, SEED_BASE + 100 * k as u64 + seed, 25);
            }
        }
    });
}

#[test]
fn medium_shapes() {
    with_timeout(600, || {
        let shapes = [(40, 40), (10, 2000), (2000, 10), (100, 300), (257, 193)];
        for (k, &(r, c)) in shapes.iter().enumerate() {
            for seed in 0..2u64 {
                run_history(r, c, 3000, SEED_BASE + 5000 + 100 * k as u64 + seed, 150);
            }
        }
    });
}

#[test]
fn large_shapes() {
    with_timeout(900, || {
        // around 2^22 positions and beyond, tall, wide and square
        let shapes = [
            (1024, 4096),
            (1025, 4096),
            (4096, 1024),
            (4097, 1024),
            (3000, 3000),
            (2, 200_000),
            (20_000, 65),
        ];
        for (k, &(r, c)) in shapes.iter().enumerate() {
            run_history(r, c, 600, SEED_BASE + 9000 + k as u64, 300);
        }
    });
}

#[test]
fn exhaustive_short_histories_on_2x2() {
    // every history of length <= 5 over the 4 positions x {insert, remove, toggle}
    // plus clear_row/clear_col/set_row/set_col with all subsets, on a 2 x 2 matrix
    with_timeout(600, || {
        #[derive(Clone, Copy)]
        enum Op {
            Ins(usize, usize),
            Rem(usize, usize),
            Tog(usize, usize),
            ClrR(usize),
            ClrC(usize),
            SetR(usize, usize), // subset mask
            SetC(usize, usize),
            InsR(usize, usize),
            InsC(usize, usize),
        }
        let mut ops = Vec::new();
        for r in 0..2 {
            for c in 0..2 {
                ops.push(Op::Ins(r, c));
                ops.push(Op::Rem(r, c));
                ops.push(Op::Tog(r, c));
            }
        }
        for n in 0..2 {
            ops.push(Op::ClrR(n));
            ops.push(Op::ClrC(n));
            for mask in 0..4 {
                ops.push(Op::SetR(n, mask));
                ops.push(Op::SetC(n, mask));
                ops.push(Op::InsR(n, mask));
                ops.push(Op::InsC(n, mask));
            }
        }
        let subset = |mask: usize| -> Vec<usize> {
            // with a repeated element, in decreasing order
            let mut v = Vec::new();
            for b in (0..2).rev() {
                if mask & (1 << b) != 0 {
                    v.push(b);
                    v.push(b);
                }
            }
            v
        };
        let nops = ops.len();
        let depth = 4;
        let mut rng = Rng::new(7);
        let mut counter = vec![0usize; depth];
        loop {
            let mut h = SparseMatrix::new(2, 2);
            let mut m = Model::new(2, 2);
            for &k in &counter {
                match ops[k] {
                    Op::Ins(r, c) => {
                        h.insert(r, c);
                        m.set.insert((r, c));
                    }
                    Op::Rem(r, c) => {
                        h.remove(r, c);
                        m.set.remove(&(r, c));
                    }
                    Op::Tog(r, c) => {
                        h.toggle(r, c);
                        m.toggle(r, c);
                    }
                    Op::ClrR(r) => {
                        h.clear_row(r);
                        m.clear_row(r);
                    }
                    Op::ClrC(c) => {
                        h.clear_col(c);
                        m.clear_col(c);
                    }
                    Op::SetR(r, mask) => {
                        h.set_row(r, subset(mask).into_iter());
                        m.clear_row(r);
                        for c in subset(mask) {
                            m.set.insert((r, c));
                        }
                    }
                    Op::SetC(c, mask) => {
                        h.set_col(c, subset(mask).iter());
                        m.clear_col(c);
                        for r in subset(mask) {
                            m.set.insert((r, c));
                        }
                    }
                    Op::InsR(r, mask) => {
                        h.insert_row(r, subset(mask).iter());
                        for c in subset(mask) {
                            m.set.insert((r, c));
                        }
                    }
                    Op::InsC(c, mask) => {
                        h.insert_col(c, subset(mask).into_iter());
                        for r in subset(mask) {
                            m.set.insert((r, c));
                        }
                    }
                }
            }
            check(&h, &m, true, &mut rng);
            // advance the odometer
            let mut i = 0;
            loop {
                if i == depth {
                    return;
                }
                counter[i] += 1;
                if counter[i] < nops {
                    break;
                }
                counter[i] = 0;
                i += 1;
            }
        }
    });
}
