// Demonstration for property C08: alist text and matrices round-trip
// losslessly and the parser is total.
//
// Everything here uses only the public API of `ldpc_toolbox` and std. The
// expected behaviour is computed by an independent reference model written in
// this file (reference writer and reference parser), and the crate is compared
// against it on hand-written corner cases, on random matrices, on random token
// soups, on mutated and truncated valid alists, through failing and chunk
// recording writers, and from several threads at once.

use ldpc_toolbox::sparse::SparseMatrix;
use std::collections::BTreeSet;
use std::panic::{catch_unwind, AssertUnwindSafe};
use std::sync::mpsc;
use std::time::Duration;

// ---------------------------------------------------------------- utilities

fn with_timeout<F: FnOnce() + Send + 'static>(secs: u64, f: F) {
    let (tx, rx) = mpsc::channel();
    let handle = std::thread::Builder::new()
        .stack_size(16 << 20)
        .spawn(move || {
            let r = catch_unwind(AssertUnwindSafe(f));
            let _ = tx.send(());
            if let Err(e) = r {
                std::panic::resume_unwind(e);
            }
        })
        .unwrap();
    match rx.recv_timeout(Duration::from_secs(secs)) {
        Ok(()) => {
            if let Err(e) = handle.join() {
                std::panic::resume_unwind(e);
            }
        }
        Err(_) => panic!("demo timed out after {} s", secs),
    }
}

struct Rng(u64);

impl Rng {
    fn next(&mut self) -> u64 {
        // splitmix64
        self.0 = self.0.wrapping_add(0x9E37_79B9_7F4A_7C15);
        let mut z = self.0;
        z = (z ^ (z >> 30)).wrapping_mul(0xBF58_476D_1CE4_E5B9);
        z = (z ^ (z >> 27)).wrapping_mul(0x94D0_49BB_1331_11EB);
        z ^ (z >> 31)
    }
    fn below(&mut self, n: usize) -> usize {
        (self.next() % (n as u64)) as usize
    }
    fn chance(&mut self, num: usize, den: usize) -> bool {
        self.below(den) < num
    }
    fn pick<'a, T>(&mut self, v: &'a [T]) -> &'a T {
        &v[self.below(v.len())]
    }
}

// ---------------------------------------------------------- reference model

/// What a successfully parsed alist must look like: the dimensions and, for
/// every column, the zero-based row indices in order of first appearance in
/// the text.
#[derive(Debug, Clone, PartialEq, Eq)]
struct Model {
    nrows: usize,
    ncols: usize,
    cols: Vec<Vec<usize>>,
}

impl Model {
    fn ones(&self) -> BTreeSet<(usize, usize)> {
        let mut s = BTreeSet::new();
        for (c, col) in self.cols.iter().enumerate() {
            for &r in col {
                s.insert((r, c));
            }
        }
        s
    }
}

/// Reference parser: lines are separated by '\n' only; tokens inside a line by
/// Unicode white space; numbers are what `usize::from_str` accepts; the first
/// line gives ncols and nrows (more tokens are ignored); lines 2-4 are
/// skipped (and may be missing if there are no columns); then one line per
/// column, zero is padding, duplicates count once, anything above nrows is an
/// error; everything after the column lines is ignored.
fn reference_parse(text: &str) -> Option<Model> {
    let lines: Vec<&str> = text.split('\n').collect();
    let mut first = lines[0].split_whitespace();
    let ncols: usize = first.next()?.parse().ok()?;
    let nrows: usize = first.next()?.parse().ok()?;
    let mut cols = Vec::new();
    for c in 0..ncols {
        let line = lines.get(4 + c)?;
        let mut col: Vec<usize> = Vec::new();
        for tok in line.split_whitespace() {
            let v: usize = tok.parse().ok()?;
            if v == 0 {
                continue;
            }
            if v > nrows {
                return None;
            }
            if !col.contains(&(v - 1)) {
                col.push(v - 1);
            }
        }
        cols.push(col);
    }
    Some(Model { nrows, ncols, cols })
}

fn join(v: impl Iterator<Item = usize>) -> String {
    v.map(|x| x.to_string()).collect::<Vec<_>>().join(" ")
}

/// Reference writer working from the set of ones only.
fn reference_alist(
    nrows: usize,
    ncols: usize,
    ones: &BTreeSet<(usize, usize)>,
    padding: bool,
) -> String {
    let mut by_col: Vec<Vec<usize>> = vec![Vec::new(); ncols];
    let mut by_row: Vec<Vec<usize>> = vec![Vec::new(); nrows];
    for &(r, c) in ones {
        by_col[c].push(r + 1);
        by_row[r].push(c + 1);
    }
    for v in by_col.iter_mut().chain(by_row.iter_mut()) {
        v.sort();
    }
    let maxc = by_col.iter().map(|v| v.len()).max().unwrap_or(0);
    let maxr = by_row.iter().map(|v| v.len()).max().unwrap_or(0);
    let mut s = String::new();
    s += &format!("{} {}\n", ncols, nrows);
    s += &format!("{} {}\n", maxc, maxr);
    s += &join(by_col.iter().map(|v| v.len()));
    s += "\n";
    s += &join(by_row.iter().map(|v| v.len()));
    s += "\n";
    for (lists, maxw) in [(&by_col, maxc), (&by_row, maxr)] {
        for v in lists.iter() {
            let mut toks = v.clone();
            if padding {
                while toks.len() < maxw || toks.is_empty() {
                    toks.push(0);
                }
            }
            s += &join(toks.into_iter());
            s += "\n";
        }
    }
    s
}

// ------------------------------------------------------------------ checks

fn ones_of(h: &SparseMatrix) -> BTreeSet<(usize, usize)> {
    let all: Vec<(usize, usize)> = h.iter_all().collect();
    let set: BTreeSet<(usize, usize)> = all.iter().copied().collect();
    assert_eq!(all.len(), set.len(), "iter_all lists an entry twice");
    // the column view must describe the same set
    let mut by_col = BTreeSet::new();
    for c in 0..h.num_cols() {
        assert_eq!(h.col_weight(c), h.iter_col(c).count());
        for &r in h.iter_col(c) {
            assert!(r < h.num_rows());
            assert!(by_col.insert((r, c)), "column lists an entry twice");
            assert!(h.contains(r, c));
        }
    }
    for r in 0..h.num_rows() {
        assert_eq!(h.row_weight(r), h.iter_row(r).count());
    }
    assert_eq!(set, by_col, "row view and column view disagree");
    set
}

/// Format prescriptions, checked on the text alone.
fn check_format(text: &str, padding: bool) {
    assert!(text.is_ascii());
    assert!(text.ends_with('\n'));
    assert!(!text.contains('\r') && !text.contains('\t') && !text.contains("  "));
    let lines: Vec<&str> = text[..text.len() - 1].split('\n').collect();
    let nums = |l: &str| -> Vec<usize> {
        if l.is_empty() {
            return Vec::new();
        }
        l.split(' ')
            .map(|t| {
                assert!(!t.is_empty(), "stray blank in {:?}", l);
                assert!(t == "0" || !t.starts_with('0'), "leading zero in {:?}", l);
                assert!(t.bytes().all(|b| b.is_ascii_digit()));
                t.parse().unwrap()
            })
            .collect()
    };
    let head = nums(lines[0]);
    assert_eq!(head.len(), 2);
    let (ncols, nrows) = (head[0], head[1]);
    assert_eq!(lines.len(), 4 + ncols + nrows, "line count");
    let maxw = nums(lines[1]);
    assert_eq!(maxw.len(), 2);
    let colw = nums(lines[2]);
    let roww = nums(lines[3]);
    assert_eq!(colw.len(), ncols);
    assert_eq!(roww.len(), nrows);
    assert_eq!(maxw[0], colw.iter().copied().max().unwrap_or(0));
    assert_eq!(maxw[1], roww.iter().copied().max().unwrap_or(0));
    assert_eq!(colw.iter().sum::<usize>(), roww.iter().sum::<usize>());
    let mut from_cols = BTreeSet::new();
    let mut from_rows = BTreeSet::new();
    for (k, line) in lines[4..].iter().enumerate() {
        let (is_col, idx, w, limit, mw) = if k < ncols {
            (true, k, colw[k], nrows, maxw[0])
        } else {
            (false, k - ncols, roww[k - ncols], ncols, maxw[1])
        };
        let v = nums(line);
        let nz: Vec<usize> = v.iter().copied().filter(|&x| x != 0).collect();
        assert_eq!(nz.len(), w, "weight line disagrees with list");
        assert!(nz.windows(2).all(|p| p[0] < p[1]), "list not sorted");
        assert!(nz.iter().all(|&x| x >= 1 && x <= limit));
        // zeros only after the indices
        assert_eq!(&v[..nz.len()], &nz[..]);
        if padding {
            assert_eq!(v.len(), mw.max(1), "padded width");
        } else {
            assert_eq!(v.len(), w, "unpadded list has padding");
        }
        for x in nz {
            if is_col {
                from_cols.insert((x - 1, idx));
            } else {
                from_rows.insert((idx, x - 1));
            }
        }
    }
    assert_eq!(from_cols, from_rows, "column lists and row lists disagree");
}

/// A writer that records every chunk it is given.
struct Chunks(Vec<String>);
impl std::fmt::Write for Chunks {
    fn write_str(&mut self, s: &str) -> std::fmt::Result {
        self.0.push(s.to_string());
        Ok(())
    }
}

/// A writer that takes at most `budget` bytes in total and fails from the
/// first chunk on that would exceed the budget.
struct Limited {
    budget: usize,
    got: String,
    failed: bool,
}
impl std::fmt::Write for Limited {
    fn write_str(&mut self, s: &str) -> std::fmt::Result {
        if self.failed || self.got.len() + s.len() > self.budget {
            self.failed = true;
            return Err(std::fmt::Error);
        }
        self.got.push_str(s);
        Ok(())
    }
}

/// Full check of the writer half and the round trip for one matrix.
fn check_matrix(h: &SparseMatrix, light: bool) {
    let (nrows, ncols) = (h.num_rows(), h.num_cols());
    let ones = ones_of(h);
    let padded = h.alist();
    let plain = h.alist_no_padding();
    assert_eq!(padded, reference_alist(nrows, ncols, &ones, true));
    assert_eq!(plain, reference_alist(nrows, ncols, &ones, false));
    if !light {
        check_format(&padded, true);
        check_format(&plain, false);
    }
    // write_alist / write_alist_no_padding give the same text, in whatever chunks
    let mut ch = Chunks(Vec::new());
    h.write_alist(&mut ch).unwrap();
    assert_eq!(ch.0.concat(), padded);
    let mut ch = Chunks(Vec::new());
    h.write_alist_no_padding(&mut ch).unwrap();
    assert_eq!(ch.0.concat(), plain);
    let mut s = String::from("prefix");
    h.write_alist(&mut s).unwrap();
    assert_eq!(&s[6..], padded);
    // round trip
    for text in [&padded, &plain] {
        let back = SparseMatrix::from_alist(text).expect("own alist rejected");
        assert_eq!(back.num_rows(), nrows);
        assert_eq!(back.num_cols(), ncols);
        assert_eq!(ones_of(&back), ones);
        // a parsed alist lists everything in increasing order
        for c in 0..ncols {
            assert!(back.iter_col(c).collect::<Vec<_>>().windows(2).all(|p| p[0] < p[1]));
        }
        for r in 0..nrows {
            assert!(back.iter_row(r).collect::<Vec<_>>().windows(2).all(|p| p[0] < p[1]));
        }
        assert_eq!(back.alist(), padded);
        assert_eq!(back.alist_no_padding(), plain);
    }
    assert_eq!(
        SparseMatrix::from_alist(&padded).unwrap(),
        SparseMatrix::from_alist(&plain).unwrap()
    );
    // the matrix was not disturbed by being written
    assert_eq!(ones_of(h), ones);
}

fn check_failing_writers(h: &SparseMatrix, rng: &mut Rng) {
    for padding in [true, false] {
        let text = if padding { h.alist() } else { h.alist_no_padding() };
        let mut budgets = vec![0, 1, 2, 3, text.len() - 1, text.len(), text.len() + 1];
        for _ in 0..6 {
            budgets.push(rng.below(text.len() + 2));
        }
        for budget in budgets {
            let mut w = Limited { budget, got: String::new(), failed: false };
            let r = if padding { h.write_alist(&mut w) } else { h.write_alist_no_padding(&mut w) };
            if budget >= text.len() {
                assert!(r.is_ok());
                assert_eq!(w.got, text);
            } else {
                assert!(r.is_err(), "writer failure was swallowed");
                assert!(text.starts_with(&w.got), "garbage written before the failure");
            }
        }
    }
}

/// Compare the parser with the reference parser on one text.
fn check_text(text: &str) -> bool {
    // The property is about moderate declared dimensions: a header declaring
    // billions of rows makes any implementation ask for that much memory.
    let mut head = text.split('\n').next().unwrap().split_whitespace();
    for _ in 0..2 {
        if let Some(Ok(n)) = head.next().map(|t| t.parse::<usize>()) {
            if n > 1_000_000 {
                return false;
            }
        }
    }
    let got = catch_unwind(AssertUnwindSafe(|| SparseMatrix::from_alist(text)));
    let got = match got {
        Ok(g) => g,
        Err(_) => panic!("from_alist panicked on {:?}", text),
    };
    let want = reference_parse(text);
    match (got, want) {
        (Err(msg), None) => {
            assert!(!msg.is_empty(), "empty error message for {:?}", text);
            false
        }
        (Ok(h), Some(m)) => {
            assert_eq!(h.num_rows(), m.nrows, "{:?}", text);
            assert_eq!(h.num_cols(), m.ncols, "{:?}", text);
            assert_eq!(ones_of(&h), m.ones(), "{:?}", text);
            // Stronger than the property: the very same matrix value that
            // inserting entry by entry, in text order, gives.
            let mut built = SparseMatrix::new(m.nrows, m.ncols);
            for (c, col) in m.cols.iter().enumerate() {
                for &r in col {
                    built.insert(r, c);
                }
                assert_eq!(h.iter_col(c).copied().collect::<Vec<_>>(), *col, "{:?}", text);
            }
            assert_eq!(h, built, "{:?}", text);
            // and what was accepted can be written and read again
            let again = SparseMatrix::from_alist(&h.alist()).unwrap();
            assert_eq!(ones_of(&again), m.ones());
            let again = SparseMatrix::from_alist(&h.alist_no_padding()).unwrap();
            assert_eq!(ones_of(&again), m.ones());
            true
        }
        (Ok(_), None) => panic!("accepted a text that must be rejected: {:?}", text),
        (Err(e), Some(_)) => panic!("rejected ({}) a text that must be accepted: {:?}", e, text),
    }
}

// -------------------------------------------------------------- generators

fn random_matrix(rng: &mut Rng, max_rows: usize, max_cols: usize) -> SparseMatrix {
    let nrows = 1 + rng.below(max_rows);
    let ncols = 1 + rng.below(max_cols);
    let mut h = SparseMatrix::new(nrows, ncols);
    let cells = nrows * ncols;
    let target = match rng.below(7) {
        0 => 0,
        1 => 1,
        2 => cells,
        3 => cells / 2,
        4 => cells / 10,
        5 => rng.below(cells + 1),
        _ => (nrows + ncols).min(cells),
    };
    if target == cells {
        // fill in a scrambled order
        let mut order: Vec<usize> = (0..cells).collect();
        for i in (1..cells).rev() {
            order.swap(i, rng.below(i + 1));
        }
        for k in order {
            h.insert(k / ncols, k % ncols);
        }
    } else {
        for _ in 0..target {
            h.insert(rng.below(nrows), rng.below(ncols));
        }
    }
    // some further editing through the other mutators
    for _ in 0..rng.below(4) {
        match rng.below(6) {
            0 => h.remove(rng.below(nrows), rng.below(ncols)),
            1 => h.toggle(rng.below(nrows), rng.below(ncols)),
            2 => h.clear_row(rng.below(nrows)),
            3 => h.clear_col(rng.below(ncols)),
            4 => {
                let v: Vec<usize> = (0..ncols).filter(|_| rng.chance(1, 3)).rev().collect();
                h.set_row(rng.below(nrows), v.iter());
            }
            _ => {
                let v: Vec<usize> = (0..nrows).filter(|_| rng.chance(1, 3)).rev().collect();
                h.set_col(rng.below(ncols), v.iter());
            }
        }
    }
    h
}

const SEPARATORS: &[&str] = &[
    " ", " ", " ", " ", "  ", "\t", "\r", "\u{b}", "\u{c}", "\u{85}", "\u{a0}", "\u{1680}",
    "\u{2000}", "\u{2003}", "\u{200a}", "\u{2028}", "\u{2029}", "\u{202f}", "\u{205f}",
    "\u{3000}", " \t ", "\r",
];
// these look like blanks but are not white space: they glue tokens together
const NON_SEPARATORS: &[&str] = &["\u{1c}", "\u{1f}", "\u{200b}", "\u{feff}", "\u{0}", "\u{180e}", ","];
const NUMBERS: &[&str] = &[
    "0", "0", "1", "1", "2", "3", "4", "5", "6", "7", "+0", "+1", "+2", "+3", "00", "01", "002",
    "0000000000000000000000000000000000000003", "+0000000000000000000000000004", "10", "11",
];
const BAD_TOKENS: &[&str] = &[
    "-1", "-0", "-", "+", "++1", "+-1", "1+", "1-", "1.0", "1e1", "0x1", "1_0", "a", "x1", "1x",
    "١", "１", "²", "१", "18446744073709551615", "18446744073709551616", "+18446744073709551615",
    "99999999999999999999", "340282366920938463463374607431768211455",
    "340282366920938463463374607431768211456", "9223372036854775808", "4294967296",
    "1\u{200b}2", "\u{feff}1", "1,2", "NaN", "inf", "é",
];

fn soup_line(rng: &mut Rng, nrows: usize, badness: usize) -> String {
    let mut s = String::new();
    if rng.chance(1, 4) {
        s += *rng.pick(SEPARATORS);
    }
    for _ in 0..rng.below(6) {
        if rng.chance(badness, 100) {
            match rng.below(3) {
                0 => s += *rng.pick(BAD_TOKENS),
                1 => {
                    // glued tokens
                    s += *rng.pick(NUMBERS);
                    s += *rng.pick(NON_SEPARATORS);
                    s += *rng.pick(NUMBERS);
                }
                _ => s += &(nrows + 1 + rng.below(3)).to_string(),
            }
        } else if rng.chance(1, 2) {
            s += *rng.pick(NUMBERS);
        } else {
            s += &rng.below(nrows + 1).to_string();
        }
        s += *rng.pick(SEPARATORS);
        if rng.chance(1, 5) {
            s += *rng.pick(SEPARATORS);
        }
    }
    if rng.chance(1, 2) {
        s = s.trim_end().to_string();
    }
    s
}

/// A column line that must be accepted for a matrix with `nrows` rows.
fn good_line(rng: &mut Rng, nrows: usize) -> String {
    let mut s = String::new();
    if rng.chance(1, 4) {
        s += *rng.pick(SEPARATORS);
    }
    for _ in 0..rng.below(7) {
        let v = rng.below(nrows + 1);
        match rng.below(5) {
            0 => s += &format!("+{}", v),
            1 => s += &format!("000{}", v),
            _ => s += &v.to_string(),
        }
        s += *rng.pick(SEPARATORS);
    }
    if rng.chance(1, 2) {
        s = s.trim_end().to_string();
    }
    s
}

fn soup(rng: &mut Rng) -> String {
    let ncols = rng.below(7);
    let nrows = rng.below(7);
    let badness = *rng.pick(&[0, 0, 0, 2, 5, 20]);
    let mut s = String::new();
    // header
    if rng.chance(1, 6) {
        s += *rng.pick(SEPARATORS);
    }
    let plus = |rng: &mut Rng, n: usize| {
        if rng.chance(1, 5) {
            format!("+{}", n)
        } else if rng.chance(1, 5) {
            format!("00{}", n)
        } else {
            n.to_string()
        }
    };
    if rng.chance(badness, 200) {
        s += *rng.pick(BAD_TOKENS);
    } else {
        s += &plus(rng, ncols);
    }
    if !rng.chance(badness, 300) {
        s += *rng.pick(SEPARATORS);
        if rng.chance(badness, 200) {
            s += *rng.pick(BAD_TOKENS);
        } else {
            s += &plus(rng, nrows);
        }
    }
    if rng.chance(1, 5) {
        s += *rng.pick(SEPARATORS);
        s += *rng.pick(BAD_TOKENS); // further tokens on the first line are ignored
    }
    // how many further lines: mostly enough, sometimes too few, sometimes more
    let needed = 3 + ncols;
    let nlines = match rng.below(8) {
        0 => rng.below(needed + 1),
        1 => needed + rng.below(4),
        _ => needed,
    };
    for k in 0..nlines {
        s += "\n";
        if k < 3 {
            // the three lines nobody reads
            s += &soup_line(rng, nrows, 50);
        } else if k < needed {
            s += &soup_line(rng, nrows, badness);
        } else {
            s += &soup_line(rng, nrows, 60);
        }
    }
    if rng.chance(1, 2) {
        s += "\n";
    }
    s
}

fn mutate(rng: &mut Rng, valid: &str) -> String {
    let mut lines: Vec<String> = valid.split('\n').map(|l| l.to_string()).collect();
    let nl = lines.len();
    match rng.below(14) {
        0 => {
            // cut anywhere
            let mut cut = rng.below(valid.len() + 1);
            while !valid.is_char_boundary(cut) {
                cut -= 1;
            }
            return valid[..cut].to_string();
        }
        1 => {
            lines.remove(rng.below(nl));
        }
        2 => {
            let k = rng.below(nl);
            let l = lines[k].clone();
            lines.insert(k, l);
        }
        3 => {
            let (a, b) = (rng.below(nl), rng.below(nl));
            lines.swap(a, b);
        }
        4 => {
            // replace one token by something else
            let k = rng.below(nl);
            let mut toks: Vec<String> = lines[k].split(' ').map(|t| t.to_string()).collect();
            let t = rng.below(toks.len());
            toks[t] = match rng.below(4) {
                0 => rng.pick(BAD_TOKENS).to_string(),
                1 => rng.pick(NUMBERS).to_string(),
                2 => rng.below(40).to_string(),
                _ => String::new(),
            };
            lines[k] = toks.join(" ");
        }
        5 => return valid.replace('\n', "\r\n"),
        6 => return valid.replace(' ', *rng.pick(SEPARATORS)),
        7 => return valid.replace(' ', *rng.pick(NON_SEPARATORS)),
        8 => {
            // delete, insert or replace one character
            let chars: Vec<char> = valid.chars().collect();
            let mut out: Vec<char> = chars.clone();
            let pos = rng.below(chars.len());
            let pool: Vec<char> = "0123456789 +-\n\r\t\u{b}x\u{a0}\u{2028}".chars().collect();
            match rng.below(3) {
                0 => {
                    out.remove(pos);
                }
                1 => out.insert(pos, *rng.pick(&pool)),
                _ => out[pos] = *rng.pick(&pool),
            }
            return out.into_iter().collect();
        }
        9 => {
            // swap the two numbers of the header
            let toks: Vec<&str> = lines[0].split(' ').collect();
            if toks.len() == 2 {
                lines[0] = format!("{} {}", toks[1], toks[0]);
            }
        }
        10 => {
            // change a declared dimension by a little
            let toks: Vec<usize> = lines[0].split(' ').filter_map(|t| t.parse().ok()).collect();
            if toks.len() == 2 {
                let d = |rng: &mut Rng, x: usize| match rng.below(3) {
                    0 => x.saturating_sub(1),
                    1 => x + 1,
                    _ => x,
                };
                lines[0] = format!("{} {}", d(rng, toks[0]), d(rng, toks[1]));
            }
        }
        11 => return format!("{}{}", valid, soup_line(rng, 5, 50)),
        12 => return valid.trim_end_matches('\n').to_string(),
        _ => {
            let k = rng.below(nl);
            lines[k] = soup_line(rng, 6, 10);
        }
    }
    lines.join("\n")
}

// ------------------------------------------------------------------- tests

#[test]
fn hand_written_texts() {
    with_timeout(300, || {
        // (text, accepted?)
        let cases: &[(&str, bool)] = &[
            ("", false),
            ("\n", false),
            (" ", false),
            ("1", false),
            ("1 ", false),
            ("x 1", false),
            ("1 x", false),
            ("-1 1", false),
            ("1 -1", false),
            ("1.0 1", false),
            ("0 0", true),
            ("0 0\n", true),
            ("0 7", true),
            ("0 7 trailing garbage is ignored", true),
            ("+0 +7\nthis\nis\nnot\nread\nat all", true),
            ("1 1", false),
            ("1 1\n", false),
            ("1 1\n\n", false),
            ("1 1\n\n\n", false),
            ("1 1\n\n\n\n", true),
            ("1 1\n\n\n\n\n", true),
            ("1 1\n\n\n\n1", true),
            ("1 1\n\n\n\n1\n", true),
            ("1 1\n\n\n\n1\n1\n", true),
            ("1 1\n\n\n\n1\n2\n", true),
            ("1 1\n\n\n\n2\n1\n", false),
            ("1 1\n\n\n\n0\n", true),
            ("1 1\n\n\n\n0 0 0 1 0 1 1 0\n", true),
            ("1 1\n\n\n\n1 1 1 1 1 1 1 1 1 1 1 1 1 1 1 1 1 1 1 1 1 1 1 1 1 1 1 1 1 1 1 1 1 1 1 1 1 1 2\n", false),
            ("1 1\nx\ny\nz\n+1\n", true),
            ("1 1\nx\ny\nz\n-1\n", false),
            ("1 1\nx\ny\nz\n-0\n", false),
            ("1 1\nx\ny\nz\n+\n", false),
            ("1 1\nx\ny\nz\n1 x\n", false),
            ("1 1\nx\ny\nz\nx 1\n", false),
            ("1 0\n\n\n\n\n", true),
            ("1 0\n\n\n\n0\n", true),
            ("1 0\n\n\n\n1\n", false),
            ("2 0\n\n\n\n0\n0 0", true),
            ("2 0\n\n\n\n0", false),
            ("3 2\n9 9\n9 9 9\n9 9\n1\n2\n", true),
            ("3 2\n9 9\n9 9 9\n9 9\n1\n2", false),
            ("3 2\n9 9\n9 9 9\n9 9\n1\n2\n3", false),
            ("3 2\r\n2 2\r\n1 1 1\r\n2 1\r\n1\r\n2\r\n1\r\n1 3\r\n2\r\n", true),
            ("3 2\r2 2\r1 1 1\r2 1\r1\r2\r1\r1 3\r2\r", false),
            ("2 3\n\n\n\n1\u{a0}2\u{2003}3\n\u{3000}3\u{b}1\u{c}", true),
            ("2 3\n\n\n\n1\u{200b}2\n3\n", false),
            ("2 3\n\n\n\n1\u{1c}2\n3\n", false),
            ("2 3\n\n\n\n1\u{1f}2\n3\n", false),
            ("2\u{2028}3\n\n\n\n1\u{2029}2\n3\u{85}1\n", true),
            ("\u{feff}2 3\n\n\n\n1\n3\n", false),
            ("2 3\n\n\n\n１\n3\n", false),
            ("2 3\n\n\n\n18446744073709551615\n3\n", false),
            ("2 3\n\n\n\n18446744073709551616\n3\n", false),
            ("2 3\n\n\n\n0000000000000000000000000000000000000000000002\n3\n", true),
            ("2 3\n\n\n\n0000000000000000000000000000000000000000000004\n3\n", false),
            ("18446744073709551616 3\n", false),
            ("3 18446744073709551616\n", false),
            ("0 0\u{b}\n", true),
            ("\u{b}1\u{b}1\u{b}\n\n\n\n\u{b}1\u{b}\u{b}1\u{b}\n", true),
            ("4 4\n1 1\n1 1 1 1\n1 1 1 1\n1\n2\n3\n4\n1\n2\n3\n4\n", true),
            ("4 4\n1 1\n1 1 1 1\n1 1 1 1\n1\n2\n3\n5\n1\n2\n3\n4\n", false),
            ("4 4\n1 1\n1 1 1 1\n1 1 1 1\n1\n2\n3\n4\n7\n7\n7\n7\n", true),
            ("4 4\n1 1\n1 1 1 1\n1 1 1 1\n1\n2\n3\n4\nrows are not read\n", true),
        ];
        for &(text, accepted) in cases {
            let got = check_text(text);
            assert_eq!(got, accepted, "{:?}", text);
        }
        // the last column line may be the empty remainder after the final '\n'
        let h = SparseMatrix::from_alist("3 2\n\n\n\n1 2\n2 1\n").unwrap();
        assert_eq!(h.num_cols(), 3);
        assert_eq!(h.col_weight(2), 0);
        assert_eq!(h.iter_col(0).copied().collect::<Vec<_>>(), vec![0, 1]);
        assert_eq!(h.iter_col(1).copied().collect::<Vec<_>>(), vec![1, 0]);
        assert_eq!(h.iter_row(0).copied().collect::<Vec<_>>(), vec![0, 1]);
        // a long list with many repetitions, first appearance decides the order
        let mut text = String::from("1 50\n\n\n\n");
        let mut want = Vec::new();
        let mut rng = Rng(5);
        for _ in 0..4000 {
            let v = rng.below(51);
            text += &format!("{} ", v);
            if v != 0 && !want.contains(&(v - 1)) {
                want.push(v - 1);
            }
        }
        assert!(check_text(&text));
        let h = SparseMatrix::from_alist(&text).unwrap();
        assert_eq!(h.iter_col(0).copied().collect::<Vec<_>>(), want);
    });
}

#[test]
fn hand_written_matrices() {
    with_timeout(300, || {
        // degenerate shapes and all-zero matrices
        for (r, c) in [(1, 1), (1, 2), (2, 1), (1, 17), (17, 1), (3, 3), (0, 0), (0, 4), (4, 0), (10, 30)] {
            let h = SparseMatrix::new(r, c);
            check_matrix(&h, false);
            let mut rng = Rng(1);
            check_failing_writers(&h, &mut rng);
            if r > 0 && c > 0 {
                let mut h = SparseMatrix::new(r, c);
                h.insert(r - 1, c - 1);
                check_matrix(&h, false);
                h.insert(0, 0);
                check_matrix(&h, false);
                for i in 0..r {
                    for j in 0..c {
                        h.insert(r - 1 - i, c - 1 - j);
                    }
                }
                check_matrix(&h, false);
                check_failing_writers(&h, &mut rng);
            }
        }
        assert_eq!(SparseMatrix::new(1, 1).alist(), "1 1\n0 0\n0\n0\n0\n0\n");
        assert_eq!(SparseMatrix::new(1, 1).alist_no_padding(), "1 1\n0 0\n0\n0\n\n\n");
        assert_eq!(SparseMatrix::new(2, 3).alist(), "3 2\n0 0\n0 0 0\n0 0\n0\n0\n0\n0\n0\n");
        let mut h = SparseMatrix::new(3, 4);
        h.insert(2, 3);
        h.insert(0, 3);
        h.insert(2, 0);
        h.insert(2, 1);
        assert_eq!(
            h.alist(),
            "4 3\n2 3\n1 1 0 2\n1 0 3\n3 0\n3 0\n0 0\n1 3\n4 0 0\n0 0 0\n1 2 4\n"
        );
        assert_eq!(
            h.alist_no_padding(),
            "4 3\n2 3\n1 1 0 2\n1 0 3\n3\n3\n\n1 3\n4\n\n1 2 4\n"
        );
        check_matrix(&h, false);
        // the documented examples of the format
        let mut h = SparseMatrix::new(4, 12);
        for j in 0..4 {
            h.insert(j, j);
            h.insert(j, j + 4);
            if j < 2 {
                h.insert(j, j + 8);
            }
        }
        check_matrix(&h, false);
    });
}

#[test]
fn random_matrices_round_trip() {
    with_timeout(600, || {
        let mut rng = Rng(0xC08);
        for k in 0..700 {
            let h = if k % 10 == 0 {
                random_matrix(&mut rng, 60, 90)
            } else {
                random_matrix(&mut rng, 9, 14)
            };
            check_matrix(&h, false);
            if k % 7 == 0 {
                check_failing_writers(&h, &mut rng);
            }
        }
    });
}

#[test]
fn large_matrices_and_digit_boundaries() {
    with_timeout(600, || {
        let mut rng = Rng(77);
        // one full row: weights and indices run through 9/10, 99/100, 999/1000
        let mut h = SparseMatrix::new(1, 1203);
        for c in (0..1203).rev() {
            h.insert(0, c);
        }
        check_matrix(&h, false);
        check_failing_writers(&h, &mut rng);
        // one full column
        let mut h = SparseMatrix::new(1100, 1);
        for r in 0..1100 {
            h.insert((r * 7) % 1100, 0);
        }
        check_matrix(&h, false);
        // identity-like with scrambled insertion, past 9999/10000
        let n = 10_050;
        let mut h = SparseMatrix::new(n, n + 3);
        for k in 0..n {
            let r = (k * 7919) % n;
            h.insert(r, r);
            if r % 1000 == 999 {
                h.insert(r, n + 2);
                h.insert(r, 0);
            }
        }
        check_matrix(&h, true);
        // very wide and nearly empty, past 65535/65536 and 99999/100000
        let mut h = SparseMatrix::new(2, 100_003);
        for c in [100_002, 0, 65_534, 65_535, 65_536, 65_537, 99_998, 99_999, 100_000, 9, 10, 70_000] {
            h.insert(1, c);
            if c % 2 == 0 {
                h.insert(0, c);
            }
        }
        check_matrix(&h, true);
        let mut h = SparseMatrix::new(70_001, 3);
        for r in [70_000, 65_535, 65_536, 1, 0, 69_999] {
            h.insert(r, 2);
            h.insert(r, r % 2);
        }
        check_matrix(&h, true);
        check_failing_writers(&h, &mut rng);
        // moderately large and dense enough that the text is hundreds of kB
        let mut h = SparseMatrix::new(300, 700);
        for _ in 0..30_000 {
            h.insert(rng.below(300), rng.below(700));
        }
        check_matrix(&h, false);
        check_failing_writers(&h, &mut rng);
        // an irregular LDPC-like matrix
        let mut h = SparseMatrix::new(500, 1000);
        for c in 0..1000 {
            let w = if c < 100 { 8 } else if c < 600 { 3 } else { 2 };
            for _ in 0..w {
                h.insert(rng.below(500), c);
            }
        }
        h.clear_row(17);
        h.clear_col(999);
        check_matrix(&h, false);
    });
}

#[test]
fn token_soups() {
    with_timeout(600, || {
        let mut rng = Rng(0x50FA);
        let mut accepted = 0;
        let total = 30_000;
        for _ in 0..total {
            if check_text(&soup(&mut rng)) {
                accepted += 1;
            }
        }
        // the generator must hit both outcomes often, or it demonstrates nothing
        assert!(accepted > total / 10, "only {} soups accepted", accepted);
        assert!(total - accepted > total / 10, "only {} soups rejected", total - accepted);
    });
}

#[test]
fn mutated_and_truncated_alists() {
    with_timeout(600, || {
        let mut rng = Rng(0xA115);
        let mut accepted = 0;
        let mut total = 0;
        for k in 0..400 {
            let h = random_matrix(&mut rng, 7, 9);
            let valid = if k % 2 == 0 { h.alist() } else { h.alist_no_padding() };
            // every prefix
            if k % 8 == 0 {
                for cut in 0..=valid.len() {
                    check_text(&valid[..cut]);
                }
            }
            for _ in 0..40 {
                let mut t = mutate(&mut rng, &valid);
                if !t.is_empty() && rng.chance(1, 4) {
                    t = mutate(&mut rng, &t.clone());
                }
                total += 1;
                if check_text(&t) {
                    accepted += 1;
                }
            }
        }
        assert!(accepted > total / 10, "only {} of {} accepted", accepted, total);
        assert!(total - accepted > total / 10, "only {} of {} rejected", total - accepted, total);
        // out-of-range indices, one at a time, in every position of a valid alist
        let mut h = SparseMatrix::new(5, 8);
        for _ in 0..15 {
            h.insert(rng.below(5), rng.below(8));
        }
        let valid = h.alist();
        let lines: Vec<&str> = valid.split('\n').collect();
        for k in 4..4 + 8 {
            let toks: Vec<&str> = lines[k].split(' ').collect();
            for t in 0..toks.len() {
                for (bad, ok) in [("6", false), ("5", true), ("0", true), ("+5", true), ("7", false), ("-1", false)] {
                    let mut toks2 = toks.clone();
                    toks2[t] = bad;
                    let mut lines2: Vec<String> = lines.iter().map(|l| l.to_string()).collect();
                    lines2[k] = toks2.join(" ");
                    assert_eq!(check_text(&lines2.join("\n")), ok);
                }
            }
        }
    });
}

#[test]
fn long_files_with_late_errors() {
    with_timeout(600, || {
        // many columns: a problem in any single column line, or one line too
        // few, must be noticed wherever it is
        let mut rng = Rng(31);
        for &ncols in &[5usize, 8, 9, 16, 17, 33, 64, 100, 257, 1000] {
            let nrows = 1 + rng.below(40);
            let mut lines = vec![format!("{} {}", ncols, nrows), "x".into(), "y".into(), "z".into()];
            for _ in 0..ncols {
                lines.push(good_line(&mut rng, nrows));
            }
            let good = lines.join("\n");
            assert!(check_text(&good), "{:?}", good);
            assert!(check_text(&(good.clone() + "\n")));
            assert!(check_text(&(good.clone() + "\nnot a number")));
            let mut positions: Vec<usize> = vec![0, 1, 2, 3, ncols / 2, ncols - 2, ncols - 1];
            for _ in 0..10 {
                positions.push(rng.below(ncols));
            }
            for &p in &positions {
                let p = p.min(ncols - 1);
                for bad in ["x", "-1", "1 2 3 oops", "99999999999999999999999"] {
                    let mut l = lines.clone();
                    l[4 + p] = bad.to_string();
                    assert!(!check_text(&l.join("\n")));
                }
                let mut l = lines.clone();
                l[4 + p] = format!("{} {}", nrows, nrows + 1);
                assert!(!check_text(&l.join("\n")));
                let mut l = lines.clone();
                l[4 + p] = format!("{} 0 {} +{}", nrows, nrows, nrows);
                assert!(check_text(&l.join("\n")));
                // one line removed: too few lines
                let mut l = lines.clone();
                l.remove(4 + p);
                assert!(!check_text(&l.join("\n")));
                // ... unless the file ends in a line feed (empty last line)
                assert!(check_text(&(l.join("\n") + "\n")));
            }
        }
    });
}

#[test]
fn concurrent_use() {
    with_timeout(600, || {
        // parsing and writing from many threads at once gives the same answers
        let mut handles = Vec::new();
        for t in 0..8u64 {
            handles.push(std::thread::spawn(move || {
                let mut rng = Rng(1000 + t);
                for k in 0..150 {
                    let h = random_matrix(&mut rng, 20, 40);
                    check_matrix(&h, true);
                    for _ in 0..10 {
                        check_text(&soup(&mut rng));
                    }
                    if k % 10 == 0 {
                        let valid = h.alist();
                        for _ in 0..20 {
                            check_text(&mutate(&mut rng, &valid));
                        }
                    }
                }
            }));
        }
        for h in handles {
            h.join().unwrap();
        }
    });
}
