// Demonstration for property C19: "The C interface is a faithful wrapper of
// the Rust encoder and decoder".
//
// The C entry points (`#[no_mangle] extern "C"` functions of the library) are
// called directly through FFI declarations and compared against
//  (a) the Rust encoder / decoders / puncturer of the public API, and
//  (b) small independent models written in this file (puncturing by
//      definition, H * c = 0 for the encoder, regular-language model for the
//      puncturing pattern syntax, ...).

#![allow(clippy::all)]
#![allow(dead_code)]

use ldpc_toolbox::{
    cli::ber::parse_puncturing_pattern,
    decoder::factory::{DecoderFactory, DecoderImplementation},
    encoder::Encoder,
    gf2::GF2,
    simulation::puncturing::Puncturer,
    sparse::SparseMatrix,
};
use ndarray::Array1;
use num_traits::{One, Zero};
use std::ffi::{CString, c_char, c_void};

unsafe extern "C" {
    fn ldpc_toolbox_decoder_ctor(
        alist_file_path: *const c_char,
        implementation: *const c_char,
        puncturing: *const c_char,
    ) -> *mut c_void;
    fn ldpc_toolbox_decoder_ctor_alist_string(
        alist: *const c_char,
        implementation: *const c_char,
        puncturing: *const c_char,
    ) -> *mut c_void;
    fn ldpc_toolbox_decoder_dtor(decoder: *mut c_void);
    fn ldpc_toolbox_decoder_decode_f64(
        decoder: *mut c_void,
        output: *mut u8,
        output_len: usize,
        llrs: *const f64,
        llrs_len: usize,
        max_iterations: u32,
    ) -> i32;
    fn ldpc_toolbox_decoder_decode_f32(
        decoder: *mut c_void,
        output: *mut u8,
        output_len: usize,
        llrs: *const f32,
        llrs_len: usize,
        max_iterations: u32,
    ) -> i32;
    fn ldpc_toolbox_encoder_ctor(
        alist_file_path: *const c_char,
        puncturing: *const c_char,
    ) -> *mut c_void;
    fn ldpc_toolbox_encoder_ctor_alist_string(
        alist: *const c_char,
        puncturing: *const c_char,
    ) -> *mut c_void;
    fn ldpc_toolbox_encoder_dtor(encoder: *mut c_void);
    fn ldpc_toolbox_encoder_encode(
        encoder: *mut c_void,
        output: *mut u8,
        output_len: usize,
        input: *const u8,
        input_len: usize,
    );
}

// ---------------------------------------------------------------------------
// Watchdog: the whole test binary is killed if it runs for too long.
// ---------------------------------------------------------------------------

fn watchdog() {
    static ONCE: std::sync::Once = std::sync::Once::new();
    ONCE.call_once(|| {
        std::thread::spawn(|| {
            std::thread::sleep(std::time::Duration::from_secs(900));
            eprintln!("seeded_demo: watchdog timeout");
            std::process::exit(3);
        });
    });
}

// ---------------------------------------------------------------------------
// Safe wrappers of the C interface
// ---------------------------------------------------------------------------

fn cstr(bytes: &[u8]) -> CString {
    CString::new(bytes.to_vec()).expect("no interior NUL in test strings")
}

struct CDecoder(*mut c_void);

impl CDecoder {
    fn from_string(alist: &[u8], imp: &[u8], punct: &[u8]) -> Option<CDecoder> {
        let (a, i, p) = (cstr(alist), cstr(imp), cstr(punct));
        let h = unsafe {
            ldpc_toolbox_decoder_ctor_alist_string(a.as_ptr(), i.as_ptr(), p.as_ptr())
        };
        if h.is_null() { None } else { Some(CDecoder(h)) }
    }

    fn from_file(path: &[u8], imp: &[u8], punct: &[u8]) -> Option<CDecoder> {
        let (a, i, p) = (cstr(path), cstr(imp), cstr(punct));
        let h = unsafe { ldpc_toolbox_decoder_ctor(a.as_ptr(), i.as_ptr(), p.as_ptr()) };
        if h.is_null() { None } else { Some(CDecoder(h)) }
    }

    fn decode_f64(&mut self, out_len: usize, llrs: &[f64], max_iter: u32) -> (i32, Vec<u8>) {
        // one guard byte after the output which must not be touched
        let mut out = vec![0xa5u8; out_len + 1];
        let r = unsafe {
            ldpc_toolbox_decoder_decode_f64(
                self.0,
                out.as_mut_ptr(),
                out_len,
                llrs.as_ptr(),
                llrs.len(),
                max_iter,
            )
        };
        assert_eq!(out[out_len], 0xa5, "decoder wrote past the output buffer");
        out.truncate(out_len);
        (r, out)
    }

    fn decode_f32(&mut self, out_len: usize, llrs: &[f32], max_iter: u32) -> (i32, Vec<u8>) {
        let mut out = vec![0xa5u8; out_len + 1];
        let r = unsafe {
            ldpc_toolbox_decoder_decode_f32(
                self.0,
                out.as_mut_ptr(),
                out_len,
                llrs.as_ptr(),
                llrs.len(),
                max_iter,
            )
        };
        assert_eq!(out[out_len], 0xa5, "decoder wrote past the output buffer");
        out.truncate(out_len);
        (r, out)
    }
}

impl Drop for CDecoder {
    fn drop(&mut self) {
        unsafe { ldpc_toolbox_decoder_dtor(self.0) }
    }
}

struct CEncoder(*mut c_void);

impl CEncoder {
    fn from_string(alist: &[u8], punct: &[u8]) -> Option<CEncoder> {
        let (a, p) = (cstr(alist), cstr(punct));
        let h = unsafe { ldpc_toolbox_encoder_ctor_alist_string(a.as_ptr(), p.as_ptr()) };
        if h.is_null() { None } else { Some(CEncoder(h)) }
    }

    fn from_file(path: &[u8], punct: &[u8]) -> Option<CEncoder> {
        let (a, p) = (cstr(path), cstr(punct));
        let h = unsafe { ldpc_toolbox_encoder_ctor(a.as_ptr(), p.as_ptr()) };
        if h.is_null() { None } else { Some(CEncoder(h)) }
    }

    fn encode(&mut self, out_len: usize, input: &[u8]) -> Vec<u8> {
        let mut out = vec![0xa5u8; out_len + 1];
        unsafe {
            ldpc_toolbox_encoder_encode(
                self.0,
                out.as_mut_ptr(),
                out_len,
                input.as_ptr(),
                input.len(),
            )
        };
        assert_eq!(out[out_len], 0xa5, "encoder wrote past the output buffer");
        out.truncate(out_len);
        out
    }
}

impl Drop for CEncoder {
    fn drop(&mut self) {
        unsafe { ldpc_toolbox_encoder_dtor(self.0) }
    }
}

// ---------------------------------------------------------------------------
// Deterministic pseudo random numbers (splitmix64)
// ---------------------------------------------------------------------------

struct Rng(u64);

impl Rng {
    fn next(&mut self) -> u64 {
        self.0 = self.0.wrapping_add(0x9e37_79b9_7f4a_7c15);
        let mut z = self.0;
        z = (z ^ (z >> 30)).wrapping_mul(0xbf58_476d_1ce4_e5b9);
        z = (z ^ (z >> 27)).wrapping_mul(0x94d0_49bb_1331_11eb);
        z ^ (z >> 31)
    }
    fn below(&mut self, n: usize) -> usize {
        (self.next() % (n as u64)) as usize
    }
    fn bit(&mut self) -> bool {
        self.next() & 1 == 1
    }
    fn unit(&mut self) -> f64 {
        (self.next() >> 11) as f64 / (1u64 << 53) as f64
    }
    // crude zero-mean noise (sum of uniforms)
    fn noise(&mut self) -> f64 {
        let mut s = 0.0;
        for _ in 0..6 {
            s += self.unit() - 0.5;
        }
        s * 1.4142
    }
}

// ---------------------------------------------------------------------------
// Independent models
// ---------------------------------------------------------------------------

const ALL_IMPLEMENTATIONS: [&str; 36] = [
    "Phif64",
    "Phif32",
    "Tanhf64",
    "Tanhf32",
    "Minstarapproxf64",
    "Minstarapproxf32",
    "Minstarapproxi8",
    "Minstarapproxi8Jones",
    "Minstarapproxi8PartialHardLimit",
    "Minstarapproxi8JonesPartialHardLimit",
    "Minstarapproxi8Deg1Clip",
    "Minstarapproxi8JonesDeg1Clip",
    "Minstarapproxi8PartialHardLimitDeg1Clip",
    "Minstarapproxi8JonesPartialHardLimitDeg1Clip",
    "Aminstarf64",
    "Aminstarf32",
    "Aminstari8",
    "Aminstari8Jones",
    "Aminstari8PartialHardLimit",
    "Aminstari8JonesPartialHardLimit",
    "Aminstari8Deg1Clip",
    "Aminstari8JonesDeg1Clip",
    "Aminstari8PartialHardLimitDeg1Clip",
    "Aminstari8JonesPartialHardLimitDeg1Clip",
    "HLPhif64",
    "HLPhif32",
    "HLTanhf64",
    "HLTanhf32",
    "HLMinstarapproxf64",
    "HLMinstarapproxf32",
    "HLMinstarapproxi8",
    "HLMinstarapproxi8PartialHardLimit",
    "HLAminstarf64",
    "HLAminstarf32",
    "HLAminstari8",
    "HLAminstari8PartialHardLimit",
];

/// The language of puncturing patterns: `[01](,[01])*`.
fn model_parse_pattern(s: &[u8]) -> Option<Vec<bool>> {
    if s.len() % 2 == 0 {
        return None;
    }
    let mut v = Vec::new();
    for (j, &b) in s.iter().enumerate() {
        if j % 2 == 0 {
            match b {
                b'0' => v.push(false),
                b'1' => v.push(true),
                _ => return None,
            }
        } else if b != b',' {
            return None;
        }
    }
    Some(v)
}

/// Puncturing by definition: the word is cut into pattern.len() equal blocks
/// and the blocks whose pattern entry is false are dropped.
fn model_puncture<T: Clone>(pattern: &[bool], word: &[T]) -> Option<Vec<T>> {
    if word.len() % pattern.len() != 0 {
        return None;
    }
    let b = word.len() / pattern.len();
    let mut out = Vec::new();
    for (j, x) in word.iter().enumerate() {
        if pattern[j / b] {
            out.push(x.clone());
        }
    }
    Some(out)
}

/// Depuncturing by definition (erasures are zeros).
fn model_depuncture<T: Clone + Default>(pattern: &[bool], rx: &[T]) -> Option<Vec<T>> {
    let trues = pattern.iter().filter(|&&b| b).count();
    assert!(trues > 0);
    if rx.len() % trues != 0 {
        return None;
    }
    let b = rx.len() / trues;
    let mut it = rx.iter();
    let mut out = Vec::new();
    for &keep in pattern {
        for _ in 0..b {
            if keep {
                out.push(it.next().unwrap().clone());
            } else {
                out.push(T::default());
            }
        }
    }
    assert!(it.next().is_none());
    Some(out)
}

fn to_gf2(bytes: &[u8]) -> Array1<GF2> {
    Array1::from_iter(
        bytes
            .iter()
            .map(|&b| if b == 1 { GF2::one() } else { GF2::zero() }),
    )
}

fn from_gf2(word: &Array1<GF2>) -> Vec<u8> {
    word.iter().map(|x| if x.is_one() { 1 } else { 0 }).collect()
}

/// Dense 0/1 copy of a sparse matrix.
fn dense(h: &SparseMatrix) -> Vec<Vec<u8>> {
    let mut d = vec![vec![0u8; h.num_cols()]; h.num_rows()];
    for (r, c) in h.iter_all() {
        d[r][c] = 1;
    }
    d
}

/// Independent systematic encoder: solves H1 p = H0 m by Gaussian elimination
/// on bytes. Returns None if H1 (the last num_rows columns) is singular.
fn model_encode(h: &SparseMatrix, message: &[u8]) -> Option<Vec<u8>> {
    let r = h.num_rows();
    let n = h.num_cols();
    let k = n - r;
    assert_eq!(message.len(), k);
    let d = dense(h);
    // augmented system [H1 | s], s = H0 m
    let mut a = vec![vec![0u8; r + 1]; r];
    for j in 0..r {
        for t in 0..r {
            a[j][t] = d[j][k + t];
        }
        let mut s = 0;
        for t in 0..k {
            s ^= d[j][t] & message[t];
        }
        a[j][r] = s;
    }
    for col in 0..r {
        let piv = (col..r).find(|&j| a[j][col] == 1)?;
        a.swap(col, piv);
        for j in 0..r {
            if j != col && a[j][col] == 1 {
                for t in 0..=r {
                    let x = a[col][t];
                    a[j][t] ^= x;
                }
            }
        }
    }
    let mut cw = message.to_vec();
    for j in 0..r {
        cw.push(a[j][r]);
    }
    Some(cw)
}

fn syndrome_is_zero(h: &SparseMatrix, word: &[u8]) -> bool {
    (0..h.num_rows()).all(|r| h.iter_row(r).fold(0u8, |acc, &c| acc ^ word[c]) == 0)
}

// ---------------------------------------------------------------------------
// Code generators
// ---------------------------------------------------------------------------

/// Random code whose last `rows` columns form an invertible matrix which is
/// not of staircase type (unless by coincidence).
fn random_dense_code(rng: &mut Rng, rows: usize, cols: usize) -> SparseMatrix {
    let k = cols - rows;
    // H1: identity scrambled by random row additions
    let mut h1 = vec![vec![0u8; rows]; rows];
    for j in 0..rows {
        h1[j][j] = 1;
    }
    for _ in 0..(3 * rows) {
        let a = rng.below(rows);
        let b = rng.below(rows);
        if a != b {
            for t in 0..rows {
                let x = h1[a][t];
                h1[b][t] ^= x;
            }
        }
    }
    let mut h = SparseMatrix::new(rows, cols);
    for j in 0..rows {
        for t in 0..rows {
            if h1[j][t] == 1 {
                h.insert(j, k + t);
            }
        }
    }
    // H0: every column gets at least one entry, every row at least one
    for c in 0..k {
        let w = 1 + rng.below(3.min(rows));
        for _ in 0..w {
            let r = rng.below(rows);
            if !h.contains(r, c) {
                h.insert(r, c);
            }
        }
    }
    if k > 0 {
        for r in 0..rows {
            if (0..k).all(|c| !h.contains(r, c)) {
                h.insert(r, rng.below(k));
            }
        }
    }
    h
}

/// Random staircase (repeat-accumulate) code.
fn random_staircase_code(rng: &mut Rng, rows: usize, cols: usize) -> SparseMatrix {
    let k = cols - rows;
    let mut h = SparseMatrix::new(rows, cols);
    for j in 0..rows {
        h.insert(j, k + j);
        if j > 0 {
            h.insert(j, k + j - 1);
        }
    }
    for c in 0..k {
        let w = 1 + rng.below(3.min(rows));
        for _ in 0..w {
            let r = rng.below(rows);
            if !h.contains(r, c) {
                h.insert(r, c);
            }
        }
    }
    h
}

/// Code whose last columns are singular (two equal rows in H1, or a zero row).
fn random_singular_code(rng: &mut Rng, rows: usize, cols: usize) -> SparseMatrix {
    assert!(rows >= 2);
    let good = random_dense_code(rng, rows, cols);
    let k = cols - rows;
    let d = dense(&good);
    let mut h = SparseMatrix::new(rows, cols);
    let a = rng.below(rows);
    let mut b = rng.below(rows);
    if a == b {
        b = (a + 1) % rows;
    }
    let zero_row = rng.bit();
    for j in 0..rows {
        for c in 0..cols {
            let v = if c >= k && j == b {
                if zero_row { 0 } else { d[a][c] }
            } else {
                d[j][c]
            };
            if v == 1 {
                h.insert(j, c);
            }
        }
    }
    h
}

// ---------------------------------------------------------------------------
// Temporary files
// ---------------------------------------------------------------------------

struct TempDir(std::path::PathBuf);

impl TempDir {
    fn new(tag: &str) -> TempDir {
        let mut p = std::env::temp_dir();
        p.push(format!("ldpc_c19_demo_{}_{}", tag, std::process::id()));
        let _ = std::fs::remove_dir_all(&p);
        std::fs::create_dir_all(&p).unwrap();
        TempDir(p)
    }
    fn file(&self, name: &str, contents: &[u8]) -> Vec<u8> {
        let mut p = self.0.clone();
        p.push(name);
        std::fs::write(&p, contents).unwrap();
        p.to_str().unwrap().as_bytes().to_vec()
    }
    fn path(&self, name: &str) -> Vec<u8> {
        let mut p = self.0.clone();
        p.push(name);
        p.to_str().unwrap().as_bytes().to_vec()
    }
}

impl Drop for TempDir {
    fn drop(&mut self) {
        let _ = std::fs::remove_dir_all(&self.0);
    }
}

// ---------------------------------------------------------------------------
// Reference computations with the Rust API
// ---------------------------------------------------------------------------

/// What the C decoder must return: (return code, whole decoded word).
fn rust_decode(
    h: &SparseMatrix,
    imp: &str,
    pattern: Option<&[bool]>,
    llrs: &[f64],
    max_iter: u32,
) -> (i32, Vec<u8>) {
    let imp: DecoderImplementation = imp.parse().unwrap();
    let mut dec = imp.build_decoder(h.clone());
    let full = match pattern {
        Some(p) => model_depuncture(p, llrs).unwrap(),
        None => llrs.to_vec(),
    };
    match dec.decode(&full, max_iter as usize) {
        Ok(o) => (o.iterations as i32, o.codeword),
        Err(o) => (-1, o.codeword),
    }
}

fn make_llrs(rng: &mut Rng, codeword: &[u8], kind: usize) -> Vec<f64> {
    let mut v: Vec<f64> = codeword
        .iter()
        .map(|&b| if b == 1 { -1.0 } else { 1.0 })
        .collect();
    match kind {
        // clean
        0 => {
            for x in v.iter_mut() {
                *x *= 1.3863;
            }
        }
        // mild noise
        1 => {
            for x in v.iter_mut() {
                *x = 2.0 * (*x + 0.6 * rng.noise());
            }
        }
        // heavy noise
        2 => {
            for x in v.iter_mut() {
                *x = 2.0 * (*x + 1.3 * rng.noise());
            }
        }
        // one or two sign flips, mixed magnitudes
        3 => {
            for x in v.iter_mut() {
                *x *= 0.25 + 8.0 * rng.unit();
            }
            let n = v.len();
            let j = rng.below(n);
            v[j] = -v[j];
            if rng.bit() {
                let j = rng.below(n);
                v[j] = -v[j];
            }
        }
        // erasures, large values, negative zero, subnormals
        // (no infinities or NaN: some of the Rust decoders panic on NaN
        // messages, which through the C interface would abort the process)
        4 => {
            for x in v.iter_mut() {
                *x = match rng.below(6) {
                    0 => 0.0,
                    1 => -0.0,
                    2 => *x * 1e4,
                    3 => *x * 1e-310,
                    _ => *x * 3.0,
                };
            }
        }
        // pure garbage
        _ => {
            for x in v.iter_mut() {
                *x = 20.0 * rng.noise();
            }
        }
    }
    v
}

struct TestCode {
    h: SparseMatrix,
    alist: String,
    staircase: bool,
}

fn test_codes() -> Vec<TestCode> {
    let mut rng = Rng(0xc19);
    let mut v = Vec::new();
    for &(rows, cols, stair) in &[
        (6usize, 12usize, false),
        (4, 12, true),
        (5, 10, false),
        (8, 24, true),
        (9, 12, false),
        (12, 24, false),
    ] {
        let h = if stair {
            random_staircase_code(&mut rng, rows, cols)
        } else {
            random_dense_code(&mut rng, rows, cols)
        };
        // alternate between the padded and the unpadded alist flavours
        let alist = if v.len() % 2 == 0 {
            h.alist()
        } else {
            h.alist_no_padding()
        };
        // The reference is the matrix as parsed from the text (the order of
        // the entries inside the sparse matrix matters for the floating
        // point decoders).
        let parsed = SparseMatrix::from_alist(&alist).unwrap();
        assert_eq!(dense(&parsed), dense(&h));
        let h = parsed;
        v.push(TestCode {
            h,
            alist,
            staircase: stair,
        });
    }
    v
}

const PATTERNS: [&str; 12] = [
    "",
    "1",
    "1,1",
    "1,0",
    "0,1",
    "1,1,0",
    "0,1,1",
    "1,0,1,1",
    "1,1,1,1,0,1",
    "0,1,0,0,1,0",
    "1,1,1,1,0",
    "0,0,1,0,0",
];

fn pattern_of(s: &str) -> Option<Vec<bool>> {
    if s.is_empty() {
        None
    } else {
        Some(model_parse_pattern(s.as_bytes()).unwrap())
    }
}

// ---------------------------------------------------------------------------
// Tests common to all demonstrations
// ---------------------------------------------------------------------------

#[test]
fn c_decoder_matches_rust_decoder() {
    watchdog();
    let mut rng = Rng(1);
    let codes = test_codes();
    let dir = TempDir::new("dec");
    let mut checked = 0usize;
    let mut outcomes = [0usize; 3]; // failures, zero iterations, some iterations
    for (ci, code) in codes.iter().enumerate() {
        let n = code.h.num_cols();
        let k = n - code.h.num_rows();
        let enc = Encoder::from_h(&code.h).unwrap();
        let path = dir.file(&format!("code{ci}.alist"), code.alist.as_bytes());
        for (ii, imp) in ALL_IMPLEMENTATIONS.iter().enumerate() {
            for (pi, pat) in PATTERNS.iter().enumerate() {
                let pattern = pattern_of(pat);
                if let Some(p) = &pattern {
                    if n % p.len() != 0 {
                        continue;
                    }
                }
                // spread the (expensive) full product thinly but
                // deterministically
                if (ci + ii + pi) % 3 != 0 && pi > 1 {
                    continue;
                }
                let from_file = (ci + ii + pi) % 2 == 0;
                let mut dec = if from_file {
                    CDecoder::from_file(&path, imp.as_bytes(), pat.as_bytes())
                } else {
                    CDecoder::from_string(code.alist.as_bytes(), imp.as_bytes(), pat.as_bytes())
                }
                .unwrap_or_else(|| panic!("constructor returned null for {imp} {pat:?}"));
                // a second handle on the same code which is used interleaved
                let mut dec2 =
                    CDecoder::from_string(code.alist.as_bytes(), imp.as_bytes(), pat.as_bytes())
                        .unwrap();
                let mut history: Vec<(Vec<f64>, u32, (i32, Vec<u8>))> = Vec::new();
                for kind in 0..6 {
                    let msg: Vec<u8> = (0..k).map(|_| rng.bit() as u8).collect();
                    let cw = from_gf2(&enc.encode(&to_gf2(&msg)));
                    let full = make_llrs(&mut rng, &cw, kind);
                    let rx = match &pattern {
                        Some(p) => model_puncture(p, &full).unwrap(),
                        None => full.clone(),
                    };
                    let max_iter = [0u32, 1, 2, 7, 25, 60][rng.below(6)];
                    let expected = rust_decode(&code.h, imp, pattern.as_deref(), &rx, max_iter);
                    assert!(expected.0 == -1 || (0..=max_iter as i32).contains(&expected.0));
                    match expected.0 {
                        -1 => outcomes[0] += 1,
                        0 => outcomes[1] += 1,
                        _ => outcomes[2] += 1,
                    }
                    assert_eq!(expected.1.len(), n);
                    for out_len in [n, k, 0, 1, n - 1] {
                        let got = dec.decode_f64(out_len, &rx, max_iter);
                        assert_eq!(got.0, expected.0, "{imp} {pat:?} kind {kind}");
                        assert_eq!(&got.1[..], &expected.1[..out_len], "{imp} {pat:?}");
                        checked += 1;
                    }
                    let got2 = dec2.decode_f64(n, &rx, max_iter);
                    assert_eq!(got2, expected);
                    history.push((rx, max_iter, expected));
                }
                // replay in another order: the calls are independent of
                // each other
                for idx in [3usize, 0, 5, 5, 1, 4, 2, 0] {
                    let (rx, max_iter, expected) = &history[idx];
                    assert_eq!(&dec.decode_f64(n, rx, *max_iter), expected);
                    assert_eq!(&dec2.decode_f64(n, rx, *max_iter), expected);
                }
                // f32 entry point: behaves as the f64 widening of the input
                for kind in 0..6 {
                    let msg: Vec<u8> = (0..k).map(|_| rng.bit() as u8).collect();
                    let cw = from_gf2(&enc.encode(&to_gf2(&msg)));
                    let full = make_llrs(&mut rng, &cw, kind);
                    let rx64 = match &pattern {
                        Some(p) => model_puncture(p, &full).unwrap(),
                        None => full,
                    };
                    let rx32: Vec<f32> = rx64.iter().map(|&x| x as f32).collect();
                    let widened: Vec<f64> = rx32.iter().map(|&x| f64::from(x)).collect();
                    let max_iter = [0u32, 1, 3, 30][rng.below(4)];
                    let expected =
                        rust_decode(&code.h, imp, pattern.as_deref(), &widened, max_iter);
                    let out_len = [n, k][rng.below(2)];
                    let got = dec.decode_f32(out_len, &rx32, max_iter);
                    assert_eq!(got.0, expected.0);
                    assert_eq!(&got.1[..], &expected.1[..out_len]);
                    // and the f64 entry point on the widened values agrees
                    let got = dec.decode_f64(out_len, &widened, max_iter);
                    assert_eq!(got.0, expected.0);
                    assert_eq!(&got.1[..], &expected.1[..out_len]);
                    checked += 2;
                }
            }
        }
    }
    assert!(checked > 10_000);
    // all the kinds of outcome have been seen many times
    assert!(outcomes.iter().all(|&c| c > 300), "{outcomes:?}");
}

#[test]
fn c_decoder_special_values() {
    watchdog();
    // unusual finite values go through the C interface unchanged
    let mut rng = Rng(77);
    let codes = test_codes();
    let code = &codes[0];
    let n = code.h.num_cols();
    for imp in ALL_IMPLEMENTATIONS.iter() {
        for pat in ["", "1,1,0", "0,1"] {
            let pattern = pattern_of(pat);
            let mut dec =
                CDecoder::from_string(code.alist.as_bytes(), imp.as_bytes(), pat.as_bytes())
                    .unwrap();
            let rx_len = match &pattern {
                Some(p) => n / p.len() * p.iter().filter(|&&b| b).count(),
                None => n,
            };
            for _ in 0..6 {
                let rx: Vec<f64> = (0..rx_len)
                    .map(|_| match rng.below(8) {
                        0 => -0.0,
                        1 => 1.0e5,
                        2 => -1.0e5,
                        3 => 5e-324,
                        4 => f64::MIN_POSITIVE,
                        5 => 0.1 + 0.2, // not representable in f32
                        _ => 4.0 * rng.noise(),
                    })
                    .collect();
                let expected = rust_decode(&code.h, imp, pattern.as_deref(), &rx, 5);
                assert_eq!(dec.decode_f64(n, &rx, 5), expected);
                let rx32: Vec<f32> = rx.iter().map(|&x| x as f32).collect();
                let widened: Vec<f64> = rx32.iter().map(|&x| f64::from(x)).collect();
                let expected = rust_decode(&code.h, imp, pattern.as_deref(), &widened, 5);
                assert_eq!(dec.decode_f32(n, &rx32, 5), expected);
            }
        }
    }
}

#[test]
fn c_encoder_matches_rust_encoder() {
    watchdog();
    let mut rng = Rng(2);
    let codes = test_codes();
    let dir = TempDir::new("enc");
    let mut checked = 0usize;
    for (ci, code) in codes.iter().enumerate() {
        let n = code.h.num_cols();
        let k = n - code.h.num_rows();
        let enc = Encoder::from_h(&code.h).unwrap();
        let path = dir.file(&format!("code{ci}.alist"), code.alist.as_bytes());
        let extra = ["0", "0,0", "0,0,0"];
        for (pi, pat) in PATTERNS.iter().chain(extra.iter()).enumerate() {
            let pattern = pattern_of(pat);
            if let Some(p) = &pattern {
                if n % p.len() != 0 {
                    continue;
                }
            }
            let mut c_enc = if (ci + pi) % 2 == 0 {
                CEncoder::from_file(&path, pat.as_bytes())
            } else {
                CEncoder::from_string(code.alist.as_bytes(), pat.as_bytes())
            }
            .unwrap();
            let mut c_enc2 = CEncoder::from_string(code.alist.as_bytes(), pat.as_bytes()).unwrap();
            let mut history = Vec::new();
            for t in 0..24 {
                let msg: Vec<u8> = (0..k)
                    .map(|_| match t {
                        0 => 0,
                        1 => 1,
                        // bytes other than 1 all mean "zero"
                        2 | 3 => [0u8, 1, 2, 255, 0x81, 3][rng.below(6)],
                        _ => rng.bit() as u8,
                    })
                    .collect();
                let normalised: Vec<u8> = msg.iter().map(|&b| (b == 1) as u8).collect();
                let cw = from_gf2(&enc.encode(&to_gf2(&msg)));
                // the Rust encoder is systematic and produces codewords
                assert_eq!(cw.len(), n);
                assert_eq!(&cw[..k], &normalised[..]);
                assert!(syndrome_is_zero(&code.h, &cw));
                assert_eq!(Some(&cw), model_encode(&code.h, &normalised).as_ref());
                let expected = match &pattern {
                    Some(p) => {
                        let e = model_puncture(p, &cw).unwrap();
                        // the Rust puncturer agrees with the model
                        let r = Puncturer::new(p).puncture(&Array1::from(cw.clone())).unwrap();
                        assert_eq!(r.to_vec(), e);
                        e
                    }
                    None => cw.clone(),
                };
                let got = c_enc.encode(expected.len(), &msg);
                assert_eq!(got, expected, "code {ci} pattern {pat:?}");
                assert_eq!(c_enc2.encode(expected.len(), &msg), expected);
                history.push((msg, expected));
                checked += 1;
            }
            for idx in [5usize, 0, 1, 1, 23, 7, 0, 12] {
                let (msg, expected) = &history[idx];
                assert_eq!(&c_enc.encode(expected.len(), msg), expected);
                assert_eq!(&c_enc2.encode(expected.len(), msg), expected);
            }
        }
    }
    assert!(checked > 1000);
}

const BAD_ALISTS: [&str; 12] = [
    "",
    "\n",
    "abc",
    "12",
    "12 x\n",
    "x 4\n",
    "-3 2\n",
    "4 2\n2 2\n",
    "4 2\n1 2\n1 1 1 1\n2 2\n1\n2\n1",
    "4 2\n1 2\n1 1 1 1\n2 2\n1\n2\n1\n3\n1 3\n2 4\n",
    "4 2\n1 2\n1 1 1 1\n2 2\n1\n2\nfoo\n2\n1 3\n2 4\n",
    "4 2\n1 2\n1 1 1 1\n2 2\n1\n2\n1\n-2\n1 3\n2 4\n",
];

const BAD_IMPLEMENTATIONS: [&str; 22] = [
    "",
    " ",
    "phif64",
    "PHIF64",
    "Phif64 ",
    " Phif64",
    "Phif64\n",
    "Phif",
    "Phif6",
    "Phif640",
    "Phif16",
    "Phii8",
    "Tanhi8",
    "HLPhii8",
    "HL",
    "HLHLPhif64",
    "HLAminstari8Jones",
    "HLMinstarapproxi8Deg1Clip",
    "Aminstari8Deg1ClipJones",
    "Aminstari8PartialHardLimitJones",
    "Aminstarf64Jones",
    "Minstarapproxi8JonesJones",
];

const BAD_PATTERNS: [&str; 20] = [
    ",", "1,", ",1", "1,,0", "2", "1,2", "1, 0", " 1", "1 ", "1,0,", "01", "10", "true", "1;0",
    "1.0", "1,0\n", "\n", "+1", "1,-0", "１",
];

#[test]
fn constructors_reject_bad_arguments() {
    watchdog();
    let codes = test_codes();
    let good = &codes[0];
    let dir = TempDir::new("ctor");
    let good_path = dir.file("good.alist", good.alist.as_bytes());
    let missing = dir.path("does_not_exist.alist");
    let directory = dir.0.to_str().unwrap().as_bytes().to_vec();

    // sanity: the good arguments are accepted
    assert!(CDecoder::from_string(good.alist.as_bytes(), b"Phif64", b"").is_some());
    assert!(CDecoder::from_file(&good_path, b"Phif64", b"1,1,0").is_some());
    assert!(CEncoder::from_string(good.alist.as_bytes(), b"").is_some());
    assert!(CEncoder::from_file(&good_path, b"1,0").is_some());

    // malformed alist text
    for (j, bad) in BAD_ALISTS.iter().enumerate() {
        assert!(SparseMatrix::from_alist(bad).is_err(), "bad alist {j}");
        assert!(CDecoder::from_string(bad.as_bytes(), b"Phif64", b"").is_none());
        assert!(CDecoder::from_string(bad.as_bytes(), b"HLAminstari8", b"1,0").is_none());
        assert!(CEncoder::from_string(bad.as_bytes(), b"").is_none());
        assert!(CEncoder::from_string(bad.as_bytes(), b"1,1").is_none());
        let p = dir.file(&format!("bad{j}.alist"), bad.as_bytes());
        assert!(CDecoder::from_file(&p, b"Phif64", b"").is_none());
        assert!(CEncoder::from_file(&p, b"").is_none());
    }
    // alist which is not UTF-8
    let mut non_utf8 = good.alist.as_bytes().to_vec();
    non_utf8[0] = 0xff;
    assert!(CDecoder::from_string(&non_utf8, b"Phif64", b"").is_none());
    assert!(CEncoder::from_string(&non_utf8, b"").is_none());

    // unknown implementation names
    for bad in BAD_IMPLEMENTATIONS.iter() {
        assert!(bad.parse::<DecoderImplementation>().is_err(), "{bad:?}");
        assert!(CDecoder::from_string(good.alist.as_bytes(), bad.as_bytes(), b"").is_none());
        assert!(CDecoder::from_string(good.alist.as_bytes(), bad.as_bytes(), b"1,1").is_none());
        assert!(CDecoder::from_file(&good_path, bad.as_bytes(), b"").is_none());
    }
    for bad in [&b"Phif64\xff"[..], b"\xffPhif64", b"Phi\xc3\xa9f64", b"\xc0\xafPhif64"] {
        assert!(CDecoder::from_string(good.alist.as_bytes(), bad, b"").is_none());
        assert!(CDecoder::from_file(&good_path, bad, b"").is_none());
    }

    // malformed puncturing patterns
    for bad in BAD_PATTERNS.iter() {
        assert!(parse_puncturing_pattern(bad).is_err(), "{bad:?}");
        assert!(
            CDecoder::from_string(good.alist.as_bytes(), b"Phif64", bad.as_bytes()).is_none(),
            "{bad:?}"
        );
        assert!(CDecoder::from_file(&good_path, b"Tanhf32", bad.as_bytes()).is_none());
        assert!(CEncoder::from_string(good.alist.as_bytes(), bad.as_bytes()).is_none());
        assert!(CEncoder::from_file(&good_path, bad.as_bytes()).is_none());
    }
    for bad in [&b"1,0\xff"[..], b"\xff", b"1\xff0", b"1,\xc3\xa9"] {
        assert!(CDecoder::from_string(good.alist.as_bytes(), b"Phif64", bad).is_none());
        assert!(CEncoder::from_string(good.alist.as_bytes(), bad).is_none());
    }

    // unreadable files
    for p in [&missing[..], &directory[..], b"", b"/", b"\xff\xfe/nowhere"] {
        assert!(CDecoder::from_file(p, b"Phif64", b"").is_none());
        assert!(CDecoder::from_file(p, b"Phif64", b"1,1").is_none());
        assert!(CEncoder::from_file(p, b"").is_none());
        assert!(CEncoder::from_file(p, b"1,1").is_none());
    }
    // a file which is not UTF-8
    let p = dir.file("latin1.alist", &non_utf8);
    assert!(CDecoder::from_file(&p, b"Phif64", b"").is_none());
    assert!(CEncoder::from_file(&p, b"").is_none());
    // the text constructor does not read files and vice versa
    assert!(CDecoder::from_string(&good_path, b"Phif64", b"").is_none());
    assert!(CEncoder::from_string(&good_path, b"").is_none());
    assert!(CDecoder::from_file(good.alist.as_bytes(), b"Phif64", b"").is_none());
    assert!(CEncoder::from_file(good.alist.as_bytes(), b"").is_none());

    // several things wrong at once
    assert!(CDecoder::from_string(b"abc", b"nope", b"1,,").is_none());
    assert!(CDecoder::from_file(&missing, b"nope", b"1,,").is_none());
    assert!(CEncoder::from_file(&missing, b"1,,").is_none());
}

#[test]
fn encoder_constructor_rejects_singular_codes() {
    watchdog();
    let mut rng = Rng(5);
    let dir = TempDir::new("sing");
    for t in 0..60 {
        let rows = 2 + rng.below(9);
        let cols = rows + 1 + rng.below(12);
        let h = random_singular_code(&mut rng, rows, cols);
        let alist = if t % 2 == 0 { h.alist() } else { h.alist_no_padding() };
        assert!(Encoder::from_h(&h).is_err());
        assert!(model_encode(&h, &vec![0; cols - rows]).is_none());
        assert!(CEncoder::from_string(alist.as_bytes(), b"").is_none());
        assert!(CEncoder::from_string(alist.as_bytes(), b"1").is_none());
        let p = dir.file(&format!("s{t}.alist"), alist.as_bytes());
        assert!(CEncoder::from_file(&p, b"").is_none());
        // ... but the decoder does not care
        assert!(CDecoder::from_string(alist.as_bytes(), b"Phif64", b"").is_some());
        assert!(CDecoder::from_file(&p, b"HLTanhf32", b"").is_some());
    }
}

#[test]
fn lossy_conversion_of_file_names() {
    watchdog();
    // The C strings are converted lossily: a path with an invalid byte names
    // the file in which that byte is U+FFFD.
    let codes = test_codes();
    let code = &codes[1];
    let dir = TempDir::new("lossy");
    let real = dir.file("a\u{fffd}b\u{fffd}.alist", code.alist.as_bytes());
    let _ = real;
    let mut raw = dir.0.to_str().unwrap().as_bytes().to_vec();
    raw.extend_from_slice(b"/a\xffb\xe2\x82.alist");
    let dec = CDecoder::from_file(&raw, b"Phif64", b"");
    let enc = CEncoder::from_file(&raw, b"");
    assert!(dec.is_some());
    assert!(enc.is_some());
    // three separate invalid bytes are three replacement characters
    let mut raw = dir.0.to_str().unwrap().as_bytes().to_vec();
    raw.extend_from_slice(b"/a\xffb\x80\x80.alist");
    assert!(CDecoder::from_file(&raw, b"Phif64", b"").is_none());
    assert!(CEncoder::from_file(&raw, b"").is_none());
    dir.file("a\u{fffd}b\u{fffd}\u{fffd}.alist", code.alist.as_bytes());
    assert!(CDecoder::from_file(&raw, b"Phif64", b"").is_some());
    assert!(CEncoder::from_file(&raw, b"").is_some());
    // valid multi-byte names are used as they are
    let p = dir.file("c\u{e9}\u{20ac}\u{1f600}.alist", code.alist.as_bytes());
    let mut dec = CDecoder::from_file(&p, b"Phif64", b"").unwrap();
    let n = code.h.num_cols();
    let llrs = vec![1.5; n];
    assert_eq!(dec.decode_f64(n, &llrs, 3), (0, vec![0; n]));
}

// ---------------------------------------------------------------------------
// Tests aimed at the conversion of the constructor arguments: C strings,
// implementation names and alist text
// ---------------------------------------------------------------------------

/// The alist parser of the reference implementation, line by line.
fn model_from_alist(alist: &str) -> Result<SparseMatrix, String> {
    let mut alist = alist.split('\n');
    let sizes = alist
        .next()
        .ok_or_else(|| String::from("alist first line not found"))?;
    let mut sizes = sizes.split_whitespace();
    let ncols = sizes
        .next()
        .ok_or_else(|| String::from("alist first line does not contain enough elements"))?
        .parse()
        .map_err(|_| String::from("ncols is not a number"))?;
    let nrows = sizes
        .next()
        .ok_or_else(|| String::from("alist first line does not contain enough elements"))?
        .parse()
        .map_err(|_| String::from("nrows is not a number"))?;
    let mut h = SparseMatrix::new(nrows, ncols);
    alist.next(); // skip max weights
    alist.next();
    alist.next(); // skip weights
    for col in 0..ncols {
        let col_data = alist
            .next()
            .ok_or_else(|| String::from("alist does not contain expected number of lines"))?;
        let col_data = col_data.split_whitespace();
        for row in col_data {
            let row: usize = row
                .parse()
                .map_err(|_| String::from("row value is not a number"))?;
            // row == 0 is used for padding in irregular codes
            if row != 0 {
                if row > nrows {
                    return Err(String::from("row value exceeds the number of rows"));
                }
                h.insert(row - 1, col);
            }
        }
    }
    Ok(h)
}

/// Whether the sizes announced in the first line are small enough to try to
/// build the matrix (a huge size would exhaust the memory in any
/// implementation).
fn sizes_are_reasonable(alist: &str) -> bool {
    let first = alist.split('\n').next().unwrap();
    first
        .split_whitespace()
        .take(2)
        .all(|t| t.parse::<usize>().map_or(true, |x| x <= 3000))
}

const MUTATION_CHARS: [char; 24] = [
    ' ', ' ', '\n', '\n', '\t', '\r', '\u{b}', '\u{c}', '0', '0', '1', '2', '7', '9', 'x', '+', '-',
    '.', '\u{a0}', '\u{85}', '\u{2028}', '\u{3000}', '\u{fffd}', '\u{200b}',
];

fn mutate(rng: &mut Rng, text: &str) -> String {
    let mut chars: Vec<char> = text.chars().collect();
    let edits = 1 + rng.below(3);
    for _ in 0..edits {
        let len = chars.len();
        match rng.below(9) {
            0 | 1 if len > 0 => {
                let j = rng.below(len);
                chars[j] = MUTATION_CHARS[rng.below(MUTATION_CHARS.len())];
            }
            2 if len > 0 => {
                chars.remove(rng.below(len));
            }
            3 => {
                let j = rng.below(len + 1);
                chars.insert(j, MUTATION_CHARS[rng.below(MUTATION_CHARS.len())]);
            }
            4 => {
                chars.truncate(rng.below(len + 1));
            }
            5 | 6 => {
                // drop, duplicate or blank a whole line
                let s: String = chars.iter().collect();
                let mut lines: Vec<&str> = s.split('\n').collect();
                let j = rng.below(lines.len());
                match rng.below(3) {
                    0 => {
                        lines.remove(j);
                    }
                    1 => {
                        let l = lines[j];
                        lines.insert(j, l);
                    }
                    _ => lines[j] = "",
                }
                chars = lines.join("\n").chars().collect();
            }
            7 => {
                let s: String = chars.iter().collect();
                chars = s.replace('\n', "\r\n").chars().collect();
            }
            _ => {
                // join two lines
                if let Some(j) = chars.iter().position(|&c| c == '\n') {
                    let later: Vec<usize> = chars
                        .iter()
                        .enumerate()
                        .filter(|(_, c)| **c == '\n')
                        .map(|(j, _)| j)
                        .collect();
                    let j = if rng.bit() { j } else { later[rng.below(later.len())] };
                    chars[j] = ' ';
                }
            }
        }
    }
    chars.into_iter().collect()
}

#[test]
fn alist_text_is_understood_as_before() {
    watchdog();
    let mut rng = Rng(31);
    let mut num_ok = 0usize;
    let mut num_err = 0usize;
    let mut messages = std::collections::BTreeSet::new();
    let mut c_checked = 0usize;
    for round in 0..1500 {
        let rows = 1 + rng.below(7);
        let cols = rows + rng.below(9);
        let mut h = SparseMatrix::new(rows, cols);
        let ones = rng.below(3 * cols + 1);
        for _ in 0..ones {
            h.insert(rng.below(rows), rng.below(cols));
        }
        let base = match round % 3 {
            0 => h.alist(),
            1 => h.alist_no_padding(),
            // only the part which is needed
            _ => {
                let a = h.alist_no_padding();
                let keep = 4 + cols;
                let mut s = a.split('\n').take(keep).collect::<Vec<_>>().join("\n");
                if rng.bit() {
                    s.push('\n');
                }
                s
            }
        };
        for t in 0..60 {
            let text = if t == 0 { base.clone() } else { mutate(&mut rng, &base) };
            if !sizes_are_reasonable(&text) {
                continue;
            }
            let expected = model_from_alist(&text);
            let got = SparseMatrix::from_alist(&text);
            // equality of sparse matrices is sensitive to the order in which
            // the entries were inserted, which matters to the decoders
            assert_eq!(got, expected, "{text:?}");
            match &expected {
                Ok(m) => {
                    num_ok += 1;
                    if t == 0 {
                        assert_eq!(dense(m), dense(&h));
                    }
                }
                Err(e) => {
                    num_err += 1;
                    messages.insert(e.clone());
                }
            }
            // the C constructors take exactly the texts which are understood
            if t % 7 == 0 || (t % 2 == 0 && expected.is_err()) {
                let dec = CDecoder::from_string(text.as_bytes(), b"Phif32", b"");
                assert_eq!(dec.is_some(), expected.is_ok(), "{text:?}");
                c_checked += 1;
                if let (Ok(m), Some(mut dec)) = (&expected, dec) {
                    // and decode with the matrix which was understood
                    let n = m.num_cols();
                    let llrs: Vec<f64> = (0..n).map(|_| 3.0 * rng.noise()).collect();
                    let want = rust_decode(m, "Phif32", None, &llrs, 4);
                    assert_eq!(dec.decode_f64(n, &llrs, 4), want);
                    // (the encoder cannot be asked about matrices with more
                    // rows than columns or without rows)
                    if (1..=n).contains(&m.num_rows()) {
                        let enc = Encoder::from_h(m).is_ok();
                        assert_eq!(CEncoder::from_string(text.as_bytes(), b"").is_some(), enc);
                    }
                }
            }
        }
    }
    assert!(num_ok > 10_000 && num_err > 10_000, "{num_ok} {num_err}");
    assert!(c_checked > 10_000);
    // all the ways of being wrong have been exercised
    assert_eq!(messages.len(), 6, "{messages:?}");
}

#[test]
fn alist_corner_cases() {
    watchdog();
    let cases = [
        "",
        "\n",
        " ",
        "0",
        "0 0",
        "0 0\n",
        "0 3",
        "0 3 junk\n\n\nmore junk",
        "3 0",
        "3 0\n0 0\n0 0 0\n\n\n\n\n",
        "3 0\n0 0\n0 0 0\n\n0\n0\n0",
        "3 0\n0 0\n0 0 0\n\n0\n0\n",
        "3 0\n0 0\n0 0 0\n\n0\n0",
        "3 0\n0 0\n0 0 0\n\n1\n0\n0",
        "2 2\n\n\n\n1\n2",
        "2 2\n\n\n\n1\n2\n",
        "2 2\n\n\n\n1\n",
        "2 2\n\n\n\n1",
        "2 2\n\n\n1\n2",
        "2 2\n\n\n\n1 2 1 2 0 0 1\n2 2",
        "2 2\n\n\n\n2 1\n1 2",
        "2 2 2 2\nx\ny\nz\n+1\n+2",
        "+2 +2\n\n\n\n1\n2",
        "2 -2\n\n\n\n1\n2",
        "2 2\n\n\n\n1\n3",
        "2 2\n\n\n\n1\n-1",
        "2 2\n\n\n\n1\n1.0",
        "2 2\n\n\n\n1\n18446744073709551616",
        "2 18446744073709551616\n",
        "18446744073709551616 2\n",
        "x y",
        "x",
        "2 y",
        "2",
        "2\n2",
        "\n2 2\n\n\n\n1\n2",
        "2\u{a0}2\n\n\n\n1\u{2028}2\n\u{3000}2\u{85}",
        "2\u{200b}2\n\n\n\n1\n2",
        "2 2\r\n\r\n\r\n\r\n1\r\n2\r\n",
        "2 2\r\r\r\r1\r2\r",
        "2 2\n\n\n\n1\u{b}2\n2\u{c}1",
        "  2   2  \n\n\n\n   1   \n  2  \n",
        "\t2\t2\t\n\n\n\n\t\n\t\n",
        "2 2\n\n\n\n00001\n0002",
    ];
    for text in cases {
        let expected = model_from_alist(text);
        assert_eq!(SparseMatrix::from_alist(text), expected, "{text:?}");
        let dec = CDecoder::from_string(text.as_bytes(), b"Aminstarf64", b"");
        assert_eq!(dec.is_some(), expected.is_ok(), "{text:?}");
        let dec = CDecoder::from_string(text.as_bytes(), b"HLMinstarapproxi8", b"1");
        assert_eq!(dec.is_some(), expected.is_ok(), "{text:?}");
    }
}

#[test]
fn implementation_names_are_exactly_the_documented_ones() {
    watchdog();
    let codes = test_codes();
    let code = &codes[0];
    let names: std::collections::BTreeSet<&str> = ALL_IMPLEMENTATIONS.iter().copied().collect();
    assert_eq!(names.len(), 36);
    // every name is understood, and as the implementation of that name
    let mut distinct = std::collections::HashSet::new();
    for name in ALL_IMPLEMENTATIONS {
        let imp: DecoderImplementation = name.parse().unwrap();
        assert_eq!(imp.to_string(), name);
        distinct.insert(imp);
        assert!(CDecoder::from_string(code.alist.as_bytes(), name.as_bytes(), b"").is_some());
    }
    assert_eq!(distinct.len(), 36);
    // all the sequences of up to five of the elements of which the names
    // are made
    let tokens = [
        "HL",
        "Phi",
        "Tanh",
        "Minstarapprox",
        "Aminstar",
        "f64",
        "f32",
        "i8",
        "Jones",
        "PartialHardLimit",
        "Deg1Clip",
    ];
    let mut accepted = 0usize;
    let mut total = 0usize;
    let mut c_checked = 0usize;
    let mut seqs: Vec<String> = vec![String::new()];
    let mut last = seqs.clone();
    for _ in 0..5 {
        let mut next = Vec::new();
        for s in &last {
            for t in tokens {
                next.push(format!("{s}{t}"));
            }
        }
        seqs.extend(next.iter().cloned());
        last = next;
    }
    assert_eq!(seqs.len(), 1 + 11 + 121 + 1331 + 14641 + 161051);
    for (j, s) in seqs.iter().enumerate() {
        total += 1;
        let ok = s.parse::<DecoderImplementation>().is_ok();
        assert_eq!(ok, names.contains(s.as_str()), "{s:?}");
        if ok {
            accepted += 1;
        }
        if ok || j % 53 == 0 {
            let dec = CDecoder::from_string(code.alist.as_bytes(), s.as_bytes(), b"1,1");
            assert_eq!(dec.is_some(), ok, "{s:?}");
            c_checked += 1;
        }
    }
    assert_eq!(accepted, 36);
    assert!(total > 170_000 && c_checked > 3000);
    // single character edits of the names
    let mut rng = Rng(32);
    let alphabet: Vec<char> = "HLPhiTanMstrpxAfd8642J oeDgC1l\u{e9}\u{0}\n".chars().collect();
    for name in ALL_IMPLEMENTATIONS {
        let chars: Vec<char> = name.chars().collect();
        let mut variants: Vec<String> = Vec::new();
        for j in 0..chars.len() {
            // deletion
            let mut v = chars.clone();
            v.remove(j);
            variants.push(v.into_iter().collect());
            // substitution, case change
            let mut v = chars.clone();
            v[j] = alphabet[rng.below(alphabet.len())];
            variants.push(v.into_iter().collect());
            let mut v = chars.clone();
            v[j] = if v[j].is_ascii_uppercase() {
                v[j].to_ascii_lowercase()
            } else {
                v[j].to_ascii_uppercase()
            };
            variants.push(v.into_iter().collect());
            // transposition
            if j + 1 < chars.len() {
                let mut v = chars.clone();
                v.swap(j, j + 1);
                variants.push(v.into_iter().collect());
            }
        }
        for j in 0..=chars.len() {
            let mut v = chars.clone();
            v.insert(j, alphabet[rng.below(alphabet.len())]);
            variants.push(v.into_iter().collect());
        }
        for (j, v) in variants.iter().enumerate() {
            let ok = v.parse::<DecoderImplementation>().is_ok();
            assert_eq!(ok, names.contains(v.as_str()), "{v:?}");
            if j % 9 == 0 && !v.contains('\u{0}') {
                let dec = CDecoder::from_string(code.alist.as_bytes(), v.as_bytes(), b"");
                assert_eq!(dec.is_some(), ok, "{v:?}");
            }
        }
    }
}

#[test]
fn c_strings_are_converted_lossily() {
    watchdog();
    let codes = test_codes();
    let code = &codes[2]; // 5 x 10, not staircase
    let n = code.h.num_cols();
    let k = n - code.h.num_rows();
    let dir = TempDir::new("str");
    let enc = Encoder::from_h(&code.h).unwrap();
    let msg: Vec<u8> = (0..k).map(|j| (j % 2) as u8).collect();
    let cw = from_gf2(&enc.encode(&to_gf2(&msg)));
    let llrs: Vec<f64> = cw.iter().map(|&b| if b == 1 { -2.5 } else { 2.5 }).collect();

    let lines: Vec<&str> = code.alist.split('\n').collect();
    // 1. Bytes which are not UTF-8 in the parts of the alist which are
    //    ignored do no harm: the conversion replaces them, it does not fail.
    let junk: [&[u8]; 8] = [
        b"\xff",
        b"\x80\x80",
        b"\xc0\xaf",
        b"\xe2\x82",
        b"\xed\xa0\x80",
        b"\xf0\x9f\x98",
        b"\xf4\x90\x80\x80",
        b"\xf8\x88\x80\x80\x80 \xc3",
    ];
    for (t, j) in junk.iter().enumerate() {
        let mut text: Vec<u8> = Vec::new();
        for (l, line) in lines.iter().enumerate() {
            if l > 0 {
                text.push(b'\n');
            }
            text.extend_from_slice(line.as_bytes());
            if (1..=3).contains(&l) && (l + t) % 2 == 0 {
                text.push(b' ');
                text.extend_from_slice(j);
            }
            if l >= 4 + n {
                text.extend_from_slice(j);
            }
        }
        text.extend_from_slice(j);
        let mut dec = CDecoder::from_string(&text, b"Phif64", b"").expect("junk in ignored lines");
        assert_eq!(dec.decode_f64(n, &llrs, 10), (0, cw.clone()));
        let mut c_enc = CEncoder::from_string(&text, b"").unwrap();
        assert_eq!(c_enc.encode(n, &msg), cw);
        // a file with the same contents cannot be read as text
        let p = dir.file(&format!("junk{t}.alist"), &text);
        assert!(CDecoder::from_file(&p, b"Phif64", b"").is_none());
        assert!(CEncoder::from_file(&p, b"").is_none());
        // in the lines which are used the same bytes are an error
        let mut text: Vec<u8> = Vec::new();
        for (l, line) in lines.iter().enumerate() {
            if l > 0 {
                text.push(b'\n');
            }
            text.extend_from_slice(line.as_bytes());
            if l == 4 + t % n {
                text.push(b' ');
                text.extend_from_slice(j);
            }
        }
        assert!(CDecoder::from_string(&text, b"Phif64", b"").is_none());
        assert!(CEncoder::from_string(&text, b"").is_none());
    }
    // 2. Well formed multi-byte characters are decoded: the Unicode white
    //    space characters separate the elements of the alist.
    for sep in ["\u{a0}", "\u{85}", "\u{2028}", "\u{3000}", "\u{2003}\u{1680}", "\t\u{205f}"] {
        let text = code.alist.replace(' ', sep);
        assert_eq!(SparseMatrix::from_alist(&text).as_ref(), Ok(&code.h));
        let mut dec = CDecoder::from_string(text.as_bytes(), b"Phif64", b"").unwrap();
        assert_eq!(dec.decode_f64(n, &llrs, 10), (0, cw.clone()));
        let mut c_enc = CEncoder::from_string(text.as_bytes(), b"").unwrap();
        assert_eq!(c_enc.encode(n, &msg), cw);
        let p = dir.file("spaces.alist", text.as_bytes());
        let mut dec = CDecoder::from_file(&p, b"Phif64", b"").unwrap();
        assert_eq!(dec.decode_f64(n, &llrs, 10), (0, cw.clone()));
    }
    // ... and other characters do not
    for sep in ["\u{200b}", "\u{feff}", "\u{fffd}", "\u{1f600}", "_"] {
        let text = code.alist.replace(' ', sep);
        assert!(CDecoder::from_string(text.as_bytes(), b"Phif64", b"").is_none());
    }
    // 3. File names: every maximal ill-formed piece becomes one U+FFFD.
    let pieces: [(&[u8], usize); 12] = [
        (b"\xff", 1),
        (b"\xc0\xaf", 2),
        (b"\xc3", 1),
        (b"\xe0\x80", 2),
        (b"\xe0\xa0", 1),
        (b"\xed\xa0\x80", 3),
        (b"\xed\x9f", 1),
        (b"\xf0\x8f", 2),
        (b"\xf0\x90\x80", 1),
        (b"\xf4\x8f\xbf", 1),
        (b"\xf4\x90", 2),
        (b"\xf5\x80\x80\x80", 4),
    ];
    for (t, (piece, replacements)) in pieces.iter().enumerate() {
        let name = format!("n{t}_{}_\u{e9}\u{20ac}\u{1f600}.alist", "\u{fffd}".repeat(*replacements));
        dir.file(&name, code.alist.as_bytes());
        let mut raw = dir.0.to_str().unwrap().as_bytes().to_vec();
        raw.extend_from_slice(format!("/n{t}_").as_bytes());
        raw.extend_from_slice(piece);
        raw.extend_from_slice("_\u{e9}\u{20ac}\u{1f600}.alist".as_bytes());
        assert!(CDecoder::from_file(&raw, b"Phif64", b"").is_some(), "piece {t}");
        assert!(CEncoder::from_file(&raw, b"").is_some(), "piece {t}");
        // one replacement character more or less names another file
        for other in [replacements + 1, replacements - 1] {
            let mut raw = dir.0.to_str().unwrap().as_bytes().to_vec();
            raw.extend_from_slice(format!("/n{t}_").as_bytes());
            raw.extend_from_slice("\u{fffd}".repeat(other).as_bytes());
            raw.extend_from_slice("_\u{e9}\u{20ac}\u{1f600}.alist".as_bytes());
            assert!(CDecoder::from_file(&raw, b"Phif64", b"").is_none(), "piece {t}");
        }
    }
    // 4. Long strings
    let mut long = code.alist.clone();
    long.push_str(&"1 2 3 4 5 6 7 8 9 \u{20ac}\n".repeat(20_000));
    assert!(CDecoder::from_string(long.as_bytes(), b"Phif64", b"").is_some());
    let long_name = vec![b'A'; 100_000];
    assert!(CDecoder::from_string(code.alist.as_bytes(), &long_name, b"").is_none());
    let long_pattern = vec!["1"; n].join(",");
    let mut dec =
        CDecoder::from_string(code.alist.as_bytes(), b"Phif64", long_pattern.as_bytes()).unwrap();
    assert_eq!(dec.decode_f64(n, &llrs, 10), (0, cw.clone()));
}
